"""C04 — supercells and re-oriented cells contain the same infinite crystal.

Model: lean/Atomman/C04.lean (supersize with the implementation's replica ordering; rotate up to
normalize: bounding supercell, new vectors at the same origin, half-open filter).
Tie: correspondence of `System.supersize` (atom for atom, in order) and `System.rotate`
(multiset of (type, extras, relative position mod 1 in the new cell)) against the Lean driver.
Search: the property's own clauses evaluated on the real code with exact lattice arithmetic.
"""
from __future__ import annotations

import itertools
import math
import random
from fractions import Fraction

from .. import common as cm

PROP = 'C04'
THEOREMS = [
    'C04.supersize_length', 'C04.supersize_get', 'C04.decode_encode', 'C04.encode_decode',
    'C04.replicaPos_eq', 'C04.superBox_volume', 'C04.supersize_copies_payload',
    'C04.replica_injective', 'C04.newVects_det', 'C04.rotate_members', 'C04.rotate_inside',
    'C04.rotate_distinct', 'C04.rotate_refuses_singular',
    'C04.rotate_equal_representation', 'C04.rep_exists', 'C04.rep_unique', 'C04.reduce_rep',
    # the count: sublattice index |det U| (Mathlib Smith normal form), coverage by the bounding supercell,
    # per-atom image lists, total = natoms*|det U| (the code's expected-count test), at K = Q with Rat.floor
    'C04.rotate_lattice_index', 'C04.rep_in_bounds', 'C04.keptPred_imageOf', 'C04.rotate_count',
    'C04.rotate_total', 'C04.rotate_check_passes', 'C04.rotate_total_rat',
    'C04.rotate_identity_shortcut', 'C04.rotate_ok',
    # the integer test in front of rotate (np.allclose(uvws, rint(uvws))): an index within the tolerance of an integer is
    # that integer from either side, exact integers pass, whatever passes is within the tolerance, the rest is refused
    'C04.acceptIndex_sound', 'C04.acceptIndex_nearest', 'C04.acceptIndex_int', 'C04.acceptIndex_refuses',
    'C04.rotateF_of_int', 'C04.rotateF_within_tolerance',
    # the lattice-site test of conventional_to_primitive is periodic (atoms listed on far faces / in other images)
    'C04.onSite_image', 'C04.checkSites_periodic', 'C04.checkBasis_periodic', 'C04.checkSites_true',
    'C04.checkSites_same_type',
    # round 3 (Proofs/C04_Hist.lean). names of the per-atom properties: every name of the input is carried by the copy,
    # nothing else, in the input's order
    'C04.copiedKeys_complete', 'C04.copiedKeys_sound', 'C04.copiedKeys_std',
    # a re-oriented cell is fully periodic whatever the input's flags; zero multipliers and tuple ranges without 0 are
    # refused, everything else is hi - lo > 0 replicas; a lattice site holding another type refuses the conversion
    'C04.rotatePbc_periodic', 'C04.ofInt?_zero', 'C04.ofInt?_spec', 'C04.ofPair?_refuses', 'C04.ofPair?_accepts',
    'C04.checkSites_refuses_mixed', 'C04.checkBasis_refuses_mixed',
    # the object behind the call (cell + cached reciprocal vectors + atoms + flags): coherence is an invariant of every
    # history; supersize / rotate on the object after any history = supersize / rotate of the visible state
    'C04.coherent_fresh', 'C04.recipC_spec', 'C04.sposC_spec', 'C04.step_coherent', 'C04.run_coherent',
    'C04.supersizeC_eq', 'C04.hist_supersize', 'C04.rotateC_eq', 'C04.hist_rotate',
    # round 4 (Proofs/C04_Family.lean). the crystal family: which comparisons identifyfamily looks at (b against c is not
    # among them), the families of the cells the library's constructors build, the family lists of the settings
    'C04.identifyFamily_congr', 'C04.identifyFamily_c_irrelevant', 'C04.family_orthorhombic', 'C04.family_monoclinic',
    'C04.family_triclinic', 'C04.family_triclinic_exact', 'C04.family_hexagonal', 'C04.familyAllowed_orthorhombic',
    'C04.familyAllowed_monoclinic', 'C04.familyAllowed_hexagonal', 'C04.familyAllowed_none', 'C04.settingFamilies_some_iff',
    'C04.familyAllowed_orthorhombic_iff', 'C04.familyAllowed_monoclinic_iff', 'C04.familyAllowed_hexagonal_iff',
    'C04.checkSettingBasis_member', 'C04.checkSettingBasis_refuses_family', 'C04.checkSites_eq_by',
    # the lattice-site test at the caller's tolerance: exact sites pass any tolerance, monotone, periodic; the setting
    # the conversion works with ('t' -> t2 for a cell passing the t2 test at the caller's tolerances)
    'C04.onSite_imp_onSiteTol', 'C04.onSiteTol_mono', 'C04.filter_onSiteTol_mono', 'C04.onSiteTol_image',
    'C04.onSiteTol_zero', 'C04.checkSettingBasis_zero',
    'C04.resolveSetting_unchecked', 'C04.resolveSetting_explicit', 'C04.resolveSetting_t2', 'C04.resolveSetting_t1',
    'C04.resolveSetting_t_refuses',
    # round 5 (Proofs/C04_Orient.lean). the ORIENTATION / handedness of the description does not matter: relative
    # coordinates, the replicas of supersize, the kept / dropped decisions of rotate, the identity shortcut, the count test
    # and its refusals are those of the same cell written in any other Cartesian frame (rotated, mirrored = left-handed,
    # axes permuted); the result is the re-framed result
    'C04.relToCart_reframe', 'C04.cartToRel_reframe', 'C04.newVects_reframe', 'C04.kept_reframe', 'C04.superBox_reframe',
    'C04.replicaPos_reframe', 'C04.supersizeAtoms_reframe', 'C04.wrapAtom_reframe', 'C04.rotateIdentity_reframe',
    'C04.rotateRaw_reframe', 'C04.rotate_reframe',
    # round 6 (Proofs/C04_Source.lean): the SOURCE TIE. Each generated definition of Atomman/Generated/SupercellSource.lean
    # (regenerated with `ast` from the current System.py / Box.py / miller.py / the two conversion styles on every check) is
    # the hand model the theorems above are about
    'C04.gen_resolveInt_eq_model', 'C04.gen_resolvePair_eq_model', 'C04.gen_resolveOther_eq_model',
    'C04.gen_replicaRel_eq_model', 'C04.gen_superBox_eq_model', 'C04.gen_defaultTol_eq_model', 'C04.gen_defaultTol_small',
    'C04.gen_rotate_glue_eq_model', 'C04.gen_shortcut_eq_model', 'C04.gen_shortcutPbc_eq_model', 'C04.gen_newVects_eq_model',
    'C04.gen_newVolume_eq_model', 'C04.gen_corners_eq_model', 'C04.gen_rotateSizes_eq_model', 'C04.gen_orel_eq_model',
    'C04.gen_shift_eq_model', 'C04.gen_roundFaces_eq_model', 'C04.gen_inside_eq_model', 'C04.gen_hex4to3_eq_model',
    'C04.gen_isCubic_eq_model', 'C04.gen_isHexagonal_eq_model', 'C04.gen_isTetragonal_eq_model',
    'C04.gen_isRhombohedral_eq_model', 'C04.gen_isOrthorhombic_eq_model', 'C04.gen_isMonoclinic_eq_model',
    'C04.gen_isTriclinic_eq_model', 'C04.gen_identifyFamily_eq_model', 'C04.gen_p2cTable_eq_model',
    'C04.gen_c2pTable_eq_model', 'C04.gen_settingSites_eq_model', 'C04.gen_settingFamilies_eq_model',
    'C04.gen_multip_eq_model', 'C04.gen_c2pDefaults_eq_model', 'C04.gen_resolveCalls_eq_model',
    'C04.gen_resolveSetting_eq_model', 'C04.gen_familyGate_eq_model', 'C04.gen_pins_eq_model',
    # the numpy bookkeeping of supersize (a tiny array language interpreted on symbolic shapes): the replica counters x, y, z
    # and the copy indices of the source are the model's; they enumerate the rows in the model's order; the rows of
    # supersizeAtoms in terms of them; one pass of the site loop of check_setting_basis
    'C04.gen_offsets_eq_model', 'C04.flatMap_const_replicate', 'C04.tileList_eq_flatten', 'C04.tileList_mul',
    'C04.offsets_spec', 'C04.map_eq_range_filterMap', 'C04.supersizeAtoms_eq_order', 'C04.gen_siteStep_eq_model',
    'C04.gen_siteCallKw_eq_model', 'C04.checkSitesBy_step', 'C04.absK_eq_abs', 'C04.gen_newNatoms_eq_model',
    'C04.gen_planar_refusal_iff',
    # round 6 (Proofs/C04_Ladder.lean + end of Proofs/C04.lean). the call as written: which multiplier arguments are
    # refused and with which error, the first refused axis decides; supersize end to end
    'C04.resolve_ok_iff', 'C04.resolve_spec', 'C04.resolve_error_iff', 'C04.resolveSizes_ok_iff', 'C04.resolveSizes_ok',
    'C04.resolveSizes_first_error', 'C04.supersizeApi_ok', 'C04.supersizeApi_refuses_iff',
    # the face-rounding ladder of rotate: one rung keeps exactly the half-open cell shifted by atol (= the exact filter of
    # the shifted crystal), is the exact test at 0 and away from the faces; the loop returns the first rung with the
    # expected count, fails only if every rung miscounts; rotate with its ladder = the exact model when the first rung
    # sees no atom within its reach of a face
    'C04.closeK_zero_rtol', 'C04.roundFaces_keep_iff', 'C04.ladderKeep_eq_shift', 'C04.ladderKeep_zero',
    'C04.ladderKeep_away', 'C04.ladderFilter_eq_shift', 'C04.ladderLoop_first', 'C04.ladderLoop_skip',
    'C04.ladderLoop_sound', 'C04.ladderLoop_none_iff', 'C04.rotateRaw_eq_sup', 'C04.rotateLadder_first_rung',
    'C04.rotateLadder_first_rung_rat',
    # the integer matrices of the conversions: mutually inverse up to multip, det = number of lattice sites, the sites =
    # the primitive lattice points of the conventional cell; the conversions undo one another on the cell vectors
    'C04.conv_tables_ok', 'C04.p2cTable_some_iff', 'C04.c2pUvws_t_none', 'C04.conv_uvws_inverse',
    'C04.sites_are_lattice_points', 'C04.newVects_mul', 'C04.newVects_scal', 'C04.newVects_scaleCell',
    'C04.scaleCell_scaleCell', 'C04.multip_pos', 'C04.conversions_undo_cell',
]
PARTIAL = {
    'normalize_after_rotate': 'the final normalize step (rebuild the box LAMMPS-compatible, flip a left-handed cell, '
                              'wrap, returned transform) is property C05; here it is outside the Lean model: the '
                              'correspondence compares relative coordinates in the new cell (s_c -> 1-s_c for a '
                              'left-handed U, C05 flip_same_points) and the oracle checks on the real result that the '
                              'returned transform is a proper rotation taking the requested lattice vectors U.vects onto '
                              'the result cell and every atom onto an original atom',
    'cell_conversions': 'round 6: the integer vectors both conversions hand to rotate, multip, the lattice sites and family '
                        'lists are generated from the source and proved mutually inverse / complete (conv_uvws_inverse, '
                        'sites_are_lattice_points, conversions_undo_cell: the cell vectors come back); what remains outside '
                        'Lean is the float cut below (statement pin c2p_cut). Earlier text: '
                        'conventional<->primitive conversions are rotate() by the centering tables (mutually inverse by '
                        'C16 centering_inverse) preceded by the family test and the lattice-site test at the caller\'s '
                        'tolerances (modelled: identifyFamily, checkSettingBasis, resolveSetting; exact instance checkBasis, '
                        'periodic by checkBasis_periodic; tied by the correspondence batches `basis`, `family`, `resolve`) '
                        'and followed, for c2p, by cutting '
                        '1/8 (1/27) of the cell out with a float smallshift; that cut is not modelled in Lean; the oracle '
                        'checks on the real code, for all 8 settings (+ "t") on random compatible cells with atoms stored '
                        'on far faces / outside, that the primitive cell is the same crystal and that p2c(c2p(cell)) '
                        'returns the original cell vectors, identity composite transform and the original atoms in place',
}
RULE = ('random cells of every crystal family + triclinic (dyadic-grid vectors, non-zero origins), 1-4 atoms with '
        'relative coordinates on a 1/8 grid incl. faces (a quarter of the rotate cases: coordinate 0 stored as 1.0, the far '
        'face), a third of the rotate cases with 1-2 more atoms 1e-7..2e-4 (relative) off a face / edge / corner of the NEW '
        'cell on either side, 1-3 types, scalar + vector + 3x3 tensor + unique integer per-atom properties; multiplier tuples '
        'positive/negative/two-sided; integer 3x3 U with entries in [-2,2], det != 0 of either sign, handed to rotate as int '
        'list / int array / float array / floats one ulp or up to 0.45 acceptance tolerances off on either side / 3 or more '
        'tolerances off (refusal) / hexagonal 4-index sets (the library\'s own vector3to4 thirds, integer sets, sets with '
        'u+v+t != 0); a batch with one atom moved outside the box (refusals must coincide); conversions: random cells of '
        'every family compatible with each of the 8 settings (and the self-detecting "t"), 1-3 motif atoms per lattice '
        'point, atoms stored inside / on far faces, edges, corners / one cell vector outside, origins; the lattice-site test '
        'also on spoiled cells; round 3: every system carries one of the 8 pbc settings (half fully periodic), its extra '
        'per-atom properties under names drawn from a pool (one- and two-letter names, sub-/superstrings of pos and atype, '
        'a blank, non-ASCII) incl. string labels and flags; a third of the supersize cases, 3 in 10 rotate cases, a quarter '
        'of the hexagonal ones and 4 in 10 of the randomly stored conversion cells are ONE object with a history behind it '
        '(1-6 of: scaled-position / reciprocal-vector reads, strains of 1e-12 .. 1e-3 with relative or Cartesian positions '
        'held through box_set or the Box setters, origin moves, position rewrites, pbc switches, throw-away supersize / '
        'rotate calls; a third end with read + ppm dilation); one rotate case in 12 has large-index anisotropic vectors '
        '(entries up to 12, |det| <= 12); multi-type cells whose centring sites hold another type (symbols unset / shared / '
        'distinct) must be refused; refused multipliers: zero (int, numpy int, empty tuple), tuple ranges without 0, '
        'non-integers, lists, wrong lengths; round 4: EVERY replication count 1..260 along one axis (+ the counts up to 1100 at '
        'which float bookkeeping of k steps of 1/k goes wrong; thorough 1..1100 + traps to 5000) on 1-3 atom cells in every '
        'multiplier form, two trap counts in one call, rotate with a bounding supercell spanning each trap count <= 120 (+ '
        'samples to 260), totals and input sizes 1023 .. 4100 (thorough 65537) checked by a vectorised exact-grid oracle; '
        'multipliers / uvws as unsigned and 8 / 16-bit numpy integers, tol as numpy scalar / array, flags as 1 / numpy.True_ '
        '/ 0; 80 rotate cases per run with ONE atom exactly on a rung of the ladder in use (default and user ladders; single '
        'placements verified unambiguous by exact arithmetic); conversion cells with coincidentally equal constants in every '
        'slot (members of the family by the library\'s own constructors: b=c, beta=gamma, hexagonal c=a with check_family=True; '
        'a=c, a=b, a=b=c, alpha=beta, alpha=gamma with check_family=False), with Cartesian coordinates rounded to 5..8 '
        'decimals and the matching atol (any rtol, explicit smallshift as list / tuple / array, arguments by keyword or '
        'position), half of those strained by up to 5e-5 per component and converted with rtol 2.5e-3, the t cells every '
        'other time through the self-detecting t; conventional cells of 50-70 motif atoms; Box.identifyfamily under 8 '
        'tolerance pairs on cells with equal / nearly equal constants; round 5: per run two re-orientations of few-atom cells '
        'with a bounding supercell of 5.2e5 .. 1.05e6 atoms (axis-aligned / sheared / general new cells; for each axis of the '
        'new cell one atom 2e-9 .. 6e-8 of the new cell below the face across it, box origins zero / dyadic / lattice vector / '
        'a hair below a lattice plane), one of a 9000 .. 32000-atom cell along small vectors, one supersize to 5e5 .. 1e6 atoms '
        '(thorough: 2e6), checked by a periodic k-d tree oracle; primitive_to_conventional called directly on cells in every '
        'orientation (LAMMPS-oriented, rotated, mirrored, mirrored + rotated, axes permuted, general of either handedness; '
        'atoms on far faces / one cell outside / histories) under every setting incl. p, undone by conventional_to_primitive; '
        'conventional cells of every setting in those orientations; cells along the Cartesian axes with the axes permuted / '
        'mirrored / half-turned through rotate, supersize and both conversions; round 6: supersize called with accepted and '
        'refused arguments mixed over the three slots (ints, numpy ints, tuples, floats, lists, 3-tuples, None, strings; the '
        'first refused axis decides the error class), rotate with user ladders (1-4 rungs as float / list / tuple / array, '
        'rungs that are no generated distance) on cells with atoms a hair off the new faces - the model runs the ladder '
        'itself -, the vectors both conversions hand to rotate captured by a spy for every setting, t and unknown ones; '
        'distinct = distinct canonical request line; '
        'non-trivial = more than one replica / U != identity')
ASSUMPTIONS = ['numpy.linalg.inv and float arithmetic of the implementation are within rtol 1e-9 of the exact value on '
               'the generated (well-conditioned, dyadic) cells',
               'the tolerance ladder of rotate is modelled (roundFaces / ladderLoop / rotateLadder, generated from the source): '
               'float and exact arithmetic can differ only about an image whose distance from a face of the new cell equals '
               'a rung to within rounding (kept / dropped by noise); the theorems about the exact filter (rotate_count ...) '
               'carry over to a rung by ladderKeep_eq_shift / rotateLadder_first_rung',
               'np.allclose / np.isclose defaults (rtol 1e-5, atol 1e-8) where the source passes no keywords (the integer '
               'test of rotate, the u+v+t test of vector4to3); Box.volume is |det vects| (gen_newNatoms_eq_model takes it as '
               'the `volume` argument); round() of an exact integer is that integer',
               'rotate_count / rotate_total / rotate_check_passes assume every atom inside the box, far faces included '
               '(0 <= s <= 1) and a non-degenerate box; for atoms outside the box both the code and the '
               'model (rotateChecked) may refuse with the expected-count test ("Filtering failed") - compared in the '
               'correspondence',
               'System.normalize (applied by rotate last) is covered by property C05; results are compared modulo '
               'the returned transform',
               'acceptIndex_nearest / rotateF_within_tolerance: the acceptance tolerance atol + rtol|n| is below 1/2 '
               '(|n| < 49999 for the numpy defaults), so rint never meets an exact half among accepted values',
               'checkSites: the float test dmag(atom, site) ~ 0 (atol 1e-8) is "equal modulo the lattice" in exact '
               'arithmetic; System.dmag reaches one cell vector beyond the box (C01)',
               'the Box.vects setter zeroes components below 1e-9 of the largest one: where that removes a tilt component of '
               'the normalized re-oriented cell (second-order terms of a cell sheared by a few ppm; computed per case from '
               'the requested vectors) results are compared at that bound instead of the rounding bound (as in C05)',
               'object-level model (SysObj): the only cached quantity of a Box is its reciprocal-vector matrix, dropped by '
               'the vects setter; the lattice translation of rotate uses numpy.linalg.solve on the visible cell',
               'identifyFamily / closeK: the six lattice parameters (square roots / arc cosines of the cell vectors) are '
               'handed to the model as the floats Box.a .. Box.gamma return; a comparison decided within 1e-6 (relative) of '
               'its threshold is exempt (float vs exact arithmetic)',
               'onSiteTol: the nearest periodic image of a site is the one the nearest-integer reduction picks, i.e. the '
               'caller\'s atol is small against the cell (atol x |inverse cell| < 1/2); an atom-site distance within 1e-6 '
               '(relative) of atol is exempt',
               'a single atom exactly on a rung of rotate\'s ladder: that rung may miscount (rounding noise decides), the next '
               'one delivers; two atoms on the same rung (can cancel in the count test) and a one-rung ladder equal to the '
               'distance are the documented knife edges and are not generated']
TRUSTED = ['numpy in the correspondence run',
           'Python ast + the translator in harness/props/c04.py (expression subset, symbolic array interpreter, structure '
           'walk); 4 normalised-AST statement pins (rotate_tail, index_of_pos, c2p_cut, p2c_body: docs/C04.md)',
           'Mathlib (Submodule.natAbs_det_equiv: Smith normal form over Z) - kernel-checked, standard axioms only']
MANIFEST = {
    'text': 'Lean model of supersize (exact replica ordering) and of rotate up to normalize (bounding supercell from the '
            '8 corners -/+ 1, whole-lattice translation to the Cartesian origin, half-open filter, the expected-count '
            'test). Theorems for every linearly ordered (floor) field: count, k-th atom = original + integer lattice '
            'shift with payload copied, index bijection, volume x M, distinct replicas never coincide; rotated cell '
            'volume = det U x volume; every kept atom is an original plus a lattice vector inside the half-open cell; no '
            'two kept atoms differ by a new-lattice vector; the half-open cell of Z^3.U holds exactly |det U| points of '
            'every coset (sublattice index via Mathlib Smith normal form) and the bounding supercell contains all of '
            'them, hence each original atom inside the box has exactly |det U| distinct images kept, none missed, the '
            'kept list is a permutation of the per-atom image lists, total = natoms x |det U| and the code\'s '
            'expected-count test never fails (atoms on far faces, s = 1, included). The integer test in front of rotate '
            '(an index within the tolerance of an integer becomes that integer, from either side) and the periodic '
            'lattice-site test of conventional_to_primitive are modelled and proved too (a site holding another type '
            'refuses). Round 3: names of the per-atom properties a copy carries (every name of the input, in order), the '
            'periodicity flags of the re-oriented cell (fully periodic), the multiplier rules (zero and ranges without 0 '
            'refused) and an object-level model (cell + cached reciprocal vectors + atoms + flags) with histories: '
            'coherence of the cache is an invariant of every history and supersize / rotate on the object equal supersize '
            '/ rotate of its visible state. Round 4: the crystal family (Box.identifyfamily as a chain of closeness tests at '
            'the caller\'s rtol / atol: b against c and beta against gamma are never consulted; the cells the family '
            'constructors build are of that family), the family lists of the settings, the lattice-site test at the '
            'caller\'s atol (exact sites pass any tolerance, monotone in the tolerance, periodic, the exact test at 0) and '
            'the setting the conversion works with (t resolves to t2 for a cell passing the t2 test at the caller\'s '
            'tolerances). Round 5: nothing rotate or supersize decide depends on the Cartesian frame the cell is written in '
            '(rotated, mirrored = left-handed, axes permuted: reframe by any invertible matrix) - relative coordinates, '
            'replicas, kept / dropped atoms, identity shortcut, count test and refusals; the result is the re-framed '
            'result (rotate_reframe), so conversions of cells that are not LAMMPS-oriented return the same crystal. '
            'Round 6: a translator (Python ast) regenerates Atomman/Generated/SupercellSource.lean from the current source of '
            'supersize, rotate, the Box family predicates, miller.py and both conversion styles on every check - the int / '
            'tuple rules, the axis updates (symbolic state: statement order matters), the replica counters (a tiny array '
            'language interpreted on symbolic shapes), the corners, bounding multipliers, lattice translation, the two '
            'rounding statements and the inside test of the ladder, the family chain, site / family / centring tables, '
            'multip, the resolve chain, one pass of the site loop, defaults and call arguments - and 49 obligations '
            'gen_..._eq_model prove each generated definition equal to the model the theorems are about (4 statement pins '
            'for numpy bookkeeping). New theorems: refusal iff for the multiplier arguments and supersize end to end; one '
            'rung of the ladder = the exact filter of the crystal shifted by atol, rotate with its ladder = the exact model '
            'when the first rung sees no atom near a face; the conversion matrices are mutually inverse up to multip, det = '
            'number of lattice sites, the sites are the primitive lattice points, the conversions undo one another on the '
            'cell vectors. '
            'Tied to the code by an '
            'exact/toleranced correspondence run on supersize '
            'and rotate (incl. refusals) and an exact lattice-arithmetic oracle on the real results (requested vectors, '
            'proper transform, payload incl. tensors, cell conversions undoing one another).',
    'note': 'Trusted: Lean kernel + standard axioms; the correspondence harness; float rounding bounded by rtol 1e-9. '
            'Outside the Lean model: normalize (C05) and the primitive-cell cut of conventional_to_primitive, both '
            'checked on the implementation by the oracle.',
    'technique': 'Lean 4 theorems over a model tied to the source by an ast translator (generated definitions proved equal '
                 'to the model) + differential correspondence + exact lattice oracle',
}


# ----------------------------------------------------------------------------------------------
# translator: the source of supersize / rotate / the conversions -> lean/Atomman/Generated/SupercellSource.lean
# ----------------------------------------------------------------------------------------------
GENERATED = ['SupercellSource']

# normalised-AST statement pins: sha256 of ast.dump of the statements (first 16 hex digits) for numpy array bookkeeping
# without a Lean counterpart; the expected values live in Proofs/C04_Source.lean (gen_pins_eq_model).


def _te(msg):
    from ..translate import TranslationError
    raise TranslationError('C04 source tie: ' + msg)


def _find_fn(tree, name, cls=None):
    import ast
    scope = tree
    if cls is not None:
        cl = [n for n in tree.body if isinstance(n, ast.ClassDef) and n.name == cls]
        if len(cl) != 1:
            _te(f'class {cls} not found exactly once')
        scope = cl[0]
    fns = [n for n in scope.body if isinstance(n, ast.FunctionDef) and n.name == name]
    if len(fns) != 1:
        _te(f'function {name} not found exactly once')
    return fns[0]


def _stmts(fn):
    from ..translate import strip_doc
    return list(strip_doc(fn.body))


def _u(node):
    import ast
    return ast.unparse(node)


def _pin_hash(nodes):
    import ast
    import hashlib
    txt = '\n'.join(ast.dump(n) for n in nodes)
    return hashlib.sha256(txt.encode()).hexdigest()[:16]


def _lean_str(s):
    return '"' + s.replace('\\', '\\\\').replace('"', '\\"') + '"'


def _frac_of_const(node):
    """exact value of a numeric literal as written (1e-05 -> 1/100000)."""
    import ast
    neg = False
    if isinstance(node, ast.UnaryOp) and isinstance(node.op, ast.USub):
        neg = True
        node = node.operand
    if not (isinstance(node, ast.Constant) and isinstance(node.value, (int, float)) and not isinstance(node.value, bool)):
        _te(f'numeric literal expected: {_u(node)}')
    f = Fraction(repr(node.value)) if isinstance(node.value, float) else Fraction(node.value)
    return -f if neg else f


class _Ex:
    """restricted expression -> Lean.  `env`: unparse text of a sub-expression -> (lean text, type) with type in
    'I' (Int), 'K' (scalar), 'V' (3-vector); literals are integers (`((n : Int) : K)` in scalar context)."""

    def __init__(self, env, scalar='K'):
        self.env = env
        self.scalar = scalar

    def lit(self, v):
        if isinstance(v, float):
            if v != int(v):
                _te(f'non-integer literal {v!r} in a translated formula')
            v = int(v)
        if self.scalar == 'I':
            return (f'({v})' if v < 0 else str(v)), 'I'
        return f'(({v} : Int) : K)', 'K'

    def tr(self, n):
        import ast
        key = _u(n)
        if key in self.env:
            return self.env[key]
        if isinstance(n, ast.Constant) and isinstance(n.value, (int, float)) and not isinstance(n.value, bool):
            return self.lit(n.value)
        if isinstance(n, ast.UnaryOp) and isinstance(n.op, ast.USub):
            a, t = self.tr(n.operand)
            return f'(-{a})', t
        if isinstance(n, ast.BinOp):
            a, ta = self.tr(n.left)
            b, tb = self.tr(n.right)
            if isinstance(n.op, (ast.Add, ast.Sub)):
                if ta != tb:
                    _te(f'cannot add {ta} and {tb}: {key}')
                return f'({a} {"+" if isinstance(n.op, ast.Add) else "-"} {b})', ta
            if isinstance(n.op, ast.Mult):
                if ta == 'V' and tb != 'V':
                    return f'(V3.smul {b} {a})', 'V'
                if tb == 'V' and ta != 'V':
                    return f'(V3.smul {a} {b})', 'V'
                if ta == tb != 'V':
                    return f'({a} * {b})', ta
            if isinstance(n.op, ast.Div) and ta == tb == 'K':
                return f'({a} / {b})', 'K'
        _te(f'expression outside the translated subset: {key}')

    def cond(self, n):
        """comparison / and / or / not -> Lean Prop text (normalised to < and ≤)."""
        import ast
        if isinstance(n, ast.Compare) and len(n.ops) == 1:
            a, ta = self.tr(n.left)
            b, tb = self.tr(n.comparators[0])
            if ta != tb or ta == 'V':
                _te(f'comparison of {ta} with {tb}: {_u(n)}')
            op = n.ops[0]
            if isinstance(op, ast.Gt):
                return f'{b} < {a}'
            if isinstance(op, ast.GtE):
                return f'{b} ≤ {a}'
            if isinstance(op, ast.Lt):
                return f'{a} < {b}'
            if isinstance(op, ast.LtE):
                return f'{a} ≤ {b}'
            if isinstance(op, ast.Eq):
                return f'{a} = {b}'
            if isinstance(op, ast.NotEq):
                return f'{a} ≠ {b}'
        if isinstance(n, ast.BoolOp):
            j = ' ∧ ' if isinstance(n.op, ast.And) else ' ∨ '
            return '(' + j.join(self.cond(v) for v in n.values) + ')'
        if isinstance(n, ast.UnaryOp) and isinstance(n.op, ast.Not):
            return f'¬ ({self.cond(n.operand)})'
        _te(f'condition outside the translated subset: {_u(n)}')


_EXC = {'ValueError': 'value', 'TypeError': 'type'}


def _raised(st):
    """error class ('value' / 'type') of a `raise X(...)` statement."""
    import ast
    if isinstance(st, ast.Raise) and isinstance(st.exc, ast.Call) and isinstance(st.exc.func, ast.Name) \
            and st.exc.func.id in _EXC:
        return _EXC[st.exc.func.id]
    _te(f'raise of ValueError / TypeError expected: {_u(st)[:80]}')


def _is_call(n, dotted, nargs=None):
    import ast
    return isinstance(n, ast.Call) and _u(n.func) == dotted and (nargs is None or len(n.args) == nargs)


def _kw(call, allowed=None):
    d = {}
    for k in call.keywords:
        if k.arg is None:
            _te(f'**kwargs in {_u(call)}')
        d[k.arg] = k.value
    if allowed is not None and set(d) - set(allowed):
        _te(f'unexpected keyword in {_u(call)}')
    return d


class _SymNat:
    """a product of named natural numbers: Lean text + multiset of factors (for shape consistency)."""

    def __init__(self, lean, factors):
        self.lean = lean
        self.factors = tuple(sorted(factors))

    def same(self, other):
        return self.factors == other.factors


def _sym_nat(node, lens):
    import ast
    names = {'mults[0]': 'm0', 'mults[1]': 'm1', 'mults[2]': 'm2', 'self.natoms': 'N'}
    key = _u(node)
    if key in names:
        return _SymNat(names[key], [names[key]])
    if isinstance(node, ast.Call) and _u(node.func) == 'len' and len(node.args) == 1 and _u(node.args[0]) in lens:
        return lens[_u(node.args[0])]
    if isinstance(node, ast.BinOp) and isinstance(node.op, ast.Mult):
        a, b = _sym_nat(node.left, lens), _sym_nat(node.right, lens)
        return _SymNat(f'({a.lean} * {b.lean})', a.factors + b.factors)
    _te(f'supersize: size expression {key}')


def _tr_broadcast(stmts, out):
    """the statements that build the replica counters x, y, z: a tiny array language
    (`np.empty(n)`, `.shape = (a, b)`, `[:] = np.arange(m)`, `[:] = v`, `.T.flatten()`, `.flatten()`) interpreted on
    symbolic shapes -> Lean lists over `colMajorRange` / `tileList`."""
    import ast
    lists, lens = {}, {}
    test = None
    for s in stmts:
        txt = _u(s)
        if isinstance(s, ast.Assign) and txt.startswith('test = ') and _is_call(s.value, 'np.empty', 1) and not s.value.keywords:
            n = _sym_nat(s.value.args[0], lens)
            test = {'size': n, 'shape': (n,), 'content': None}
        elif isinstance(s, ast.Assign) and _u(s.targets[0]) == 'test.shape' and isinstance(s.value, ast.Tuple) \
                and len(s.value.elts) == 2 and test is not None:
            a, b = (_sym_nat(e, lens) for e in s.value.elts)
            if sorted(a.factors + b.factors) != sorted(test['size'].factors):
                _te('supersize: reshape to another size: ' + txt)
            test['shape'] = (a, b)
            test['content'] = None
        elif isinstance(s, ast.Assign) and _u(s.targets[0]) == 'test[:]' and test is not None and len(test['shape']) == 2:
            v = s.value
            if _is_call(v, 'np.arange', 1) and not v.keywords:
                m = _sym_nat(v.args[0], lens)
                if not m.same(test['shape'][1]):
                    _te('supersize: broadcast of arange against another row length: ' + txt)
                test['content'] = ('range', m.lean)
            elif isinstance(v, ast.Name) and v.id in lists:
                if not lens[v.id].same(test['shape'][1]):
                    _te('supersize: broadcast of a list against another row length: ' + txt)
                test['content'] = ('tile', lists[v.id])
            else:
                _te('supersize: ' + txt)
        elif isinstance(s, ast.Assign) and isinstance(s.targets[0], ast.Name) and _u(s.value) in ('test.T.flatten()', 'test.flatten()') \
                and test is not None and len(test['shape']) == 2 and test['content'] is not None:
            rows = test['shape'][0].lean
            kind, arg = test['content']
            if _u(s.value) == 'test.T.flatten()':
                if kind != 'range':
                    _te('supersize: transposed flatten of a tiled array: ' + txt)
                lean = f'colMajorRange {rows} {arg}'
            else:
                lean = f'tileList {rows} ({arg})' if kind == 'tile' else f'tileList {rows} (List.range {arg})'
            lists[s.targets[0].id] = lean
            lens[s.targets[0].id] = test['size']
        else:
            _te('supersize: statement outside the array subset: ' + txt[:80])
    for v in ('x', 'y', 'z'):
        if v not in lists:
            _te(f'supersize: {v} not built')
    out.append('/-- the replica counters `x`, `y`, `z` (one entry per row of the result) as the broadcasting statements build them. -/')
    for v in ('x', 'y', 'z'):
        out.append(f'def genOffsets{v.upper()} (N m0 m1 m2 : Nat) : List Nat := {lists[v]}')


def _tr_copy(stmts_spos, loop, out):
    """`new = np.empty((M,) + old.shape); new[:] = old; reshape((M * N, …))` for the scaled positions and, in the loop over
    the property names, for every other per-atom array: row `k` of the result is row `k mod N` of the input."""
    import ast
    def count(first, tail, var, src, extra=''):
        want = [f'{var}[:] = {src}', f'new_shape = {var}.shape', 'new_shape = (new_shape[0] * new_shape[1],) + new_shape[2:]']
        if [_u(s) for s in tail[:3]] != want:
            _te('supersize: copy statements ' + ' | '.join(_u(s) for s in tail[:3]))
        v = first.value
        if not (isinstance(first, ast.Assign) and _u(first.targets[0]) == var and _is_call(v, 'np.empty', 1)
                and isinstance(v.args[0], ast.BinOp) and isinstance(v.args[0].op, ast.Add)
                and isinstance(v.args[0].left, ast.Tuple) and len(v.args[0].left.elts) == 1
                and _u(v.args[0].right) == f'{src}.shape' and [k.arg for k in v.keywords] == ([extra] if extra else [])):
            _te('supersize: copy buffer ' + _u(first))
        return _sym_nat(v.args[0].left.elts[0], {})
    if len(stmts_spos) != 5 or _u(stmts_spos[4]) != 'new_spos = new_spos.reshape(new_shape)':
        _te('supersize: scaled-position copy')
    c1 = count(stmts_spos[0], stmts_spos[1:], 'new_spos', 'spos')
    if not (_u(loop.target) == 'key' and _u(loop.iter) == 'self.atoms_prop()' and not loop.orelse and len(loop.body) == 7):
        _te('supersize: property loop')
    b = loop.body
    sk = b[0]
    if not (isinstance(sk, ast.If) and isinstance(sk.test, ast.Compare) and _u(sk.test.left) == 'key'
            and isinstance(sk.test.ops[0], ast.Eq) and [_u(x) for x in sk.body] == ['continue'] and not sk.orelse):
        _te('supersize: skipped key')
    if _u(b[1]) != 'old = self.atoms.view[key]' or _u(b[6]) != 'atoms.view[key] = np.array(new.reshape(new_shape))':
        _te('supersize: property loop read / write')
    c2 = count(b[2], b[3:6], 'new', 'old', extra='dtype')
    out.append('/-- the row of the input each row of the result is copied from: scaled positions, every other per-atom array; '
               'the one key the loop skips. -/')
    out.append(f'def genSposIndex (N m0 m1 m2 : Nat) : List Nat := tileList {c1.lean} (List.range N)')
    out.append(f'def genCopyIndex (N m0 m1 m2 : Nat) : List Nat := tileList {c2.lean} (List.range N)')
    out.append(f'def genSkippedKey : String := {_lean_str(ast.literal_eval(sk.test.comparators[0]))}')


def _tr_supersize(tree, out, pins):
    import ast
    fn = _find_fn(tree, 'supersize', 'System')
    if [a.arg for a in fn.args.args] != ['self', 'a_size', 'b_size', 'c_size'] or fn.args.defaults:
        _te('supersize signature')
    st = _stmts(fn)
    head = [_u(s) for s in st[:5]]
    if head != ['sizes = [a_size, b_size, c_size]', 'mults = np.array([0, 0, 0], dtype=int)', 'vects = self.box.vects',
                'origin = self.box.origin', "spos = self.atoms_prop('pos', scale=True)"]:
        _te('supersize: parameter extraction no longer has the translated shape: ' + ' | '.join(head))
    loop = st[5]
    if not (isinstance(loop, ast.For) and _u(loop.target) == 'i' and _u(loop.iter) == 'range(3)' and not loop.orelse):
        _te('supersize: axis loop')
    body = loop.body
    if len(body) != 6:
        _te(f'supersize: axis loop has {len(body)} statements, 6 expected')
    # --- the int / tuple / other dispatch
    d = body[0]
    if not (isinstance(d, ast.If) and _u(d.test) == 'isinstance(sizes[i], (int, np.integer))'):
        _te('supersize: integer branch test')
    exI = _Ex({'sizes[i]': ('n', 'I')}, scalar='I')

    def int_branch(stmts):
        if len(stmts) != 1:
            _te('supersize: integer branch is not a single statement')
        s = stmts[0]
        if isinstance(s, ast.Raise):
            return f'.error "{_raised(s)}"'
        if isinstance(s, ast.Assign) and _u(s.targets[0]) == 'sizes[i]' and isinstance(s.value, ast.Tuple) \
                and len(s.value.elts) == 2:
            a, _ = exI.tr(s.value.elts[0])
            b, _ = exI.tr(s.value.elts[1])
            return f'.ok ⟨{a}, {b}⟩'
        if isinstance(s, ast.If):
            return f'if {exI.cond(s.test)} then {int_branch(s.body)} else {int_branch(s.orelse)}'
        _te(f'supersize: integer branch statement {_u(s)[:60]}')
    out.append('/-- the integer branch of the multiplier check (`isinstance(sizes[i], (int, np.integer))`). -/')
    out.append(f'def genResolveInt (n : Int) : Except String Size :=\n  {int_branch(d.body)}')
    if len(d.orelse) != 1 or not (isinstance(d.orelse[0], ast.If) and _u(d.orelse[0].test) == 'isinstance(sizes[i], tuple)'):
        _te('supersize: tuple branch test')
    t = d.orelse[0]
    other = _raised(t.orelse[0]) if len(t.orelse) == 1 else _te('supersize: else branch')
    if not (len(t.body) == 1 and isinstance(t.body[0], ast.Try) and len(t.body[0].handlers) == 1
            and t.body[0].handlers[0].type is None and len(t.body[0].handlers[0].body) == 1
            and not t.body[0].orelse and not t.body[0].finalbody):
        _te('supersize: tuple branch try/except')
    tuple_err = _raised(t.body[0].handlers[0].body[0])
    exP = _Ex({'sizes[i][0]': ('lo', 'I'), 'sizes[i][1]': ('hi', 'I'), 'mults[i]': ('(hi - lo)', 'I')}, scalar='I')
    conds, shape = [], []
    for a in t.body[0].body:
        if not isinstance(a, ast.Assert):
            _te('supersize: tuple branch holds something else than asserts')
        txt = _u(a.test)
        if txt == 'len(sizes[i]) == 2' or txt in ('isinstance(sizes[i][0], (int, np.integer))',
                                                    'isinstance(sizes[i][1], (int, np.integer))'):
            shape.append(txt)
        else:
            conds.append(exP.cond(a.test))
    if sorted(shape) != sorted(['len(sizes[i]) == 2', 'isinstance(sizes[i][0], (int, np.integer))',
                                'isinstance(sizes[i][1], (int, np.integer))']):
        _te('supersize: tuple length / entry type asserts')
    if _u(body[1]) != 'mults[i] = sizes[i][1] - sizes[i][0]':
        _te('supersize: full multiplier ' + _u(body[1]))
    z = body[2]
    if not (isinstance(z, ast.If) and not z.orelse and len(z.body) == 1):
        _te('supersize: zero multiplier test')
    zero_err = _raised(z.body[0])
    out.append('/-- the tuple branch: the asserts on the two entries (a failing one is re-raised as the `except` clause says),\n'
               '    then `mults[i] = sizes[i][1] - sizes[i][0]` and the zero test. -/')
    out.append(f'def genResolvePair (lo hi : Int) : Except String Size :=\n  if {" ∧ ".join(conds)} then '
               f'(if {exP.cond(z.test)} then .error "{zero_err}" else .ok ⟨lo, hi⟩) else .error "{tuple_err}"')
    out.append(f'/-- neither an integer nor a tuple. -/\ndef genResolveOther : Except String Size := .error "{other}"')
    # --- the three updates of one axis, in statement order, on a symbolic state
    state = {'spos[:, i]': ('s', 'K'), 'origin': ('origin', 'V'), 'vects[i]': ('vi', 'V')}
    for s in body[3:]:
        if not (isinstance(s, ast.AugAssign) and _u(s.target) in state):
            _te(f'supersize: axis update {_u(s)}')
        env = dict(state)
        env.update({'mults[i]': ('m', 'K'), 'sizes[i][0]': ('lo', 'K')})
        ex = _Ex(env)
        opn = {ast.Add: ast.Add(), ast.Sub: ast.Sub(), ast.Mult: ast.Mult(), ast.Div: ast.Div()}.get(type(s.op))
        if opn is None:
            _te(f'supersize: axis update operator {_u(s)}')
        state[_u(s.target)] = ex.tr(ast.BinOp(left=s.target, op=opn, right=s.value))
    out.append('section\nvariable {K : Type} [Add K] [Sub K] [Mul K] [Div K] [IntCast K]')
    out.append('/-- one pass of the axis loop (`spos[:,i] /= …; origin += …; vects[i] *= …` in the order of the source):\n'
               '    new origin, new cell vector, new relative coordinate. -/')
    out.append(f'def genAxisOrigin (origin vi : V3 K) (s lo m : K) : V3 K := {state["origin"][0]}')
    out.append(f'def genAxisVect (origin vi : V3 K) (s lo m : K) : V3 K := {state["vects[i]"][0]}')
    out.append(f'def genAxisSpos (origin vi : V3 K) (s lo m : K) : K := {state["spos[:, i]"][0]}')
    if _u(st[6]) != 'box = Box(vects=vects, origin=origin)':
        _te('supersize: new Box ' + _u(st[6]))
    out.append('/-- `Box(vects=vects, origin=origin)` after the loop over the three axes. -/\n'
               'def genSuperBox (b : Box K) (sa sb sc : Size) : Box K :=\n'
               '  let o0 := genAxisOrigin b.origin b.vects.r0 (sa.lo : K) (sa.lo : K) (sa.mult : K)\n'
               '  let o1 := genAxisOrigin o0 b.vects.r1 (sb.lo : K) (sb.lo : K) (sb.mult : K)\n'
               '  let o2 := genAxisOrigin o1 b.vects.r2 (sc.lo : K) (sc.lo : K) (sc.mult : K)\n'
               '  { origin := o2,\n'
               '    vects := ⟨genAxisVect b.origin b.vects.r0 (sa.lo : K) (sa.lo : K) (sa.mult : K),\n'
               '              genAxisVect o0 b.vects.r1 (sb.lo : K) (sb.lo : K) (sb.mult : K),\n'
               '              genAxisVect o1 b.vects.r2 (sc.lo : K) (sc.lo : K) (sc.mult : K)⟩ }')
    # --- offsets
    rest = st[7:]
    texts = [_u(s) for s in rest]
    if texts[0] != 'natoms = self.natoms * mults[0] * mults[1] * mults[2]' or texts[1] != 'atoms = Atoms(natoms=natoms)':
        _te('supersize: natoms / Atoms')
    if not isinstance(rest[2], ast.For):
        _te('supersize: copy loop')
    ixyz = [k for k, s in enumerate(rest) if isinstance(s, ast.Assign) and _u(s.targets[0]) == 'xyz']
    if len(ixyz) != 1 or ixyz[0] < 8:
        _te('supersize: xyz')
    k = ixyz[0]
    bc_out = []
    _tr_copy(rest[3:8], rest[2], bc_out)
    _tr_broadcast(rest[8:k], bc_out)
    v = rest[k].value
    if not (isinstance(v, ast.BinOp) and isinstance(v.op, ast.Mult) and _is_call(v.left, 'np.hstack', 1)
            and _is_call(v.right, 'np.array', 1) and isinstance(v.right.args[0], ast.List) and len(v.right.args[0].elts) == 3):
        _te('supersize: xyz formula')
    hs = [_u(e) for e in v.left.args[0].elts]
    if hs != ['x[:, np.newaxis]', 'y[:, np.newaxis]', 'z[:, np.newaxis]']:
        _te('supersize: hstack order ' + str(hs))
    ex = _Ex({'mults[0]': ('(sa.mult : K)', 'K'), 'mults[1]': ('(sb.mult : K)', 'K'), 'mults[2]': ('(sc.mult : K)', 'K')})
    steps = [ex.tr(e)[0] for e in v.right.args[0].elts]
    if texts[k + 1] != "atoms.view['pos'] = new_spos + xyz" or \
            texts[k + 2] != 'return System(box=box, atoms=atoms, scale=True, symbols=self.symbols)' or len(rest) != k + 3:
        _te('supersize: tail')
    out.append('/-- relative position of replica `(r0, r1, r2)` in the multiplied cell: `new_spos + xyz` with\n'
               '    `xyz = hstack(x, y, z) * array([…])` (`x`, `y`, `z`: `genOffsetsX/Y/Z` below). -/')
    out.append('def genReplicaRel (sa sb sc : Size) (q : V3 K) (r0 r1 r2 : Nat) : V3 K :=\n'
               f'  ⟨genAxisSpos q q q.x (sa.lo : K) (sa.mult : K) + ((r0 : Int) : K) * {steps[0]},\n'
               f'   genAxisSpos q q q.y (sb.lo : K) (sb.mult : K) + ((r1 : Int) : K) * {steps[1]},\n'
               f'   genAxisSpos q q q.z (sc.lo : K) (sc.mult : K) + ((r2 : Int) : K) * {steps[2]}⟩')
    out.append('end')
    out.extend(bc_out)


def _tr_rotate(tree, mtree, out, pins):
    import ast
    fn = _find_fn(tree, 'rotate', 'System')
    if [a.arg for a in fn.args.args] != ['self', 'uvws', 'tol', 'return_transform'] or \
            [_u(d) for d in fn.args.defaults] != ['None', 'False']:
        _te('rotate signature / defaults')
    st = _stmts(fn)
    # --- default ladder
    t0 = st[0]
    if not (isinstance(t0, ast.If) and _u(t0.test) == 'tol is None' and len(t0.body) == 1 and isinstance(t0.body[0], ast.Assign)
            and _u(t0.body[0].targets[0]) == 'tol' and isinstance(t0.body[0].value, ast.List)
            and [_u(s) for s in t0.orelse] == ['tol = aslist(tol)']):
        _te('rotate: tol default')
    tols = [_frac_of_const(e) for e in t0.body[0].value.elts]
    out.append('/-- the default tolerance ladder `tol` of `rotate` (numerator, denominator). -/')
    out.append('def genDefaultTol : List (Nat × Nat) := [' + ', '.join(f'({f.numerator}, {f.denominator})' for f in tols) + ']')
    if _u(st[1]) != 'uvws = np.asarray(uvws)':
        _te('rotate: asarray')
    h = st[2]
    if not (isinstance(h, ast.If) and isinstance(h.test, ast.Compare) and _u(h.test.left) == 'uvws.shape'
            and isinstance(h.test.ops[0], ast.Eq) and len(h.body) == 1 and isinstance(h.body[0], ast.If)
            and _u(h.body[0].test) == 'self.box.ishexagonal()'
            and [_u(s) for s in h.body[0].body] == ['uvws = miller.vector4to3(uvws)'] and not h.orelse):
        _te('rotate: hexagonal branch')
    hexerr = _raised(h.body[0].orelse[0])
    s3 = st[3]
    if not (isinstance(s3, ast.If) and isinstance(s3.test, ast.Compare) and _u(s3.test.left) == 'uvws.shape'
            and isinstance(s3.test.ops[0], ast.NotEq) and len(s3.body) == 1 and not s3.orelse):
        _te('rotate: shape test')
    sh4 = ast.literal_eval(h.test.comparators[0])
    sh3 = ast.literal_eval(s3.test.comparators[0])
    out.append('/-- shapes: hexagonal 4-index input (converted by `miller.vector4to3` on hexagonal cells, otherwise refused), '
               'the only other shape accepted. -/')
    out.append(f'def genHexShape : Nat × Nat := ({sh4[0]}, {sh4[1]})\ndef genUvwShape : Nat × Nat := ({sh3[0]}, {sh3[1]})')
    out.append(f'def genShapeErrors : List String := ["{hexerr}", "{_raised(s3.body[0])}"]')
    # --- integer test
    if _u(st[4]) != "int_uvws = np.asarray(np.rint(uvws), dtype='int64')":
        _te('rotate: rint')
    it = st[5]
    if not (isinstance(it, ast.If) and _is_call(it.test, 'np.allclose') and [_u(s) for s in it.body] == ['uvws = int_uvws']
            and len(it.orelse) == 1):
        _te('rotate: integer test')
    out.append('/-- `np.allclose(a, b, **kw)` of the integer test: positional arguments (the tolerance is `atol + rtol·|b|`, `b` the '
               'SECOND one) and keywords (none: numpy\'s defaults 1e-5 / 1e-8). -/')
    out.append('def genIntTestArgs : List String := [' + ', '.join(_lean_str(_u(a)) for a in it.test.args) + ']')
    out.append('def genIntTestKw : List String := [' + ', '.join(_lean_str(k.arg or '**') for k in it.test.keywords) + ']')
    out.append(f'def genIntTestError : String := "{_raised(it.orelse[0])}"')
    # --- identity shortcut
    sc = st[6]
    if not (isinstance(sc, ast.If) and _u(sc.test) == "np.all(uvws == np.eye(3, dtype='int64'))"):
        _te('rotate: identity shortcut test ' + _u(sc.test))
    out.append('/-- `np.all(uvws == np.eye(3, dtype=\'int64\'))`. -/\ndef genIsShortcut (U : M3 Int) : Bool := decide (U = M3.one)')
    scb = [_u(s) for s in sc.body]
    if len(scb) != 3 or scb[0] != 'newsystem = deepcopy(self)':
        _te('rotate: shortcut body')
    bs = sc.body[1].value if isinstance(sc.body[1], ast.Expr) else None
    if not (_is_call(bs, 'newsystem.box_set', 0)):
        _te('rotate: shortcut box_set')
    kw = _kw(bs)
    if _u(kw.get('vects', ast.Constant(None))) != 'self.box.vects':
        _te('rotate: shortcut cell')
    out.append('/-- the shortcut re-expresses the copy\'s cell: keywords of `box_set` (no `origin`: reset to the Cartesian origin), '
               '`scale`, then the flags. -/')
    out.append('def genShortcutBoxSetKw : List String := [' + ', '.join(_lean_str(k) for k in sorted(kw)) + ']')
    out.append(f'def genShortcutScale : Bool := {str(bool(ast.literal_eval(kw["scale"]))).lower() if "scale" in kw else "false"}')
    pb = sc.body[2]
    if not (isinstance(pb, ast.Assign) and _u(pb.targets[0]) == 'newsystem.pbc' and isinstance(pb.value, ast.Tuple)
            and len(pb.value.elts) == 3):
        _te('rotate: shortcut pbc')
    fl = [bool(ast.literal_eval(e)) for e in pb.value.elts]
    out.append('def genShortcutPbc : Pbc := ⟨' + ', '.join(str(f).lower() for f in fl) + '⟩')
    # --- general path
    g = sc.orelse
    gt = [_u(s) for s in g]
    if gt[0] != 'natoms = self.natoms' or gt[1] != 'volume = self.box.volume' or \
            gt[2] != 'newvects = miller.vector_crystal_to_cartesian(uvws, box=self.box)':
        _te('rotate: general path head')
    vc = _stmts(_find_fn(mtree, 'vector_crystal_to_cartesian'))
    if _u(vc[-1]) != 'return indices.dot(box.vects)':
        _te('miller.vector_crystal_to_cartesian: ' + _u(vc[-1]))
    out.append('section\nvariable {K : Type} [Add K] [Sub K] [Mul K] [Div K] [IntCast K] [Zero K] [One K] [LT K] [LE K]\n'
               '  [DecidableLT K] [DecidableLE K]')
    out.append('/-- `miller.vector_crystal_to_cartesian`: `indices.dot(box.vects)`. -/\n'
               'def genNewVects (U : M3 Int) (vects : M3 K) : M3 K :=\n'
               '  M3.mul (⟨U.r0.map (fun (i : Int) => (i : K)), U.r1.map (fun (i : Int) => (i : K)), U.r2.map (fun (i : Int) => (i : K))⟩ : M3 K) vects')
    if gt[3] != 'newvolume = np.abs(newvects[0].dot(np.cross(newvects[1], newvects[2])))':
        _te('rotate: newvolume ' + gt[3])
    out.append('/-- `np.abs(newvects[0].dot(np.cross(newvects[1], newvects[2])))`. -/\n'
               'def genNewVolume (nv : M3 K) : K := absK (V3.dot nv.r0 (V3.cross nv.r1 nv.r2))')
    if gt[4] != 'newnatoms = int(round(newvolume / volume) * natoms)':
        _te('rotate: newnatoms ' + gt[4])
    out.append('/-- `int(round(newvolume / volume) * natoms)` (`rnd` = `round`). -/\n'
               'def genNewNatoms (rnd : K → Int) (newvolume volume : K) (natoms : Nat) : Int := rnd (newvolume / volume) * (natoms : Int)')
    z = g[5]
    if not (isinstance(z, ast.If) and _u(z.test) == 'newnatoms == 0' and len(z.body) == 1 and not z.orelse):
        _te('rotate: zero-volume refusal')
    out.append(f'def genPlanarError : String := "{_raised(z.body[0])}"')
    # corners
    if gt[6] != "corners = np.empty((8, 3), dtype='int64')":
        _te('rotate: corners array')
    exU = _Ex({'uvws[0]': ('U.r0', 'V'), 'uvws[1]': ('U.r1', 'V'), 'uvws[2]': ('U.r2', 'V'),
               'np.zeros(3)': ('(⟨0, 0, 0⟩ : V3 Int)', 'V')}, scalar='I')
    cs = []
    for k in range(8):
        s = g[7 + k]
        if not (isinstance(s, ast.Assign) and _u(s.targets[0]) == f'corners[{k}]'):
            _te(f'rotate: corner {k}')
        cs.append(exU.tr(s.value)[0])
    out.append('/-- the eight corners of the new cell in index space. -/\ndef genCorners (U : M3 Int) : List (V3 Int) :=\n  ['
               + ', '.join(cs) + ']')
    # multipliers
    names = []
    comps = {0: 'x', 1: 'y', 2: 'z'}
    sizes = {}
    for k, nm in enumerate(['a_mults', 'b_mults', 'c_mults']):
        s = g[15 + k]
        if not (isinstance(s, ast.Assign) and isinstance(s.value, ast.Tuple) and len(s.value.elts) == 2):
            _te('rotate: multipliers')
        names.append(_u(s.targets[0]))
        parts = []
        for e in s.value.elts:
            if not (isinstance(e, ast.BinOp) and isinstance(e.op, (ast.Add, ast.Sub)) and isinstance(e.left, ast.Call)
                    and isinstance(e.left.func, ast.Attribute) and e.left.func.attr in ('min', 'max') and not e.left.args
                    and isinstance(e.left.func.value, ast.Subscript) and _u(e.left.func.value.value) == 'corners'
                    and isinstance(e.right, ast.Constant) and isinstance(e.right.value, int)):
                _te('rotate: multiplier expression ' + _u(e))
            sl = _u(e.left.func.value.slice).strip('()')
            if not sl.startswith(':, ') or sl[3:] not in ('0', '1', '2'):
                _te('rotate: multiplier column ' + sl)
            col = comps[int(sl[3:])]
            f = 'minOf' if e.left.func.attr == 'min' else 'maxOf'
            parts.append(f'{f} (cs.map (·.{col})) {"+" if isinstance(e.op, ast.Add) else "-"} {e.right.value}')
        sizes[names[-1]] = f'⟨{parts[0]}, {parts[1]}⟩'
    call = g[18]
    if not (isinstance(call, ast.Assign) and _u(call.targets[0]) == 'system2' and _is_call(call.value, 'self.supersize', 3)
            and not call.value.keywords):
        _te('rotate: supersize call')
    args = [_u(a) for a in call.value.args]
    if any(a not in sizes for a in args):
        _te('rotate: supersize arguments ' + str(args))
    out.append('/-- the bounding supercell: `(min - 1, max + 1)` of the corner columns, handed to `self.supersize` in this order. -/\n'
               'def genRotateSizes (U : M3 Int) : Size × Size × Size :=\n  let cs := genCorners U\n  ('
               + ',\n   '.join(sizes[a] for a in args) + ')')
    # lattice translation
    if gt[19] != 'orel = np.linalg.solve(self.box.vects.T, self.box.origin)' or \
            gt[20] != 'system2.atoms.pos -= np.rint(orel).dot(self.box.vects)':
        _te('rotate: lattice translation ' + gt[19] + ' | ' + gt[20])
    out.append('/-- `np.linalg.solve(vects.T, origin)`: the `x` with `x·vects = origin`. -/\n'
               'def genOrel (b : Box K) : V3 K := M3.vecMul b.origin (M3.inv b.vects)')
    out.append('/-- `pos -= np.rint(orel).dot(vects)` (`rint` = `rintK fl`). -/\n'
               'def genShift (fl : K → Int) (b : Box K) : V3 K :=\n'
               '  M3.vecMul ⟨((rintK fl (genOrel b).x : Int) : K), ((rintK fl (genOrel b).y : Int) : K), '
               '((rintK fl (genOrel b).z : Int) : K)⟩ b.vects')
    bs = g[21].value if isinstance(g[21], ast.Expr) else None
    if not _is_call(bs, 'system2.box_set', 0) or sorted(_kw(bs)) != ['scale', 'vects'] or \
            _u(_kw(bs)['vects']) != 'newvects' or _u(_kw(bs)['scale']) != 'False':
        _te('rotate: box_set of the supercell ' + gt[21])
    if gt[22] != 'search_success = False':
        _te('rotate: search flag')
    lp = g[23]
    if not (isinstance(lp, ast.For) and _u(lp.target) == 'atol' and _u(lp.iter) == 'tol' and not lp.orelse and len(lp.body) == 5):
        _te('rotate: ladder loop')
    lb = lp.body
    if _u(lb[0]) != "spos = system2.atoms_prop('pos', scale=True)":
        _te('rotate: ladder reads the scaled positions inside the loop: ' + _u(lb[0]))
    rounds = []
    for s in lb[1:3]:
        if not (isinstance(s, ast.Assign) and isinstance(s.targets[0], ast.Subscript) and _u(s.targets[0].value) == 'spos'
                and _is_call(s.targets[0].slice, 'np.isclose', 2) and _u(s.targets[0].slice.args[0]) == 'spos'):
            _te('rotate: rounding statement ' + _u(s))
        c = s.targets[0].slice
        kw = _kw(c, ('rtol', 'atol'))
        face = _frac_of_const(c.args[1])
        val = _frac_of_const(s.value)
        rtol = _frac_of_const(kw['rtol']) if 'rtol' in kw else _te('rotate: rounding without rtol (numpy default 1e-5)')
        if _u(kw.get('atol', ast.Constant(None))) != 'atol':
            _te('rotate: rounding atol')
        if face.denominator != 1 or val.denominator != 1 or rtol.denominator != 1:
            _te('rotate: rounding constants')
        rounds.append((int(face), int(val), int(rtol)))
    out.append('/-- the two rounding statements of one rung in source order:\n'
               '    `spos[np.isclose(spos, face, rtol=…, atol=atol)] = value`. -/')
    out.append('def genRoundFaces (atol s : K) : K :=\n'
               f'  let s1 := if closeK {rounds[0][2]} atol s {rounds[0][0]} then {rounds[0][1]} else s\n'
               f'  if closeK {rounds[1][2]} atol s1 {rounds[1][0]} then {rounds[1][1]} else s1')
    w = lb[3]
    if not (isinstance(w, ast.Assign) and _u(w.targets[0]) == 'aindex' and _is_call(w.value, 'np.where', 1)):
        _te('rotate: inside test')

    def flat(n):
        if isinstance(n, ast.BinOp) and isinstance(n.op, ast.BitAnd):
            return flat(n.left) + flat(n.right)
        return [n]
    exS = _Ex({'spos[:, 0]': ('s.x', 'K'), 'spos[:, 1]': ('s.y', 'K'), 'spos[:, 2]': ('s.z', 'K')})

    class _ExS(_Ex):
        def lit(self, v):
            if float(v) not in (0.0, 1.0):
                _te(f'inside test constant {v}')
            return str(int(v)), 'K'
    exS = _ExS(exS.env)
    terms = [f'decide ({exS.cond(c)})' for c in flat(w.value.args[0])]
    out.append('/-- the inside test of `np.where(…)`, term by term. -/\ndef genInside (s : V3 K) : Bool :=\n  ' + ' && '.join(terms))
    ct = lb[4]
    if not (isinstance(ct, ast.If) and _u(ct.test) == 'len(aindex[0]) == newnatoms'
            and [_u(s) for s in ct.body] == ['search_success = True', 'break'] and not ct.orelse):
        _te('rotate: count test')
    fail = g[24]
    if not (isinstance(fail, ast.If) and _u(fail.test) == 'not search_success' and len(fail.body) == 1 and not fail.orelse):
        _te('rotate: ladder refusal')
    out.append(f'def genLadderError : String := "{_raised(fail.body[0])}"')
    out.append('end')
    pins['rotate_tail'] = _pin_hash(g[25:] + st[7:])
    if len(g) != 26 or len(st) != 8:
        _te('rotate: tail')
    # --- miller.vector4to3
    v43 = _stmts(_find_fn(mtree, 'vector4to3'))
    t43 = [_u(s) for s in v43]
    if t43[0] != 'indices = np.asarray(indices)' or not t43[1].startswith('if indices.shape[-1] != 4:') or \
            not isinstance(v43[2], ast.If) or _u(v43[2].test) != 'not np.allclose(indices[..., :3].sum(axis=-1), 0.0)' or \
            t43[3] != 'newindices = np.empty(indices.shape[:-1] + (3,))' or t43[-1] != 'return newindices' or len(v43) != 8:
        _te('miller.vector4to3 shape')
    ex4 = _Ex({'indices[..., 0]': ('u', 'K'), 'indices[..., 1]': ('v', 'K'), 'indices[..., 2]': ('t', 'K'),
               'indices[..., 3]': ('w', 'K')})
    comps = []
    for k in range(3):
        s = v43[4 + k]
        if not (isinstance(s, ast.Assign) and _u(s.targets[0]) == f'newindices[..., {k}]'):
            _te('miller.vector4to3 component')
        comps.append(ex4.tr(s.value)[0])
    out.append('/-- `miller.vector4to3` on one row `[u v t w]` (after its `u + v + t ≈ 0` test). -/\n'
               'def genHex4to3 {K : Type} [Add K] [Mul K] [IntCast K] (u v t w : K) : V3 K :=\n  ⟨' + ', '.join(comps) + '⟩')
    out.append(f'def genHexSumError : String := "{_raised(v43[2].body[0])}"')


_FAMILIES = ['cubic', 'hexagonal', 'tetragonal', 'rhombohedral', 'orthorhombic', 'monoclinic', 'triclinic']


def _tr_box(btree, out):
    import ast
    field = {'self.a': 'p.a', 'self.b': 'p.b', 'self.c': 'p.c', 'self.alpha': 'p.al', 'self.beta': 'p.be', 'self.gamma': 'p.ga'}
    out.append('section\nvariable {K : Type}')
    for fam in _FAMILIES:
        fn = _find_fn(btree, 'is' + fam, 'Box')
        if [a.arg for a in fn.args.args] != ['self', 'rtol', 'atol']:
            _te(f'Box.is{fam} signature')
        st = _stmts(fn)
        if len(st) != 1 or not isinstance(st[0], ast.Return) or not isinstance(st[0].value, ast.BoolOp) or \
                not isinstance(st[0].value.op, ast.And):
            _te(f'Box.is{fam}: a single `return … and …` expected')
        terms = []
        for v in st[0].value.values:
            neg = isinstance(v, ast.UnaryOp) and isinstance(v.op, ast.Not)
            c = v.operand if neg else v
            if not _is_call(c, 'np.isclose', 2):
                _te(f'Box.is{fam}: term {_u(v)}')
            kw = _kw(c, ('rtol', 'atol'))
            if _u(kw.get('rtol', ast.Constant(None))) != 'rtol' or _u(kw.get('atol', ast.Constant(None))) != 'atol':
                _te(f'Box.is{fam}: the caller\'s rtol / atol are not handed on in {_u(c)}')
            a = field.get(_u(c.args[0])) or _te(f'Box.is{fam}: first argument {_u(c.args[0])}')
            b = field.get(_u(c.args[1]))
            if b is None:
                f = _frac_of_const(c.args[1])
                b = {90: 'n90', 120: 'n120'}.get(f) or _te(f'Box.is{fam}: constant {_u(c.args[1])}')
            terms.append(('!' if neg else '') + f'cl {a} {b}')
        out.append(f'/-- `Box.is{fam}` (`cl` = `np.isclose(·, ·, atol=atol, rtol=rtol)`). -/\n'
                   f'def genIs{fam.capitalize()} (cl : K → K → Bool) (n90 n120 : K) (p : Cell6 K) : Bool :=\n  ' + ' && '.join(terms))
    fn = _find_fn(btree, 'identifyfamily', 'Box')
    st = _stmts(fn)
    if len(st) != 1 or not isinstance(st[0], ast.If):
        _te('Box.identifyfamily: one if-chain expected')
    chain = []
    node = st[0]
    while True:
        t = node.test
        if not (isinstance(t, ast.Call) and isinstance(t.func, ast.Attribute) and _u(t.func.value) == 'self'
                and t.func.attr.startswith('is') and not t.args):
            _te('Box.identifyfamily: test ' + _u(t))
        kw = _kw(t, ('rtol', 'atol'))
        if _u(kw.get('rtol', ast.Constant(None))) != 'rtol' or _u(kw.get('atol', ast.Constant(None))) != 'atol':
            _te('Box.identifyfamily: tolerances not handed on in ' + _u(t))
        fam = t.func.attr[2:]
        if fam not in _FAMILIES or len(node.body) != 1 or not isinstance(node.body[0], ast.Return) or \
                not isinstance(node.body[0].value, ast.Constant):
            _te('Box.identifyfamily: branch ' + _u(node.body[0]))
        ret = node.body[0].value.value
        if ret not in _FAMILIES:
            _te(f'Box.identifyfamily: returns {ret!r}')
        chain.append((fam, ret))
        if len(node.orelse) == 1 and isinstance(node.orelse[0], ast.If):
            node = node.orelse[0]
            continue
        if [_u(s) for s in node.orelse] not in ([], ['None'], ['return None']):
            _te('Box.identifyfamily: else branch')
        break
    txt = ''.join(f'  {"if" if k == 0 else "else if"} genIs{f.capitalize()} cl n90 n120 p then some .{r}\n'
                  for k, (f, r) in enumerate(chain))
    out.append('/-- `Box.identifyfamily`: the chain in source order. -/\n'
               'def genIdentifyFamily (cl : K → K → Bool) (n90 n120 : K) (p : Cell6 K) : Option Family :=\n' + txt + '  else none')
    out.append('end')


_SETTINGS = ['p', 'i', 'f', 'a', 'b', 'c', 't1', 't2']


def _matrix_literal(node):
    """np.array([[…],[…],…]) optionally `/ 3.` -> list of rows of Fractions."""
    import ast
    div = Fraction(1)
    if isinstance(node, ast.BinOp) and isinstance(node.op, ast.Div):
        div = _frac_of_const(node.right)
        node = node.left
    if not (_is_call(node, 'np.array', 1) and isinstance(node.args[0], ast.List) and not node.keywords):
        _te('matrix literal ' + _u(node)[:60])
    rows = []
    for r in node.args[0].elts:
        if not (isinstance(r, ast.List) and len(r.elts) == 3):
            _te('matrix literal row')
        rows.append([_frac_of_const(e) / div for e in r.elts])
    return rows


def _den_rows(rows):
    den = 1
    for r in rows:
        for f in r:
            den = den * f.denominator // math.gcd(den, f.denominator)
    return den, [[int(f * den) for f in r] for r in rows]


def _v3i(r):
    return '⟨' + ', '.join(str(x) for x in r) + '⟩'


def _tr_site_loop(st, out):
    """the loop over the lattice sites of check_setting_basis -> one pass as a Lean function of what the pass observes
    (`np.sum(index)`, `ucell.atoms.atype[index][0]`, the remembered `atype`)."""
    import ast
    txt = [_u(x) for x in st]
    if len(st) != 4 or txt[0] != 'pos = ucell.box.position_relative_to_cartesian(relpos)' or txt[1] != 'atype = None' \
            or txt[3] != 'return True' or not isinstance(st[2], ast.For):
        _te('check_setting_basis: site loop frame ' + ' | '.join(t[:40] for t in txt))
    lp = st[2]
    if not (_u(lp.target) == 'p' and _u(lp.iter) == 'pos' and not lp.orelse and len(lp.body) == 3):
        _te('check_setting_basis: site loop header (every site of the setting, in order)')
    call = lp.body[0]
    if not (isinstance(call, ast.Assign) and _u(call.targets[0]) == 'index' and _is_call(call.value, 'index_of_pos', 2)
            and [_u(a) for a in call.value.args] == ['ucell', 'p']):
        _te('check_setting_basis: index_of_pos call')
    kw = [(k, _u(v)) for k, v in _kw(call.value).items()]
    out.append('/-- keywords of the `index_of_pos(ucell, p, …)` call of the site loop. -/\n'
               'def genSiteCallKw : List (String × String) := [' + ', '.join(f'({_lean_str(k)}, {_lean_str(v)})' for k, v in kw) + ']')
    ex = _Ex({'np.sum(index)': ('count', 'I'), 'atype': ('atype', 'I'), 'ucell.atoms.atype[index][0]': ('t', 'I')}, scalar='I')

    def ret(stmts):
        if len(stmts) != 1:
            _te('check_setting_basis: site loop branch')
        b = stmts[0]
        if isinstance(b, ast.Return) and isinstance(b.value, ast.Constant) and isinstance(b.value.value, bool):
            return f'.ret {str(b.value.value).lower()}'
        if isinstance(b, ast.Raise):
            if _raised(b) != 'value':
                _te('check_setting_basis: overlapping atoms raise another error class')
            return '.raise'
        _te('check_setting_basis: site loop branch ' + _u(b))

    def chain(node, tail):
        if not isinstance(node, ast.If):
            _te('check_setting_basis: site loop if-chain')
        c = ex.cond(node.test)
        if not node.orelse:
            rest_ = tail
        elif len(node.orelse) == 1 and isinstance(node.orelse[0], ast.If):
            rest_ = chain(node.orelse[0], tail)
        else:
            rest_ = ret(node.orelse)
        return f'if {c} then {ret(node.body)} else {rest_}'
    second = lp.body[2]
    if not (isinstance(second, ast.If) and _u(second.test) == 'atype is None'
            and [_u(x) for x in second.body] == ['atype = ucell.atoms.atype[index][0]']
            and len(second.orelse) == 1 and isinstance(second.orelse[0], ast.If) and not second.orelse[0].orelse):
        _te('check_setting_basis: type comparison ' + _u(second)[:80])
    some_branch = chain(second.orelse[0], '.next (some atype)')
    tail = f'\n  match ty with\n  | none => .next (some t)\n  | some atype => {some_branch}'
    out.append('/-- one pass of the site loop (`count` = `np.sum(index)`, `t` = the type found, `ty` = the remembered `atype`). -/\n'
               'def genSiteStep (count : Nat) (t : Int) (ty : Option Int) : SiteStep :=\n  ' + chain(lp.body[1], tail))


def _tr_conversions(ctree, ptree, mtree, out, pins):
    import ast
    # --- miller tables
    tabs = {}
    for fname in ('vector_primitive_to_conventional', 'vector_conventional_to_primitive'):
        fn = _find_fn(mtree, fname)
        if [a.arg for a in fn.args.args] != ['indices', 'setting'] or [_u(d) for d in fn.args.defaults] != ["'p'"]:
            _te(fname + ' signature')
        st = _stmts(fn)
        tab = {}
        seen_ret = False
        for s in st:
            if isinstance(s, ast.Assign) and isinstance(s.targets[0], ast.Subscript) and _u(s.targets[0].value) == 'lattice_vectors':
                tab[ast.literal_eval(s.targets[0].slice)] = _matrix_literal(s.value)
            elif isinstance(s, ast.Return):
                if _u(s) != 'return indices.dot(lat)':
                    _te(fname + ': ' + _u(s))
                seen_ret = True
            elif isinstance(s, ast.Try):
                if [_u(x) for x in s.body] != ['lat = lattice_vectors[setting]'] or len(s.handlers) != 1 or \
                        _raised(s.handlers[0].body[0]) != 'value':
                    _te(fname + ': table lookup')
            elif _u(s) in ('indices = np.asarray(indices)', 'lattice_vectors = {}') or \
                    (isinstance(s, ast.If) and _u(s.test) == 'indices.shape[-1] != 3'):
                pass
            else:
                _te(fname + ': statement ' + _u(s)[:60])
        if not seen_ret or list(tab) != ['p', 'a', 'b', 'c', 'i', 'f', 't1', 't2']:
            _te(fname + ': settings ' + str(list(tab)))
        tabs[fname] = tab
    lines = []
    for sname, rows in tabs['vector_primitive_to_conventional'].items():
        den, ints = _den_rows(rows)
        lines.append(f'  | "{sname}" => some ({den}, ⟨{_v3i(ints[0])}, {_v3i(ints[1])}, {_v3i(ints[2])}⟩)')
    out.append('/-- `lattice_vectors` of `miller.vector_primitive_to_conventional` (least common denominator, numerators). -/\n'
               'def genP2CTable : String → Option (Int × M3 Int)\n' + '\n'.join(lines) + '\n  | _ => none')
    lines = []
    for sname, rows in tabs['vector_conventional_to_primitive'].items():
        den, ints = _den_rows(rows)
        if den != 1:
            _te('vector_conventional_to_primitive: non-integer table ' + sname)
        lines.append(f'  | "{sname}" => some ⟨{_v3i(ints[0])}, {_v3i(ints[1])}, {_v3i(ints[2])}⟩')
    out.append('/-- `lattice_vectors` of `miller.vector_conventional_to_primitive`. -/\n'
               'def genC2PTable : String → Option (M3 Int)\n' + '\n'.join(lines) + '\n  | _ => none')
    # --- check_setting_basis
    fn = _find_fn(ctree, 'check_setting_basis')
    defaults = dict(zip([a.arg for a in fn.args.args][-len(fn.args.defaults):], fn.args.defaults))
    if [a.arg for a in fn.args.args] != ['ucell', 'setting', 'rtol', 'atol', 'check_family']:
        _te('check_setting_basis signature')
    csb_defaults = defaults
    st = _stmts(fn)
    if _u(st[0]) != 'family = ucell.box.identifyfamily(rtol=rtol, atol=atol)':
        _te('check_setting_basis: family = … ' + _u(st[0]))
    node = st[1]
    sites, fams = [], []
    while True:
        if not (isinstance(node, ast.If) and isinstance(node.test, ast.Compare) and _u(node.test.left) == 'setting'
                and isinstance(node.test.ops[0], ast.Eq) and len(node.body) == 2):
            _te('check_setting_basis: setting chain')
        sname = ast.literal_eval(node.test.comparators[0])
        a, b = node.body
        if not (isinstance(a, ast.Assign) and _u(a.targets[0]) == 'relpos' and isinstance(b, ast.Assign)
                and _u(b.targets[0]) == 'families'):
            _te('check_setting_basis: branch of ' + sname)
        den, ints = _den_rows(_matrix_literal(a.value))
        fl = ast.literal_eval(b.value)
        if any(f not in _FAMILIES for f in fl):
            _te('check_setting_basis: family names ' + str(fl))
        sites.append(f'  | "{sname}" => some ({den}, [' + ', '.join(_v3i(r) for r in ints) + '])')
        fams.append(f'  | "{sname}" => some [' + ', '.join('.' + f for f in fl) + ']')
        if len(node.orelse) == 1 and isinstance(node.orelse[0], ast.If):
            node = node.orelse[0]
            continue
        if len(node.orelse) != 1 or _raised(node.orelse[0]) != 'value':
            _te('check_setting_basis: unknown setting')
        break
    out.append('/-- lattice sites per setting (`relpos`: denominator, numerators) in `check_setting_basis`. -/\n'
               'def genSettingSitesInt : String → Option (Int × List (V3 Int))\n' + '\n'.join(sites) + '\n  | _ => none')
    out.append('/-- `families` per setting in `check_setting_basis`. -/\n'
               'def genSettingFamilies : String → Option (List Family)\n' + '\n'.join(fams) + '\n  | _ => none')
    gate = st[2]
    if not (isinstance(gate, ast.If) and _u(gate.test) == 'check_family and family not in families'
            and [_u(s) for s in gate.body] == ['return False'] and not gate.orelse):
        _te('check_setting_basis: family gate ' + _u(gate.test))
    out.append('/-- `if check_family and family not in families: return False` (before the site loop). -/\n'
               'def genFamilyGate (checkFamily allowed : Bool) : Bool := checkFamily && !allowed')
    _tr_site_loop(st[3:], out)
    pins['index_of_pos'] = _pin_hash(_stmts(_find_fn(ctree, 'index_of_pos')))
    # --- conventional_to_primitive.dump
    fn = _find_fn(ctree, 'dump')
    names = [a.arg for a in fn.args.args]
    if names != ['system', 'setting', 'smallshift', 'rtol', 'atol', 'check_basis', 'check_family', 'return_transform']:
        _te('conventional_to_primitive signature ' + str(names))
    dflt = dict(zip(names[-len(fn.args.defaults):], fn.args.defaults))
    for k in ('rtol', 'atol', 'check_family', 'setting'):
        if k in csb_defaults and _u(csb_defaults[k]) != _u(dflt[k]):
            _te(f'check_setting_basis default of {k} differs from conventional_to_primitive\'s')
    st = _stmts(fn)
    ss = st[0]
    if not (isinstance(ss, ast.If) and _u(ss.test) == 'smallshift is None' and len(ss.body) == 1
            and _is_call(ss.body[0].value, 'np.array', 1)):
        _te('conventional_to_primitive: smallshift default')
    shift = [_frac_of_const(e) for e in ss.body[0].value.args[0].elts]
    if len(set(shift)) != 1 or len(shift) != 3 or _u(dflt['smallshift']) != 'None':
        _te('conventional_to_primitive: smallshift default value')

    def nd(f):
        return f'({f.numerator}, {f.denominator})'
    out.append('/-- keyword defaults of `conventional_to_primitive`. -/\ndef genC2PDefaults : C2PDefaults :=\n'
               f'  ⟨{_lean_str(ast.literal_eval(dflt["setting"]))}, {nd(_frac_of_const(dflt["rtol"]))}, '
               f'{nd(_frac_of_const(dflt["atol"]))}, {nd(shift[0])}, {str(ast.literal_eval(dflt["check_basis"])).lower()}, '
               f'{str(ast.literal_eval(dflt["check_family"])).lower()}, {str(ast.literal_eval(dflt["return_transform"])).lower()}⟩')
    # the resolve chain
    r = st[1]
    want_kw = [('setting', None), ('rtol', 'rtol'), ('atol', 'atol'), ('check_family', 'check_family')]

    def chk_call(assign, var):
        if not (isinstance(assign, ast.Assign) and _u(assign.targets[0]) == var
                and _is_call(assign.value, 'check_setting_basis', 1) and _u(assign.value.args[0]) == 'system'):
            _te('conventional_to_primitive: call of check_setting_basis for ' + var)
        kw = _kw(assign.value)
        return [(k, _u(v)) for k, v in kw.items()]
    calls = []
    if not (isinstance(r, ast.If) and _u(r.test) == "check_basis and setting != 't'" and len(r.body) == 2):
        _te('conventional_to_primitive: explicit-setting branch ' + _u(r.test))
    calls.append(chk_call(r.body[0], 'is_basis'))
    nb = r.body[1]
    if not (isinstance(nb, ast.If) and _u(nb.test) == 'not is_basis' and len(nb.body) == 1 and _raised(nb.body[0]) == 'value'
            and not nb.orelse):
        _te('conventional_to_primitive: refusal of a failed explicit setting')
    if not (len(r.orelse) == 1 and isinstance(r.orelse[0], ast.If) and _u(r.orelse[0].test) == "check_basis and setting == 't'"
            and not r.orelse[0].orelse and len(r.orelse[0].body) == 3):
        _te('conventional_to_primitive: t branch')
    tb = r.orelse[0].body
    calls.append(chk_call(tb[0], 'is_t1'))
    calls.append(chk_call(tb[1], 'is_t2'))
    pick = tb[2]
    order = []
    node = pick
    while True:
        if not (isinstance(node, ast.If) and isinstance(node.test, ast.Name) and len(node.body) == 1
                and isinstance(node.body[0], ast.Assign) and _u(node.body[0].targets[0]) == 'setting'):
            _te('conventional_to_primitive: t pick')
        order.append((node.test.id, ast.literal_eval(node.body[0].value)))
        if len(node.orelse) == 1 and isinstance(node.orelse[0], ast.If):
            node = node.orelse[0]
            continue
        if len(node.orelse) != 1 or _raised(node.orelse[0]) != 'value':
            _te('conventional_to_primitive: t refusal')
        break
    if len(order) != 2 or {o[0] for o in order} != {'is_t1', 'is_t2'}:
        _te('conventional_to_primitive: t pick order')
    call_setting = {'is_t1': dict(calls[1])['setting'], 'is_t2': dict(calls[2])['setting']}
    s1 = ast.literal_eval(call_setting[order[0][0]])
    s2 = ast.literal_eval(call_setting[order[1][0]])
    out.append('/-- arguments of the three calls of `check_setting_basis` (explicit setting, the two of `\'t\'`): keyword, value. -/\n'
               'def genResolveCalls : List (List (String × String)) :=\n  [' + ',\n   '.join(
                   '[' + ', '.join(f'({_lean_str(k)}, {_lean_str(v)})' for k, v in c) + ']' for c in calls) + ']')
    out.append('/-- the setting `conventional_to_primitive` works with: the if / elif chain in source order\n'
               '    (`chk s` = `check_setting_basis(system, setting=s, rtol=rtol, atol=atol, check_family=check_family)`,\n'
               '    outer `none` = it raised, inner `none` = "Multiple overlapping atoms"). -/\n'
               'def genResolveSetting (chk : String → Option (Option Bool)) (checkBasis : Bool) (setting : String) : Option String :=\n'
               '  if checkBasis && (setting != "t") then\n'
               '    match chk setting with\n    | some (some true) => some setting\n    | _ => none\n'
               '  else if checkBasis && (setting == "t") then\n'
               f'    match chk {_lean_str(s1)}, chk {_lean_str(s2)} with\n'
               f'    | some (some a), some (some b) => if a then some {_lean_str(order[0][1])} else if b then some '
               f'{_lean_str(order[1][1])} else none\n    | _, _ => none\n'
               '  else some setting')
    # hmm: the two calls are made in source order is_t1 then is_t2; a raise in the first wins either way (both -> none)
    mp = st[2]
    if not (isinstance(mp, ast.If) and isinstance(mp.test, ast.Compare) and isinstance(mp.test.ops[0], ast.In)
            and _u(mp.test.left) == 'setting' and len(mp.body) == 1 and len(mp.orelse) == 1
            and _u(mp.body[0].targets[0]) == 'multip' and _u(mp.orelse[0].targets[0]) == 'multip'):
        _te('conventional_to_primitive: multip')
    lst = ast.literal_eval(mp.test.comparators[0])
    out.append('/-- `multip`. -/\ndef genMultip (setting : String) : Nat :=\n  if [' + ', '.join(_lean_str(x) for x in lst)
               + f'].contains setting then {ast.literal_eval(mp.body[0].value)} else {ast.literal_eval(mp.orelse[0].value)}')
    if _u(st[3]) != 'cps_uvws = miller.vector_primitive_to_conventional(multip * np.identity(3), setting=setting)' or \
            _u(st[4]) != 'p_scell, transform = system.rotate(cps_uvws, return_transform=True)' or \
            _u(st[5]) != 'box = Box(vects=p_scell.box.vects / multip)':
        _te('conventional_to_primitive: supercell ' + ' | '.join(_u(s) for s in st[3:6]))
    pins['c2p_cut'] = _pin_hash(st[6:])
    # --- primitive_to_conventional.dump
    fn = _find_fn(ptree, 'dump')
    if [a.arg for a in fn.args.args] != ['system', 'setting', 'return_transform'] or \
            [_u(d) for d in fn.args.defaults] != ["'p'", 'False']:
        _te('primitive_to_conventional signature')
    st = _stmts(fn)
    if _u(st[0]) != 'p2c_uvws = miller.vector_conventional_to_primitive(np.identity(3), setting=setting)' or \
            _u(st[1]) != 'c_ucell, transform = system.rotate(p2c_uvws, return_transform=True)':
        _te('primitive_to_conventional: ' + ' | '.join(_u(s) for s in st[:2]))
    pins['p2c_body'] = _pin_hash(st[2:])


def translate():
    import ast
    stree = ast.parse(cm.source('atomman/core/System.py'))
    btree = ast.parse(cm.source('atomman/core/Box.py'))
    mtree = ast.parse(cm.source('atomman/tools/miller.py'))
    ctree = ast.parse(cm.source('atomman/dump/conventional_to_primitive/dump.py'))
    ptree = ast.parse(cm.source('atomman/dump/primitive_to_conventional/dump.py'))
    out = ['/- GENERATED by harness/props/c04.py from atomman/core/System.py (supersize, rotate), atomman/core/Box.py (family '
           'predicates),\n   atomman/tools/miller.py, atomman/dump/conventional_to_primitive/dump.py, '
           'atomman/dump/primitive_to_conventional/dump.py — do not edit.\n'
           '   `Proofs/C04_Source.lean` proves each definition equal to the hand model of `Atomman/C04.lean` (`gen_…_eq_model`). -/',
           'import Atomman.C04', 'set_option linter.unusedVariables false', 'namespace Atomman.C04.Gen', 'open Atomman Atomman.C04', '']
    pins = {}
    _tr_supersize(stree, out, pins)
    _tr_rotate(stree, mtree, out, pins)
    _tr_box(btree, out)
    _tr_conversions(ctree, ptree, mtree, out, pins)
    out.append('/-- normalised-AST statement pins (numpy array bookkeeping without a Lean counterpart; see docs/C04.md). -/\n'
               'def genPins : List (String × String) :=\n  [' + ',\n   '.join(
                   f'({_lean_str(k)}, {_lean_str(pins[k])})' for k in sorted(pins)) + ']')
    out.append('end Atomman.C04.Gen')
    return {'SupercellSource': '\n\n'.join(out) + '\n'}


# ----------------------------------------------------------------------------------------------
# generators
# ----------------------------------------------------------------------------------------------
def _np():
    import numpy as np
    return np


def rational_rotation(rng):
    """a proper rotation with rational entries, from a random integer quaternion."""
    np = _np()
    while True:
        a, b, c, d = (rng.randint(-3, 3) for _ in range(4))
        n = a * a + b * b + c * c + d * d
        if n and (b or c or d):
            break
    return np.array([[a * a + b * b - c * c - d * d, 2 * (b * c - a * d), 2 * (b * d + a * c)],
                     [2 * (b * c + a * d), a * a - b * b + c * c - d * d, 2 * (c * d - a * b)],
                     [2 * (b * d - a * c), 2 * (c * d + a * b), a * a - b * b - c * c + d * d]], dtype=float) / n


def reorient(rng, am, box):
    """the same cell turned rigidly into another orientation (no longer LAMMPS-normal): still cubic / hexagonal / ..."""
    return am.Box(vects=box.vects @ rational_rotation(rng).T, origin=box.origin)


def gen_box(rng, am):
    """(Box, family) with exactly representable vectors for most families; one cell in six of the standard
    families is turned into a general orientation; one in five has its origin on / next to a lattice plane."""
    np = _np()
    box, fam = _gen_box(rng, am)
    if fam not in ('general', 'lefthanded') and rng.random() < 1 / 6:
        box, fam = reorient(rng, am, box), fam + '-reoriented'
    if rng.random() < 0.2:
        # box origin on a lattice plane or a hair (rounding noise .. 5e-5 of a cell) off it, on either side: where the
        # whole-lattice translation of rotate (rint / floor of origin . inv(vects)) is decided
        # (the offsets are no simple fraction of a rung 1e-4 .. 1e-8 of a tolerance ladder: an atom on a cell face is
        # then a small rational multiple of the offset away from a face of the new cell, and at exactly one rung from
        # it the float comparison |s| <= atol is decided by rounding noise)
        n = np.array([rng.randint(-2, 2) + rng.choice([0.0, 0.0, 1.3e-13, -1.3e-13, 1.7e-9, -1.7e-9, 1.3e-6, -1.3e-6,
                                                        3.7e-5, -3.7e-5, 0.5]) for _ in range(3)])
        box = am.Box(vects=box.vects, origin=n @ box.vects)
    return box, fam


def _gen_box(rng, am):
    np = _np()
    fam = rng.choice(['cubic', 'tetragonal', 'orthorhombic', 'hexagonal', 'monoclinic', 'triclinic', 'rhombohedral',
                      'general', 'general', 'lefthanded'])
    a = rng.choice([2.0, 2.5, 3.0, 3.25, 4.0])
    b = rng.choice([2.75, 3.5, 4.5, 5.0])
    c = rng.choice([3.75, 5.25, 6.0, 6.5])
    org = [cm.dyadic(rng, -3, 3, 2) for _ in range(3)] if rng.random() < 0.6 else [0.0, 0.0, 0.0]
    if rng.random() < 0.15:
        org = [rng.choice([-40.0, 25.0, 12.5]) for _ in range(3)]
    if fam == 'cubic':
        box = am.Box(a=a, b=a, c=a, origin=org)
    elif fam == 'tetragonal':
        box = am.Box(a=a, b=a, c=c, origin=org)
    elif fam == 'orthorhombic':
        box = am.Box(a=a, b=b, c=c, origin=org)
    elif fam == 'hexagonal':
        box = am.Box(a=a, b=a, c=c, gamma=120, origin=org)
    elif fam == 'monoclinic':
        box = am.Box(a=a, b=b, c=c, beta=rng.choice([95.0, 104.5, 110.0]), origin=org)
    elif fam == 'rhombohedral':
        al = rng.choice([60.0, 75.0, 100.0])
        box = am.Box(a=a, b=a, c=a, alpha=al, beta=al, gamma=al, origin=org)
    elif fam == 'triclinic':
        box = am.Box(lx=a, ly=b, lz=c, xy=cm.dyadic(rng, -1, 1, 2), xz=cm.dyadic(rng, -1, 1, 2),
                     yz=cm.dyadic(rng, -1, 1, 2), origin=org)
    else:  # general (not LAMMPS-normal) dyadic vectors, right- or left-handed
        while True:
            v = [[cm.dyadic(rng, -4, 4, 1) for _ in range(3)] for _ in range(3)]
            d = np.linalg.det(np.array(v))
            if (d > 4.0 and fam == 'general') or (d < -4.0 and fam == 'lefthanded'):
                break
        box = am.Box(vects=v, origin=org)
    return box, fam


# names of the extra per-atom properties: the classical ones, one- and two-letter names, names that are substrings /
# superstrings of the reserved keys 'pos' and 'atype', names with a blank, non-ASCII names
NAME_POOL = ['q', 'v', 'stress', 'tag', 'p', 'o', 's', 'po', 'os', 'pos2', 'xpos', 'pos_0', 'atyp', 'atype2', 'a', 't', 'ty',
             'type', 'id', 'x', 'm', 'charge', 'site', 'fixed', 'spin up', '\u03c3', '\u0437\u0430\u0440\u044f\u0434', 'P', 'Pos']
STRINGS = ['4a', '4b', '8c', 'Fe1', 'x']
PBCS = [(bool(i & 4), bool(i & 2), bool(i & 1)) for i in range(8)]


def gen_pbc(rng):
    """half of the systems fully periodic, the others any of the 8 settings."""
    return [True, True, True] if rng.random() < 0.5 else list(rng.choice(PBCS))


def gen_props(rng, n):
    """per-atom properties [name, kind, values]: a float scalar, a float vector, a non-symmetric 3x3 tensor with nine
    different entries and an integer that is unique per atom (a replica carrying another atom's - or a transposed /
    re-tiled - value cannot go unnoticed), half of the time also a string label and / or a flag; names drawn from
    NAME_POOL. kinds: f float, i int, s string, b bool."""
    ns = rng.random() < 0.5
    nb = rng.random() < 0.5
    names = rng.sample(NAME_POOL, 4 + ns + nb)
    props = [[names[0], 'f', [cm.dyadic(rng, -2, 2, 2) for _ in range(n)]],
             [names[1], 'f', [[cm.dyadic(rng, -2, 2, 2) for _ in range(3)] for _ in range(n)]],
             [names[2], 'f', [[[cm.dyadic(rng, -4, 4, 3) for _ in range(3)] for _ in range(3)] for _ in range(n)]],
             [names[3], 'i', rng.sample(range(1, 50), n)]]
    if ns:
        props.append([names[4], 's', [rng.choice(STRINGS) for _ in range(n)]])
    if nb:
        props.append([names[4 + ns], 'b', [rng.random() < 0.5 for _ in range(n)]])
    rng.shuffle(props)
    return props


# what may have been done to the ONE System object before supersize / rotate / a conversion is called on it
# (no simple fractions of the rungs 1e-4 .. 1e-7 of rotate's tolerance ladder: a strain times a grid coordinate must not put an
# atom exactly one rung from a face of the new cell, see docs "knife edges")
EPS = [5.3e-6, -3.1e-6, 1.3e-7, 2.3e-4, -1.3e-12, 7.7e-6, 1.1e-3]


def gen_history(rng, iso=False, keep_rel=False, pbc_ops=True):
    """1-4 operations: reads of the scaled positions / reciprocal vectors (which fill caches), dilations and strains of
    a few ppm .. 1e-3 with the relative coordinates held (`box_set(..., scale=True)`) or with the Cartesian positions
    held (`keep_rel` False only), origin moves (atoms carried along), writes through the Box setters, pbc changes, calls of the operations
    themselves (results thrown away). `iso`: isotropic dilations only (the crystal family survives)."""
    ops = []
    for _ in range(rng.randint(1, 4)):
        r = rng.random()
        if r < 0.25:
            ops.append(['read'])
        elif r < 0.32:
            ops.append(['recip'])
        elif r < 0.62:
            e = rng.choice(EPS)
            if iso or rng.random() < 0.5:
                F = [[1 + e if i == j else 0.0 for j in range(3)] for i in range(3)]
            else:
                F = [[(1.0 if i == j else 0.0) + e * rng.choice([-1, 0, 0.5, 1]) for j in range(3)] for i in range(3)]
            how = rng.choice(['box_set', 'box_set', 'box_set', 'setter-rescale'] + ([] if keep_rel else ['box_set-cart', 'setter']))
            ops.append(['strain', F, how])
        elif r < 0.72:
            ops.append(['origin', [cm.dyadic(rng, -1, 1, 3) for _ in range(3)], rng.choice(['box_set', 'setter-rescale'])])
        elif r < 0.80:
            ops.append(['rewrite-pos'])
        elif r < 0.86 and pbc_ops:
            ops.append(['pbc', list(rng.choice(PBCS))])
        elif r < 0.93:
            ops.append(['call-supersize', [rng.choice([1, 2, -1]), rng.choice([1, -2]), [-1, 1]]])
        else:
            ops.append(['call-rotate', rng.choice([[[0, 1, 0], [0, 0, 1], [1, 0, 0]], [[1, 1, 0], [-1, 1, 0], [0, 0, 1]],
                                                   [[1, 0, 0], [0, 1, 0], [0, 0, 1]]])])
    # the classic stale-cache sequence in front of the call, a third of the time: read, small dilation, (read)
    if rng.random() < 0.35:
        e = rng.choice(EPS[:4])
        ops += [['read'], ['strain', [[1 + e if i == j else 0.0 for j in range(3)] for i in range(3)], 'box_set']]
    return ops


def apply_op(sysm, op):
    np = _np()
    kind = op[0]
    if kind == 'read':
        sysm.atoms_prop('pos', scale=True)
    elif kind == 'recip':
        sysm.box.reciprocal_vects
    elif kind == 'strain':
        newv = sysm.box.vects @ np.array(op[1], dtype=float)
        if op[2] == 'box_set':
            sysm.box_set(vects=newv, origin=sysm.box.origin, scale=True)
        elif op[2] == 'box_set-cart':
            sysm.box_set(vects=newv, origin=sysm.box.origin, scale=False)
        elif op[2] == 'setter':
            sysm.box.vects = newv
        else:   # the relative coordinates read, the cell written through the Box setter, the coordinates written back
            sp = sysm.atoms_prop('pos', scale=True)
            sysm.box.vects = newv
            sysm.atoms_prop('pos', value=sp, scale=True)
    elif kind == 'origin':
        # (the atoms move with the cell: they stay inside it)
        o = sysm.box.origin + np.array(op[1], dtype=float)
        if op[2] == 'box_set':
            sysm.box_set(vects=sysm.box.vects, origin=o, scale=True)
        else:
            sp = sysm.atoms_prop('pos', scale=True)
            sysm.box.origin = o
            sysm.atoms_prop('pos', value=sp, scale=True)
    elif kind == 'origin-rel':
        # origin = n . vects (n real), the atoms carried along
        sysm.box_set(vects=sysm.box.vects, origin=np.array(op[1], dtype=float) @ sysm.box.vects, scale=True)
    elif kind == 'rewrite-pos':
        sysm.atoms_prop('pos', value=sysm.atoms_prop('pos', scale=True), scale=True)
    elif kind == 'pbc':
        sysm.pbc = op[1]
    elif kind in ('call-supersize', 'call-rotate'):
        # the operations themselves, results thrown away (a refusal here - e.g. an atom stored outside the cell - is not
        # the point: the call under test comes afterwards)
        try:
            if kind == 'call-supersize':
                sysm.supersize(*[tuple(x) if isinstance(x, list) else x for x in op[1]])
            else:
                sysm.rotate(op[1])
        except Exception:  # noqa
            pass
    else:
        raise ValueError(f'unknown history operation {op}')


def build_system(am, case):
    """the System a case dict describes: cell, atoms at the stored relative coordinates, named per-atom properties, pbc,
    symbols, then the history applied to that one object."""
    np = _np()
    from collections import OrderedDict
    prop = OrderedDict(atype=np.array(case['atype'], dtype=int), pos=np.array(case['spos'], dtype=float).reshape(-1, 3))
    for name, kind, vals in case['props']:
        prop[name] = np.array(vals, dtype={'f': float, 'i': int, 's': str, 'b': bool}[kind])
    # `length_scale`: the same cell written in another length unit (every Cartesian number times an exact power of two /
    # of ten; the relative coordinates - the crystal - are the same)
    ls = float(case.get('length_scale', 1.0))
    sysm = am.System(atoms=am.Atoms(prop=prop), box=am.Box(vects=np.array(case['vects'], dtype=float) * ls,
                                                            origin=np.array(case['origin'], dtype=float) * ls),
                     pbc=case.get('pbc', (True, True, True)), scale=True, symbols=case.get('symbols'))
    sysm._c04 = case
    if case.get('history'):
        # the object-level model runs the same history from the same initial state: the cell handed to each write is what
        # the implementation's Box holds afterwards (its setter's clean-up of tiny components included)
        init = sys_line(sysm)
        toks = []
        for op in case['history']:
            apply_op(sysm, op)
            bx = f'{cm.frs(sysm.box.vects)} {cm.frs(sysm.box.origin)}'
            if op[0] in ('read', 'recip', 'call-supersize', 'call-rotate'):
                toks.append('R')
            elif op[0] == 'rewrite-pos':
                toks.append('W')
            elif op[0] == 'pbc':
                toks.append('P ' + ' '.join('1' if x else '0' for x in op[1]))
            elif op[0] == 'strain' and op[2] == 'setter':
                toks.append('V ' + cm.frs(sysm.box.vects))
            elif op[0] == 'strain' and op[2] == 'box_set-cart':
                toks.append('B ' + bx + ' 0')
            else:       # strain / origin moves with the relative coordinates held
                toks.append('B ' + bx + ' 1')
        sysm._c04_trace = (init, toks)
    return sysm


def exact_rel(sysm):
    """exact relative coordinates of the atoms of the object as it is now (visible state: box.vects, box.origin,
    atoms.pos), by rational arithmetic - independent of the library's own (cached) reciprocal vectors."""
    Vi = inv3([[Fraction(x) for x in row] for row in sysm.box.vects.tolist()])
    o = [Fraction(x) for x in sysm.box.origin.tolist()]
    return [tuple(vecmat([Fraction(x) - o[j] for j, x in enumerate(p)], Vi)) for p in sysm.atoms.pos.tolist()]


def gen_system(rng, am, fam_box=None, extra=(), far=False, history=None, pbc=None):
    """random cell + 1-4 atoms on the 1/8 grid (faces included); `extra`: further atoms given by exact relative
    coordinates (Fractions) or a function box -> such a list, appended when they are at least 1e-3 (relative) away from
    every other atom; `far`: a
    coordinate 0 is stored as 1.0 (the atom listed on the far face / edge / corner) with probability 1/2.
    `history`: operations applied to the object before it is handed out (then the exact relative coordinates returned
    are those of its visible state)."""
    np = _np()
    box, fam = fam_box or gen_box(rng, am)
    n = rng.randint(1, 4)
    seen, spos = set(), []
    while len(spos) < n:
        s = tuple(rng.randint(0, 7) / 8 for _ in range(3))
        if s not in seen:
            seen.add(s)
            spos.append(s)
    for e in (extra(box) if callable(extra) else extra):
        if all(max(circ(e[j], t[j]) for j in range(3)) >= 1e-3 for t in spos):
            spos.append(tuple(e))
    if far:
        spos = [tuple((1.0 if (x == 0 and rng.random() < 0.5) else x) for x in sp) for sp in spos]
    n = len(spos)
    atype = [rng.randint(1, 3) for _ in range(n)]
    # make types contiguous from 1 so natypes is sane
    m = {t: i + 1 for i, t in enumerate(sorted(set(atype)))}
    atype = [m[t] for t in atype]
    # half of the systems name their types: an atom type is its number together with what the number stands for
    syms = rng.sample(['Al', 'Ni', 'Cu', 'Fe', 'O'], len(set(atype))) if rng.random() < 0.5 else None
    case = {'vects': box.vects.tolist(), 'origin': box.origin.tolist(), 'spos': [[float(x) for x in sp] for sp in spos],
            'atype': atype, 'props': gen_props(rng, n), 'pbc': list(pbc) if pbc is not None else gen_pbc(rng), 'symbols': syms,
            'history': history or []}
    sysm = build_system(am, case)
    if history:
        fam += '+history'
        spos = exact_rel(sysm)
    return sysm, fam, spos


# distances (relative to the NEW cell) at which atoms are put next to its faces: inside and just beyond the range
# 1e-7 .. 1e-4 of the tolerance ladder of rotate, and inside the narrow bands (atol, atol + 1e-5] in which a rung of the
# ladder rounds an atom below an upper face (isclose to 1.0) differently from its image below the lower face (isclose to
# 0.0) if the two tests do not use the same absolute tolerance
DELTAS = [Fraction(1, 10 ** 7), Fraction(3, 10 ** 6), Fraction(5, 10 ** 6), Fraction(1005, 10 ** 8), Fraction(15, 10 ** 6),
          Fraction(3, 10 ** 5), Fraction(9, 10 ** 5), Fraction(105, 10 ** 6), Fraction(2, 10 ** 4)]
# one atom per rung: 1.05e-4 defeats the 1e-4 rung only, 1.005e-5 the rungs 1e-5, 1e-6 and 1e-7
LADDER = [Fraction(105, 10 ** 6), Fraction(1005, 10 ** 8)]


def near_face_spos(rng, U, box, delta=None, below=None, axis=None):
    """exact relative coordinates, in the ORIGINAL cell `box`, of an atom that sits a hair off (not on) a face, an edge
    or a corner of the NEW cell - the cell U.vects at the Cartesian origin, where rotate cuts it out - on either side of
    it (`below`: just below an upper face; `delta`: how far)."""
    sp = [Fraction(rng.randint(1, 7), 8) for _ in range(3)]
    for c in ([axis] if axis is not None else rng.sample(range(3), rng.choice([1, 1, 1, 2, 3]) if delta is None else 1)):
        dl = delta if delta is not None else rng.choice(DELTAS)
        sp[c] = (1 - dl) if (below or (below is None and rng.random() < 0.5)) else dl
    # position in units of the original cell vectors about the Cartesian origin, then relative to the box origin
    Vi = inv3([[Fraction(x) for x in row] for row in box.vects.tolist()])
    orel = vecmat([Fraction(x) for x in box.origin.tolist()], Vi)
    s = [sum(sp[i] * U[i][j] for i in range(3)) - orel[j] for j in range(3)]
    return tuple(frac_mod1(x) for x in s)


def near_face_atoms(rng, U):
    """box -> 1-3 atoms a hair off faces of the new cell; one time in four the cooperating set that defeats every rung
    of the tolerance ladder at once (each just below an upper face, one per band) plus possibly a further one."""
    def make(box):
        if rng.random() < 0.25:
            out = [near_face_spos(rng, U, box, delta=dl, below=True) for dl in LADDER]
            if rng.random() < 0.5:
                out.append(near_face_spos(rng, U, box))
            return out
        return [near_face_spos(rng, U, box) for _ in range(rng.choice([1, 1, 2, 3]))]
    return make


RUNGS = [Fraction(1, 10 ** 4), Fraction(1, 10 ** 5), Fraction(1, 10 ** 6), Fraction(1, 10 ** 7)]


def on_rung_pairs(U, box, spos_list, rungs):
    """number of (image class modulo the new lattice, coordinate) pairs whose distance from a face of the new cell - the
    cell U.vects at the Cartesian origin - is EXACTLY one of `rungs` (exact rational arithmetic on the intended relative
    coordinates `spos_list` of the original cell)."""
    Vi = inv3([[Fraction(x) for x in row] for row in box.vects.tolist()])
    orel = vecmat([Fraction(x) for x in box.origin.tolist()], Vi)
    Ui = inv3([[Fraction(x) for x in r] for r in U])
    d = abs(_det3(U))
    rs = set(rungs)
    cnt = 0
    for e in spos_list:
        seen = set()
        for n in itertools.product(range(-4, 5), repeat=3):
            seen.add(tuple(frac_mod1(x) for x in vecmat([Fraction(e[j]) + orel[j] + n[j] for j in range(3)], Ui)))
            if len(seen) == d:
                break
        if len(seen) != d:
            return None
        cnt += sum(1 for r in seen for x in r if min(x, 1 - x) in rs)
    return cnt


def gen_onrung_case(rng, am, it):
    """one atom, one coordinate, EXACTLY one rung of the tolerance ladder in use (to rounding noise) from a face of the new
    cell, on either side of it; no other image of any atom on any rung. Whether that rung then assigns the atom and its
    periodic image consistently is decided by rounding noise: when it does not, the rung miscounts and the next, tighter
    one has to deliver the cell (from the real positions, not from the ones the failed rung rounded). A single atom on a
    rung is never ambiguous - two on the same rung can cancel in the count test (the documented knife edge, not
    generated) - and the ladder always has a further rung to go to.
    -> (system, family, spos, U, det, tol argument, rung)"""
    while True:
        U, d = ([list(r) for r in FIXED_U[1 + it % 5]], None) if it % 4 == 0 else gen_U(rng, maxdet=5)
        d = _det3(U)
        if rng.random() < 0.75:
            tol, ladder = None, RUNGS
            rung = RUNGS[0] if rng.random() < 0.7 else rng.choice(RUNGS[1:])
        else:
            first = rng.choice([2.3e-5, 1.7e-6, 1.3e-4])
            tol = rng.choice([[first, first / 13], (first, first / 16, first / 256), [3.1e-3, first, first / 13]])
            ladder = [Fraction(x) for x in tol]
            rung = Fraction(first)
        below = rng.random() < 0.5
        sysm, fam, spos = gen_system(rng, am, extra=lambda box: [near_face_spos(rng, U, box, delta=rung, below=below)],
                                     far=rng.random() < 0.25)
        if on_rung_pairs(U, sysm.box, [tuple(Fraction(x) if x != 1.0 else Fraction(1) for x in sp) for sp in spos], ladder) == 1:
            return sysm, fam + '+on-rung', spos, U, d, tol, rung


class Spec(list):
    """[name, kind, string table] of the extra per-atom properties in wire order; `width`: numbers per atom on the wire."""
    width = 0


def spec_of(sysm):
    np = _np()
    spec = Spec([name, kind, sorted(set(vals)) if kind == 's' else None] for name, kind, vals in sysm._c04['props'])
    spec.width = sum(int(np.asarray(vals[0]).size) for _, _, vals in sysm._c04['props'])
    return spec


def nextra(spec):
    return spec.width


def payload(sysm, k, spec):
    """every per-atom value except type and position of atom k, as exact floats in the order of `spec` (tensors
    row-major; a string as its index in the table of the original's strings, -1 if it is none of them; a flag as 0/1)."""
    np = _np()
    out = []
    for name, kind, table in spec:
        val = sysm.atoms.view[name][k]
        if kind == 's':
            out.append(float(table.index(str(val))) if str(val) in table else -1.0)
        else:
            out.extend(float(x) for x in np.asarray(val).ravel())
    return out


def sys_line(sysm, spec=None):
    """exact wire form: box (12) then atoms with nextra(spec) extras each."""
    spec = spec or spec_of(sysm)
    pos = sysm.atoms.pos
    parts = [cm.frs(sysm.box.vects), cm.frs(sysm.box.origin)]
    atoms = []
    for i in range(sysm.natoms):
        atoms.append(f"{int(sysm.atoms.atype[i])} {cm.frs(pos[i])} {cm.frs(payload(sysm, i, spec))}")
    return ' '.join(parts), ' '.join(atoms)


def enc_name(name):
    return 'k' + name.encode('utf-8').hex()


def keys_line(sysm):
    """driver request for the names of the per-atom properties a copy made by supersize carries."""
    return 'keys ' + ' '.join(enc_name(k) for k in sysm.atoms_prop())


def parse_result(out, e):
    toks = out.split()
    box = [Fraction(t) for t in toks[:12]]
    n = int(toks[12])
    atoms = []
    k = 13
    for _ in range(n):
        t = int(toks[k])
        vals = [Fraction(x) for x in toks[k + 1:k + 4 + e]]
        atoms.append((t, vals[:3], vals[3:]))
        k += 4 + e
    return box, atoms


def gen_sizes(rng):
    """three multipliers: int (positive / negative) or (lo, hi) tuple; a third of the integers are numpy integers
    (np.int64 / np.int32 / np.intp: what index arithmetic on arrays hands over), the rest Python ints."""
    np = _np()

    def npint(x):
        # (unsigned and 8 / 16-bit types for the values they hold: what indexing / counting on arrays hands over)
        kinds = [np.int64, np.int32, np.intp, np.int8, np.int16] + ([np.uint8, np.uint16, np.uint32, np.uint64] if x >= 0 else [])
        return rng.choice(kinds)(x) if rng.random() < 0.33 else x

    out = []
    for _ in range(3):
        r = rng.random()
        if r < 0.4:
            out.append(npint(rng.randint(1, 3)))
        elif r < 0.6:
            out.append(npint(-rng.randint(1, 3)))
        else:
            lo, hi = -rng.randint(0, 2), rng.randint(0, 2)
            if lo == 0 and hi == 0:
                hi = 1
            pair = (npint(lo), npint(hi))
            if lo < 0 and type(pair[0]) is int and isinstance(pair[1], np.unsignedinteger):
                # (a negative Python int next to an UNSIGNED numpy int: `hi - lo` raises OverflowError in numpy 2 before
                # supersize can look at the range - candidate C04-supersize-unsigned-mixed-tuple in docs/C04.md, an input
                # form outside the property's quantifier; both numpy-typed, or a zero / signed partner, are generated)
                pair = (np.int64(lo), pair[1])
            out.append(pair)
    return out


def sizes_repr(sizes):
    """the multipliers as given, numpy integers marked."""
    def one(x):
        return str(x) if type(x) is int else f'{type(x).__name__}({int(x)})'
    return '(' + ', '.join(('(' + ', '.join(one(y) for y in x) + ')') if isinstance(x, tuple) else one(x) for x in sizes) + ')'


def norm_size(s):
    if isinstance(s, tuple):
        return (int(s[0]), int(s[1]))
    return (0, int(s)) if s > 0 else (int(s), 0)


def _det3(U):
    return (U[0][0] * (U[1][1] * U[2][2] - U[1][2] * U[2][1]) - U[0][1] * (U[1][0] * U[2][2] - U[1][2] * U[2][0])
            + U[0][2] * (U[1][0] * U[2][1] - U[1][1] * U[2][0]))


def _matmul3(A, B):
    return [[sum(A[i][k] * B[k][j] for k in range(3)) for j in range(3)] for i in range(3)]


def gen_U(rng, maxdet=6, lim=2):
    """integer 3x3 with 0 < |det| <= maxdet: mostly random entries in [-lim, lim], and a quarter from the special
    families a random draw almost never hits (signed permutations, diagonal, triangular/Hermite form, unimodular
    shear products, the integer centering matrices), of either handedness."""
    while True:
        r = rng.random()
        if r < 0.75:
            U = [[rng.randint(-lim, lim) for _ in range(3)] for _ in range(3)]
        elif r < 0.82:      # signed permutation (|det| = 1, not the identity shortcut)
            perm = rng.sample(range(3), 3)
            U = [[(rng.choice([-1, 1]) if j == perm[i] else 0) for j in range(3)] for i in range(3)]
        elif r < 0.87:      # diagonal
            U = [[(rng.choice([-2, -1, 1, 2, 3]) if i == j else 0) for j in range(3)] for i in range(3)]
        elif r < 0.92:      # lower triangular (Hermite normal form like)
            U = [[(rng.randint(1, 3) if i == j else (rng.randint(-2, 2) if j < i else 0)) for j in range(3)]
                 for i in range(3)]
        elif r < 0.97:      # unimodular: product of elementary shears
            U = [[1, 0, 0], [0, 1, 0], [0, 0, 1]]
            for _ in range(rng.randint(1, 3)):
                i, j = rng.sample(range(3), 2)
                E = [[1 if a == b else 0 for b in range(3)] for a in range(3)]
                E[i][j] = rng.choice([-2, -1, 1, 2])
                U = _matmul3(E, U)
        else:               # integer conventional->primitive centering matrices (miller.py)
            U = rng.choice([[[1, 0, 0], [0, 1, -1], [0, 1, 1]], [[1, -1, 0], [1, 1, 0], [0, 0, 1]],
                            [[0, -1, -1], [1, 1, 0], [1, 0, 1]], [[1, -1, 1], [1, 1, -1], [-1, 1, 1]],
                            [[1, -1, 0], [0, 1, -1], [1, 1, 1]], [[-1, 1, 0], [0, -1, 1], [1, 1, 1]]])
            U = [list(row) for row in U]
        d = _det3(U)
        if d != 0 and abs(d) <= maxdet and max(abs(x) for row in U for x in row) <= 6:
            return U, d


def supercell_cells(U):
    """number of replicas in the bounding supercell of rotate: product over the axes of (max - min + 2) of the 8 corners."""
    cs = [[0, 0, 0], U[0], U[1], U[2]] + [[U[i][k] + U[j][k] for k in range(3)] for i, j in ((0, 1), (0, 2), (1, 2))] \
        + [[U[0][k] + U[1][k] + U[2][k] for k in range(3)]]
    return math.prod(max(c[k] for c in cs) - min(c[k] for c in cs) + 2 for k in range(3))


def gen_U_large(rng, maxdet=12, maxentry=12):
    """anisotropic integer vectors with large indices: long thin cells along a high-index direction, one large-index
    row in a plane, unimodular products of many shears (large entries, det +-1); |det| <= maxdet. The bounding
    supercell of rotate then has 250 .. 3000 replicas."""
    while True:
        r = rng.random()
        if r < 0.35:        # two short vectors and a long one along [a b n]
            n = rng.randint(4, maxentry)
            U = [[1, 0, 0], [0, 1, 0], [rng.randint(-6, 6), rng.randint(-6, 6), rng.choice([-1, 1]) * n]]
            rng.shuffle(U)
            c = rng.sample(range(3), 3)
            U = [[row[c[j]] for j in range(3)] for row in U]
        elif r < 0.7:       # a large-index pair of in-plane vectors
            a, b = rng.randint(3, maxentry), rng.randint(-maxentry, maxentry)
            U = [[a, b, 0], [rng.randint(-4, 4), rng.randint(-4, 4), 0], [rng.randint(-2, 2), rng.randint(-2, 2), rng.choice([-1, 1, 2])]]
            c = rng.sample(range(3), 3)
            U = [[row[c[j]] for j in range(3)] for row in U]
        else:               # unimodular, many shears
            U = [[1, 0, 0], [0, 1, 0], [0, 0, 1]]
            for _ in range(rng.randint(3, 6)):
                i, j = rng.sample(range(3), 2)
                E = [[1 if a == b else 0 for b in range(3)] for a in range(3)]
                E[i][j] = rng.choice([-3, -2, -1, 1, 2, 3])
                U = _matmul3(E, U)
        d = _det3(U)
        big = max(abs(x) for row in U for x in row)
        if d != 0 and abs(d) <= maxdet and 4 <= big <= maxentry and 250 <= supercell_cells(U) <= 3000:
            return U, d


# always exercised (correspondence and oracle), on cells whose origin is not a lattice vector: the identity shortcut,
# proper and improper axis permutations, inversion, a diagonal and a centering matrix
FIXED_U = [[[1, 0, 0], [0, 1, 0], [0, 0, 1]], [[0, 1, 0], [0, 0, 1], [1, 0, 0]], [[0, 1, 0], [1, 0, 0], [0, 0, 1]],
           [[-1, 0, 0], [0, -1, 0], [0, 0, -1]], [[2, 0, 0], [0, 1, 0], [0, 0, 1]], [[1, -1, 0], [1, 1, 0], [0, 0, 1]]]


def gen_case_U(rng, am, it, maxdet, history=None):
    """(system, family, spos, U, det): the first len(FIXED_U) cases of a batch use the fixed matrices; every third
    case has an atom (two sometimes) a hair off a face / edge / corner of the new cell."""
    if it < len(FIXED_U):
        U = [list(r) for r in FIXED_U[it]]
        extra = near_face_atoms(rng, U) if it % 2 == 0 else []
        while True:
            sysm, fam, spos = gen_system(rng, am, extra=extra, history=gen_history(rng) if rng.random() < 0.3 else None)
            o = sysm.box.origin @ _np().linalg.inv(sysm.box.vects)
            if _np().abs(o - _np().round(o)).max() > 1e-3:
                break
        return sysm, fam, spos, U, _det3(U)
    U, d = gen_U(rng, maxdet=maxdet) if it % 12 != 7 else gen_U_large(rng)
    if it % 12 == 7 and it % 5 != 2 and rng.random() < 0.6:
        # large bounding supercells: its one cell of padding matters only for images next to the extreme corners of the new
        # cell - atoms on lattice points / cell corners (listed on either face), atoms a hair off the new cell's faces, and
        # a box origin on, a hair off, or half a cell off a lattice plane
        ex = [tuple(Fraction(rng.choice([0, 0, 1])) for _ in range(3))]
        n = [rng.randint(-2, 2) + rng.choice([0.0, 1.3e-13, -1.3e-13, 1.7e-9, -1.7e-9, 1.3e-6, -3.7e-5, 0.5, -0.25]) for _ in range(3)]
        sysm, fam, spos = gen_system(rng, am, extra=ex, far=True, history=[['origin-rel', n]])
        return sysm, fam.replace('+history', '') + '+corner-atoms', spos, U, d
    if history is None and it % 10 in (3, 8, 9):
        # the object has been used before: caches filled, cell strained by a few ppm, origin moved, pbc switched, ...
        history = gen_history(rng)
    if it % 5 == 2:
        # cooperating: the box origin a hair below a lattice plane (so the lattice translation of rotate is decided by
        # 1e-13 .. 5e-5 of a cell) together with atoms on / a hair below the far face of the cell along the same axis
        j = rng.randrange(3)
        ex = []
        # (distances that do not add up with the origin offsets below to 1e-4 .. 1e-8: exactly on a rung of a tolerance
        # ladder the two sides of a face are told apart by rounding noise, and a one-rung `tol` cannot recover)
        for dl in (Fraction(0), rng.choice([Fraction(53, 10 ** 9), Fraction(31, 10 ** 7), Fraction(43, 10 ** 6)])):
            sp = [Fraction(rng.randint(0, 7), 8) for _ in range(3)]
            sp[j] = 1 - dl
            ex.append(tuple(sp))
        n = [float(rng.randint(-2, 2)) for _ in range(3)]
        n[j] -= rng.choice([1.3e-13, 1.7e-9, 1.3e-6, 3.7e-5])
        sysm, fam, spos = gen_system(rng, am, extra=ex, far=True, history=[['origin-rel', n]])
        return sysm, fam.replace('+history', '') + '+origin-below-plane', spos, U, d
    extra = near_face_atoms(rng, U) if it % 3 == 0 else []
    sysm, fam, spos = gen_system(rng, am, extra=extra, far=(it % 4 == 1), history=history)
    return sysm, fam, spos, U, d


def acc_tol(n):
    """np.allclose(uvws, rint(uvws)): |u - n| <= atol + rtol |n| with the numpy defaults."""
    return 1e-8 + 1e-5 * abs(n)


def gen_uvws_form(rng, U):
    """how the integer vectors U are handed to rotate: (argument, name, accepted). Accepted forms are the integers
    themselves (list / int arrays / float array) and floats within the acceptance tolerance of them on either side (one
    ulp, 1e-6..0.45 of the tolerance); refused forms have one entry 3 tolerances or more off."""
    np = _np()
    r = rng.random()
    Uf = np.array(U, dtype=float)
    if r < 0.25:
        return [list(x) for x in U], 'int-list', True
    if r < 0.33:
        if min(x for row in U for x in row) >= 0 and rng.random() < 0.5:
            return np.array(U, dtype=rng.choice(['uint8', 'uint16', 'uint64'])), 'uint-array', True
        return np.array(U, dtype=rng.choice(['int8', 'int16', 'int32', 'int64'])), 'int-array', True
    if r < 0.41:
        return Uf, 'float', True
    if r < 0.58:
        dirs = np.array([[rng.choice([-np.inf, np.inf]) for _ in range(3)] for _ in range(3)])
        return np.nextafter(Uf, dirs), 'float-ulp', True
    if r < 0.80:
        off = np.array([[rng.choice([-1, 1]) * rng.choice([0.0, 1e-6, 1e-3, 0.45]) * acc_tol(U[i][j]) for j in range(3)]
                        for i in range(3)])
        return Uf + off, 'float-within-tolerance', True
    A = Uf.copy()
    i, j = rng.randrange(3), rng.randrange(3)
    A[i, j] += rng.choice([-1, 1]) * rng.choice([3 * acc_tol(U[i][j]), 50 * acc_tol(U[i][j]), 0.25, 0.5])
    return A, 'float-outside-tolerance', False


def frac_mod1(x: Fraction) -> Fraction:
    return x - math.floor(x)


# ----------------------------------------------------------------------------------------------
# correspondence
# ----------------------------------------------------------------------------------------------
def correspond(ctx):
    np = _np()
    import atomman as am
    rng = ctx.rng
    # --- supersize, atom for atom in order; every third object has a history behind it ---
    for it in range(ctx.n(120, 1500)):
        sysm, fam, _ = gen_system(rng, am, history=gen_history(rng) if it % 3 == 2 else None)
        sizes = gen_sizes(rng)
        spec = spec_of(sysm)
        e = nextra(spec)
        bl, al = sys_line(sysm, spec)
        ns = [norm_size(s) for s in sizes]
        line = f"supersize {e} {sysm.natoms} {bl} " + ' '.join(f'{lo} {hi}' for lo, hi in ns) + ' ' + al
        out = ctx.driver.ask(line)
        kout = ctx.driver.ask(keys_line(sysm))
        mult = math.prod(h - l for l, h in ns)
        ctx.stats.case('supersize', line, nontrivial=mult > 1,
                       sample={'op': 'supersize', 'family': fam, 'sizes': [list(s) for s in ns], 'natoms': sysm.natoms,
                               'pbc': [bool(x) for x in sysm.pbc], 'props': [nm for nm, _, _ in spec],
                               'history': [op[0] for op in sysm._c04['history']]})
        rp = {'op': 'supersize', 'case': sysm._c04, 'sizes': [list(s) for s in ns], 'sizes_given': sizes_repr(sizes)}
        try:
            new = sysm.supersize(*sizes)
        except Exception as e_:  # noqa - an exception of the implementation is an observation
            if not out.startswith('err:'):
                ctx.disagree('supersize:impl-raises', f'supersize{sizes_repr(sizes)} raised {type(e_).__name__}: {e_}; the model '
                             f'returns {mult} x {sysm.natoms} atoms', rp)
            continue
        if out.startswith('err:'):
            ctx.disagree('supersize:model-refuses', f'model refused {sizes}: {out}', rp)
            continue
        # the per-atom properties the copy carries, by name and in order
        ikeys = ' '.join(enc_name(k) for k in new.atoms_prop())
        if ikeys != kout:
            ctx.disagree('supersize:keys', f'supersize{sizes_repr(sizes)}: the result carries the per-atom properties '
                         f'{new.atoms_prop()}, the model {[bytes.fromhex(t[1:]).decode() for t in kout.split()]} (input: '
                         f'{sysm.atoms_prop()})', rp)
            continue
        box, atoms = parse_result(out, e)
        impl_box = list(new.box.vects.ravel()) + list(new.box.origin)
        slack = supersize_cleanup(np, sysm.box.vects, ns)
        if slack:
            ctx.extra['supersize_cleanup_bound_cases'] = ctx.extra.get('supersize_cleanup_bound_cases', 0) + 1
        ok = cm.allclose(impl_box, box, rtol=1e-12, atol=1e-12 + slack) and len(atoms) == new.natoms
        if ok and sysm._c04['history']:
            # the object-level model (cell + cached reciprocal vectors + atoms), run through the same history from the
            # same initial state, then supersize on the object: same visible state, same supercell
            (ibl, ial), toks = sysm._c04_trace
            hout = ctx.driver.ask(f"hist {e} {sysm.natoms} {ibl} {len(toks)} {' '.join(toks)} "
                                  + ' '.join(f'{lo} {hi}' for lo, hi in ns) + ' ' + ial)
            ctx.stats.case('supersize-history', 'hist ' + ' '.join(toks) + ' ' + line,
                           sample={'op': 'history+supersize', 'ops': [t.split()[0] for t in toks]})
            okh = not hout.startswith('err:')
            if okh:
                ht = hout.split()
                hvis = [Fraction(x) for x in ht[:12]]
                hbox, hatoms = parse_result(' '.join(ht[12:]), e)
                scale_ = float(np.abs(sysm.atoms.pos).max()) + float(np.abs(sysm.box.vects).max())
                okh = (cm.allclose(list(sysm.box.vects.ravel()) + list(sysm.box.origin), hvis, rtol=0, atol=0)
                       and cm.allclose(impl_box, hbox, rtol=1e-12, atol=1e-12 + slack) and len(hatoms) == new.natoms
                       and all(t == int(new.atoms.atype[k]) and cm.allclose(new.atoms.pos[k], p_, rtol=0, atol=1e-10 * scale_ + 3 * slack)
                               and cm.allclose(payload(new, k, spec), ex, rtol=0, atol=0) for k, (t, p_, ex) in enumerate(hatoms)))
            if not okh:
                ctx.disagree('supersize:history', f'supersize{sizes_repr(sizes)} after the history {sysm._c04["history"]} on the '
                             f'one object differs from the object-level model run through the same history (family {fam})', rp)
        if ok:
            for k, (t, p_, ex) in enumerate(atoms):
                impl_ex = payload(new, k, spec)
                if t != int(new.atoms.atype[k]) or not cm.allclose(new.atoms.pos[k], p_, rtol=1e-9, atol=1e-9 + 3 * slack) \
                        or not cm.allclose(impl_ex, ex, rtol=0, atol=0):
                    ok = False
                    break
        if not ok:
            ctx.disagree('supersize', f'supersize{sizes_repr(sizes)} differs from the model (family {fam}, per-atom '
                         f'properties {sysm.atoms_prop()}, history {sysm._c04["history"]})',
                         dict(rp, impl_natoms=int(new.natoms), model_natoms=len(atoms)))
    # --- counts: replication counts at which float bookkeeping of "k steps of 1/k" goes wrong (49, 98, 103, 107 on every
    #     run, a rotating sample of the others), one- and two-atom cells, atom for atom in order ---
    traps = float_division_traps(260)
    for n in [49, 98, 103, 107] + rng.sample(traps, ctx.n(3, 12)) + rng.sample(range(4, 260), ctx.n(3, 12)):
        sysm, fam, _ = grid_system(am, rng, rng.choice([1, 2]), G=8)
        sizes = [1, 1, 1]
        sizes[rng.randrange(3)] = count_form(rng, n)
        ns = [norm_size(x) for x in sizes]
        spec = spec_of(sysm)
        e = nextra(spec)
        bl, al = sys_line(sysm, spec)
        line = f"supersize {e} {sysm.natoms} {bl} " + ' '.join(f'{lo} {hi}' for lo, hi in ns) + ' ' + al
        out = ctx.driver.ask(line)
        ctx.stats.case('supersize-count', line, sample={'op': 'supersize', 'family': fam, 'sizes': [list(x) for x in ns],
                                                        'natoms': sysm.natoms})
        rp = {'op': 'supersize', 'case': sysm._c04, 'sizes': [list(x) for x in ns], 'sizes_given': sizes_repr(sizes)}
        try:
            new = sysm.supersize(*sizes)
        except Exception as e_:  # noqa
            ctx.disagree('supersize:impl-raises', f'supersize{sizes_repr(sizes)} raised {type(e_).__name__}: {e_}; the model '
                         f'returns {n} x {sysm.natoms} atoms', rp)
            continue
        box, atoms = parse_result(out, e)
        ok = (cm.allclose(list(new.box.vects.ravel()) + list(new.box.origin), box, rtol=1e-12, atol=1e-12)
              and len(atoms) == new.natoms
              and all(t == int(new.atoms.atype[k]) and cm.allclose(new.atoms.pos[k], p_, rtol=1e-9, atol=1e-9)
                      and cm.allclose(payload(new, k, spec), ex, rtol=0, atol=0) for k, (t, p_, ex) in enumerate(atoms)))
        if not ok:
            ctx.disagree('supersize', f'supersize{sizes_repr(sizes)} ({n} replicas along one axis) differs from the model',
                         dict(rp, impl_natoms=int(new.natoms), model_natoms=len(atoms)))
    # int forms of the multipliers (Python and numpy integers) and every (lo, hi) tuple with entries in [-3, 3]: ranges
    # that do not contain 0 and empty ranges are refused
    sysm, _, _ = gen_system(random.Random(5), am)

    def impl_size(arg):
        try:
            new = sysm.supersize(arg, 1, 1)
            lo = round(float((new.box.origin - sysm.box.origin) @ np.linalg.inv(sysm.box.vects)[:, 0]))
            return f'{lo} {lo + round(new.natoms / sysm.natoms)}'
        except (TypeError, ValueError):
            return 'err:value'
        except Exception as e_:  # noqa
            return f'raised {type(e_).__name__}: {e_}'

    for n in range(-3, 4):
        out = ctx.driver.ask(f'sizeint {n}')
        for form in (int, np.int64, np.int32):
            ctx.stats.case('sizeint', (n, form.__name__))
            impl = impl_size(form(n))
            if impl != out:
                ctx.disagree('supersize:int-rule', f'multiplier {form.__name__}({n}): implementation {impl}, model {out}',
                             {'op': 'sizeint', 'n': n, 'form': form.__name__})
    for lo in range(-3, 4):
        for hi in range(-3, 4):
            out = ctx.driver.ask(f'sizepair {lo} {hi}')
            for form in (int, np.int64):
                ctx.stats.case('sizepair', (lo, hi, form.__name__))
                impl = impl_size((form(lo), form(hi)))
                if impl != out:
                    ctx.disagree('supersize:tuple-rule', f'multiplier tuple ({lo}, {hi}) ({form.__name__}): implementation '
                                 f'{impl}, model {out}', {'op': 'sizepair', 'lo': lo, 'hi': hi, 'form': form.__name__})
    # --- rotate: multiset of (type, extras, rel pos mod 1) in the new cell; the vectors are handed over in every
    #     accepted / refused form (ints, float arrays, floats within / outside the integer tolerance) ---
    for it in range(ctx.n(120, 1200)):
        sysm, fam, _, U, d = gen_case_U(rng, am, it, ctx.n(5, 8))
        arg, form, _ = gen_uvws_form(rng, U) if it >= len(FIXED_U) else (U, 'int-list', True)
        _corr_rotate(ctx, am, sysm, fam, U, d, 'rotate', arg, form)
    # --- one atom exactly ON a rung of the tolerance ladder (the rung may miscount, the next one delivers the model's cell)
    for it in range(ctx.n(24, 200)):
        sysm, fam, _, U, d, tol, rung = gen_onrung_case(rng, am, it)
        if tol is None:
            _corr_rotate(ctx, am, sysm, fam, U, d, 'rotate-onrung', U, 'int-list')
    # --- a bounding supercell spanning a trap count of cells along one axis ---
    for n in [49] + rng.sample([k for k in traps if k <= 130], ctx.n(1, 6)):
        sysm, fam, _ = grid_system(am, rng, 1, G=8)
        U = [[1 if i == j else 0 for j in range(3)] for i in range(3)]
        ax = rng.randrange(3)
        U[ax][ax] = (n - 2) * rng.choice([-1, 1])
        _corr_rotate(ctx, am, sysm, fam + f'+span{n}', U, _det3(U), 'rotate-span', U, 'int-list')
    # --- the identity shortcut (in every accepted form of the vectors) and one more matrix under each of the 8 pbc settings:
    #     the re-oriented cell is fully periodic, atoms on the faces of a non-periodic direction included ---
    for pbc in PBCS:
        for U in (FIXED_U[0], rng.choice(FIXED_U[1:])):
            sysm, fam, _ = gen_system(rng, am, far=rng.random() < 0.5, pbc=pbc)
            arg, form, _ = gen_uvws_form(rng, U)
            while form == 'float-outside-tolerance':
                arg, form, _ = gen_uvws_form(rng, U)
            _corr_rotate(ctx, am, sysm, fam, [list(r) for r in U], _det3(U), 'rotate-pbc', arg, form)
    # --- hexagonal cells, 4-index vectors: the library's own 3->4 conversion (float thirds), integer 4-index sets,
    #     and sets violating u+v+t = 0 (refused) ---
    for it in range(ctx.n(24, 200)):
        sysm, fam, _, U, d, arg, form = gen_hex_case(rng, am)
        _corr_rotate(ctx, am, sysm, fam, U, d, 'rotate-hex4', arg, form)
    # --- the integer test alone, around the edge of the tolerance (exactly representable offsets) ---
    for it in range(ctx.n(60, 400)):
        n = rng.randint(-6, 6)
        f = rng.choice([0.0, 2.0 ** -40, 0.25, 0.5, 0.9, 1.1, 2.0, 64.0]) * rng.choice([-1, 1])
        x = n + f * acc_tol(n)
        out = ctx.driver.ask('accept ' + cm.fr(x))
        ctx.stats.case('accept', (n, f))
        try:
            sysm1 = _unit_system(am)
            A = np.eye(3)
            A[0, 0] = x if n != 0 else 1.0
            A[0, 1] = x if n == 0 else 0.0
            sysm1.rotate(A)
            impl = 'ok'
        except ValueError as e:
            impl = 'err:value' if 'integer' in str(e) else 'ok'      # (a zero first index makes the set planar)
        model = 'ok' if not out.startswith('err:') else out
        if not out.startswith('err:') and int(out) != n:
            ctx.disagree('accept:value', f'index {x!r}: the model accepts it as {out}, the nearest integer is {n}', {'x': x})
        if impl != model:
            ctx.disagree('accept', f'index {x!r} (integer {n}, {f} tolerances off): implementation {impl}, model {model}',
                         {'op': 'accept', 'x': x})
    # --- rotate with an atom outside the box: the bounding supercell may miss images, then the code's own
    #     expected-count test refuses ("Filtering failed"); the model (rotateChecked) must refuse exactly then ---
    for it in range(ctx.n(30, 400)):
        sysm, fam, _ = gen_system(rng, am)
        sp = sysm.atoms_prop('pos', scale=True)
        sp[rng.randrange(sysm.natoms)] += np.array([rng.randint(-3, 3) for _ in range(3)], dtype=float)
        sysm.atoms_prop('pos', value=sp, scale=True)
        U, d = gen_U(rng, maxdet=5)
        _corr_rotate(ctx, am, sysm, fam, U, d, 'rotate-outside', U, 'int-list')
    # --- the lattice-site test of conventional_to_primitive (periodic lookup) ---
    _corr_basis(ctx, rng, am)
    # --- the crystal family and the setting the conversion works with, at the caller's tolerances ---
    _corr_family(ctx, rng, am)
    _corr_resolve(ctx, rng, am)
    # --- cells written in another Cartesian frame: along the axes with the axes permuted / mirrored / half-turned, and
    #     oblique ones mirrored / rotated (own random stream: the batches above see the same cases as before) ---
    orng = random.Random(ctx.seed * 15485863 + 3)
    for it in range(ctx.n(30, 200)):
        kind = ('half-turn', 'lefthanded', 'permuted', 'mirror-rotated', 'rotated')[it % 5]
        box, fam = frame_box(orng, am, kind, orth=it % 3 != 2)
        U = [list(r) for r in FIXED_U[it % len(FIXED_U)]] if it % 2 == 0 else gen_U(orng, maxdet=5)[0]
        sysm, fam, _ = gen_system(orng, am, fam_box=(box, fam), extra=near_face_atoms(orng, U) if it % 3 == 0 else [],
                                  far=it % 4 == 1)
        _corr_rotate(ctx, am, sysm, fam, U, _det3(U), 'rotate-oriented', U, 'int-list')
    # --- round 6: the call as written (multiplier arguments), the ladder with the caller's `tol`, the vectors the
    #     conversions hand to rotate (own random stream) ---
    xrng = random.Random(ctx.seed * 32452843 + 11)
    _corr_sizeargs(ctx, xrng, am)
    _corr_convuvws(ctx, am)
    for it in range(ctx.n(40, 300)):
        U, d = gen_U(xrng, maxdet=5)
        sysm, fam, _ = gen_system(xrng, am, extra=near_face_atoms(xrng, U) if it % 4 != 3 else [], far=it % 4 == 1)
        rungs = xrng.choice(USER_LADDERS)
        vals = [float(Fraction(r)) for r in rungs]
        form = xrng.choice(['list', 'tuple', 'array', 'float'] if len(vals) == 1 else ['list', 'tuple', 'array'])
        tol = {'list': vals, 'tuple': tuple(vals), 'array': np.array(vals), 'float': vals[0]}[form]
        _corr_rotate(ctx, am, sysm, fam + '+tol-' + form, U, d, 'rotate-ladder', U, 'int-list', tol=tol, rungs=rungs)


# user ladders: rungs that are no distance the generators place an atom at (DELTAS, LADDER, origin offsets and their sums)
USER_LADDERS = [['29/1000000'], ['23/100000', '19/10000000'], ['61/1000000', '29/100000000', '11/1000000000'],
                ['59/1000000'], ['77/1000000', '33/100000000'], ['1/10000', '1/100000', '1/1000000', '1/10000000'],
                ['13/10000', '7/1000000']]


def _size_token(a):
    """a multiplier argument as the model sees it: integer, pair of integers, anything else."""
    np = _np()
    isint = lambda v: isinstance(v, (int, np.integer)) and not isinstance(v, (bool, np.bool_))
    if isint(a):
        return f'i{int(a)}'
    if isinstance(a, tuple) and len(a) == 2 and isint(a[0]) and isint(a[1]):
        return f'p{int(a[0])},{int(a[1])}'
    return 'o'


def _corr_sizeargs(ctx, rng, am):
    """System.supersize(a, b, c) with accepted and refused arguments in every slot against `resolveSizes` (which
    arguments are refused, with which exception class - the first refused axis decides - and otherwise the placement)."""
    np = _np()
    good = [1, 2, -1, -3, (0, 2), (-1, 0), (-1, 1), (-2, 1), np.int64(2), np.int32(-2), (np.int64(-1), 1), (0, np.int16(3))]
    bad = [0, np.int64(0), (0, 0), (1, 2), (-2, -1), (1, -1), 1.0, 2.5, (0.0, 1), (0, 1.0), [0, 1], (0, 1, 2), (1,), (),
           None, '2', np.float64(2.0), (np.int64(0), np.int64(0)), (2, 0)]
    for it in range(ctx.n(90, 500)):
        args = [rng.choice(good) for _ in range(3)]
        for slot in rng.sample(range(3), rng.choice([0, 1, 1, 2, 3])):
            args[slot] = rng.choice(bad)
        toks = [_size_token(a) for a in args]
        line = 'sizeargs ' + ' '.join(toks)
        out = ctx.driver.ask(line)
        ctx.stats.case('sizeargs', line, nontrivial=True, sample={'op': 'sizeargs', 'args': [repr(a) for a in args]})
        sysm = am.System(atoms=am.Atoms(atype=[1], pos=[[0.25, 0.5, 0.125]]), box=am.Box(a=1.0, b=1.0, c=1.0))
        try:
            new = sysm.supersize(*args)
            impl = ' '.join(str(int(round(x))) for k in range(3)
                            for x in (new.box.origin[k], new.box.origin[k] + new.box.vects[k][k]))
        except ValueError:
            impl = 'err:value'
        except TypeError:
            impl = 'err:type'
        except Exception as e:  # noqa - an observation
            impl = 'raised ' + type(e).__name__
        if impl != out:
            ctx.disagree('supersize:arguments', f'supersize({", ".join(repr(a) for a in args)}) on the unit cube: implementation '
                         f'{impl} (lo hi per axis), model {out}', {'op': 'sizeargs', 'args': [repr(a) for a in args]})


def _corr_convuvws(ctx, am):
    """the vectors conventional_to_primitive / primitive_to_conventional hand to System.rotate (captured by a spy in place
    of rotate) against `c2pUvws` / `p2cUvws` / `multip`, for every setting, `t` and an unknown one."""
    np = _np()

    class _Stop(Exception):
        pass
    seen = []

    def spy(self, uvws, *a, **k):
        seen.append(np.array(uvws, dtype=float))
        raise _Stop()
    sysm = am.System(atoms=am.Atoms(atype=[1], pos=[[0.0, 0.0, 0.0]]), box=am.Box(a=3.0, b=3.0, c=3.0))
    orig = am.System.rotate
    for setting in ['p', 'i', 'f', 'a', 'b', 'c', 't1', 't2', 't', 'r', 'P', '']:
        out = ctx.driver.ask('convuvws ' + (setting if setting else '_'))
        ctx.stats.case('convuvws', 'convuvws ' + setting, nontrivial=True, sample={'op': 'convuvws', 'setting': setting})
        parts = [x.strip() for x in out.split('|')]
        got = []
        am.System.rotate = spy
        try:
            for style, kw in (('conventional_to_primitive', {'check_basis': False}), ('primitive_to_conventional', {})):
                del seen[:]
                try:
                    sysm.dump(style, setting=setting, **kw)
                    got.append('returned')
                except _Stop:
                    m = seen[0]
                    got.append(' '.join(str(int(x)) for x in np.rint(m).ravel())
                               if m.shape == (3, 3) and np.abs(m - np.rint(m)).max() < 1e-12 else 'non-integer ' + str(m.tolist()))
                except ValueError:
                    got.append('x')
                except Exception as e:  # noqa
                    got.append('raised ' + type(e).__name__)
        finally:
            am.System.rotate = orig
        if len(parts) != 3 or got != parts[1:]:
            ctx.disagree('conversion:uvws', f'setting {setting!r}: vectors handed to rotate by c2p / p2c: {got}, model {parts[1:]}',
                         {'op': 'convuvws', 'setting': setting})
        elif got[0] != 'x':
            # multip: the supercell is multip^3 / (lattice sites) primitive cells
            det = round(float(np.linalg.det(np.array([int(x) for x in got[0].split()], dtype=float).reshape(3, 3))))
            detc = round(float(np.linalg.det(np.array([int(x) for x in got[1].split()], dtype=float).reshape(3, 3))))
            if det * detc != int(parts[0]) ** 3:
                ctx.disagree('conversion:multip', f'setting {setting!r}: det {det} x {detc} != multip^3, multip = {parts[0]}',
                             {'op': 'convuvws', 'setting': setting})


def _unit_system(am):
    return am.System(atoms=am.Atoms(atype=[1], pos=[[0.0, 0.0, 0.0]]), box=am.Box(a=2.0, b=2.5, c=3.0))


def gen_hex_case(rng, am):
    """hexagonal cell + vectors given with four indices -> (system, family, spos, U3, det, argument, form)."""
    np = _np()
    from atomman.tools import miller
    while True:
        a = rng.choice([2.5, 3.0, 3.25])
        org = [cm.dyadic(rng, -3, 3, 2) for _ in range(3)] if rng.random() < 0.5 else [0.0, 0.0, 0.0]
        # (one cell in five with c = a: still a hexagonal cell)
        box = am.Box(a=a, b=a, c=rng.choice([4.0, 5.0, 5.25, a, a]) if rng.random() < 0.5 else rng.choice([4.0, 5.0, 5.25]),
                     gamma=120, origin=org)
        famname = 'hexagonal' if box.c != box.a else 'hexagonal[c=a]'
        if rng.random() < 1 / 3:
            box, famname = reorient(rng, am, box), 'hexagonal-reoriented'
        r = rng.random()
        if r < 0.45:
            # any integer 3-index set, converted by the library itself: thirds in floating point, which
            # vector4to3 turns back into floats that are integers only up to rounding
            U, d = gen_U(rng, maxdet=5)
            arg, form = miller.vector3to4(np.array(U, dtype=float)), 'hex4-from-vector3to4'
        elif r < 0.85:
            # integer 4-index rows [u v t w] with u + v + t = 0: 3-index [2u+v, 2v+u, w]
            rows = []
            for _ in range(3):
                u, v = rng.randint(-2, 2), rng.randint(-2, 2)
                rows.append([u, v, -u - v, rng.randint(-2, 2)])
            U = [[2 * x[0] + x[1], 2 * x[1] + x[0], x[3]] for x in rows]
            d = _det3(U)
            arg, form = np.array(rows, dtype=rng.choice(['int64', 'float'])), 'hex4-int'
            if d == 0 or abs(d) > 9:
                continue
        else:
            U, d = gen_U(rng, maxdet=4)
            arg = miller.vector3to4(np.array(U, dtype=float))
            arg[rng.randrange(3), rng.randrange(3)] += rng.choice([-1, 1]) * rng.choice([1e-6, 0.01, 1.0])
            form = 'hex4-sum-not-zero'
        extra = near_face_atoms(rng, U) if rng.random() < 0.3 else []
        # (isotropic dilations: the cell stays hexagonal)
        sysm, fam, spos = gen_system(rng, am, (box, famname), extra=extra,
                                     history=gen_history(rng, iso=True) if rng.random() < 0.25 else None)
        return sysm, fam, spos, U, d, arg, form


def _tol_rel(np, V, *arrays):
    """bound on the rounding error of a relative coordinate obtained from float Cartesian data of the given magnitudes
    through inv(V): 2^-52 x 4096 x (largest magnitude) x |inv V| (max column sum). 4096 covers the ~20 operations of
    supersize + translation + normalize (lstsq transform) + the oracle's own inverse; observed worst 4e-13 where
    this gives 3e-10."""
    scale = max(float(np.abs(np.asarray(a, dtype=float)).max()) for a in arrays + (V,))
    return 2.0 ** -52 * 4096 * scale * float(np.abs(np.linalg.inv(V)).sum(axis=0).max())


def cleanup_extra(np, W):
    """The `Box.vects` setter zeroes every component below 1e-9 of the largest one ("zero out near zero terms"). rotate
    ends with normalize, which rebuilds the requested cell W (rows = new cell vectors) in LAMMPS form: returns the sum
    of the magnitudes of the tilt components of that form which the clean-up removes (0.0 when it removes none - every
    cell of the plain generators; second-order terms e^2 of a cell strained by a few ppm of shear otherwise). Results
    are then compared at that bound instead of the rounding bound (the same exemption as in C05)."""
    a, b, c = (np.asarray(x, dtype=float) for x in W)
    lx = np.linalg.norm(a)
    xy = b.dot(a) / lx
    ly = math.sqrt(max(b.dot(b) - xy * xy, 0.0))
    xz = c.dot(a) / lx
    yz = (b.dot(c) - xy * xz) / ly
    lz = math.sqrt(max(c.dot(c) - xz * xz - yz * yz, 0.0))
    big = max(lx, ly, lz, abs(xy), abs(xz), abs(yz))
    # (1e-15: exact zeros show up as rounding noise here; 2e-9: margin around the threshold of the clean-up)
    return sum(abs(t) for t in (xy, xz, yz) if 1e-15 * big < abs(t) <= 2e-9 * big)


def supersize_cleanup(np, V0, ns):
    """supersize hands the multiplied vectors to a new Box, whose `vects` setter zeroes every component below 1e-9 of the
    largest one: a tilt of a few 1e-9 (second-order term of a ppm shear in a history) that the input's Box kept can fall
    under that threshold once another vector has been multiplied. Returns the sum of the magnitudes of the components
    the clean-up may remove (0.0 for every cell of the plain generators); box and positions are then compared at that
    bound (the same exemption as `cleanup_extra` for rotate and as in C05)."""
    want = np.array([np.asarray(V0[i], dtype=float) * (ns[i][1] - ns[i][0]) for i in range(3)])
    big = float(np.abs(want).max())
    return float(sum(abs(x) for x in want.ravel() if 1e-15 * big < abs(x) <= 2e-9 * big))


DEFAULT_LADDER = ['1/10000', '1/100000', '1/1000000', '1/10000000']


def _corr_rotate(ctx, am, sysm, fam, U, d, kind, arg, form, tol=None, rungs=None):
    """`tol` / `rungs`: the `tol` argument handed to rotate and its rungs as exact decimal fractions; with `rungs` the
    model runs WITH the tolerance ladder (driver op `rotatel`, Lean `rotateLadder`) - always for `rotate-outside`."""
    np = _np()
    spec = spec_of(sysm)
    ne = nextra(spec)
    bl, al = sys_line(sysm, spec)
    flat = np.asarray(arg, dtype=float).ravel()
    if kind == 'rotate-outside' and rungs is None:
        rungs = DEFAULT_LADDER
    if rungs is not None:
        line = (f"rotatel {ne} {sysm.natoms} {bl} {len(rungs)} {' '.join(rungs)} "
                f"{' '.join(str(x) for r in U for x in r)} {al}")
    else:
        line = f"rotatef {ne} {sysm.natoms} {bl} {len(flat)} {cm.frs(flat)} {al}"
    out = ctx.driver.ask(line)
    if out == 'err:filter':
        out = 'err:value'       # "Filtering failed" is a ValueError as well
    kw = {} if tol is None else {'tol': tol}
    pbc_in = [bool(x) for x in sysm.pbc]
    ctx.stats.case(kind, line + ' pbc ' + ''.join('p' if x else 'f' for x in pbc_in),
                   nontrivial=U != [[1, 0, 0], [0, 1, 0], [0, 0, 1]],
                   sample={'op': kind, 'family': fam, 'U': U, 'det': d, 'natoms': sysm.natoms, 'uvws_form': form,
                           'pbc': pbc_in, 'props': [nm for nm, _, _ in spec],
                           'history': [op[0] for op in sysm._c04['history']]})
    ctx.extra.setdefault('uvws_forms', {})
    ctx.extra['uvws_forms'][form] = ctx.extra['uvws_forms'].get(form, 0) + 1
    ctx.extra.setdefault('pbc_settings', {})
    pk = ''.join('p' if x else 'f' for x in pbc_in)
    ctx.extra['pbc_settings'][pk] = ctx.extra['pbc_settings'].get(pk, 0) + 1
    rp = {'op': 'rotate', 'case': sysm._c04, 'U': U, 'uvws': np.asarray(arg, dtype=float).tolist(), 'form': form}
    if tol is not None:
        rp['tol'] = [float(Fraction(r)) for r in rungs]

    def on_face(rel):
        # the model runs the ladder itself: float and exact arithmetic can only differ about an image whose distance
        # from a face of the new cell is a rung to within rounding (it is kept / dropped by noise)
        edges = [float(Fraction(r)) for r in rungs]
        return any(min(min(abs(float(x) + e), abs(float(x) - 1.0 + e)) for e in edges) < 1e-9 for x in rel)

    if kind == 'rotate-outside':
        # the whole-lattice translation of the supercell is rint(origin . inv(vects)): within rounding of a half-integer
        # the float code and exact arithmetic may translate by different lattice vectors; for atoms inside the box the
        # result is the same (rep_in_bounds covers offsets in (-1,2)), for an atom outside it which images the
        # supercell holds depends on that choice: not comparable
        orel = np.linalg.solve(sysm.box.vects.T, sysm.box.origin)
        if np.abs(np.abs(orel - np.floor(orel)) - 0.5).min() < 1e-9:
            ctx.extra['rotate_outside_half_origin_exempt'] = ctx.extra.get('rotate_outside_half_origin_exempt', 0) + 1
            return

    try:
        new, T = sysm.rotate(arg, return_transform=True, **kw)
    except ValueError as e:
        if not out.startswith('err:'):
            mbox, matoms = parse_result(out, ne)
            if kind == 'rotate-outside':
                # an image exactly on a face of the new cell (s = 0 or 1 up to rounding) is assigned to one of two
                # lattice-equivalent positions by the float tolerance ladder and to the other in exact arithmetic; for
                # an atom outside the box only one of the two may lie in the bounding supercell: not comparable
                Vi = inv3([[mbox[3 * i + j] for j in range(3)] for i in range(3)])
                if any(on_face(vecmat(p, Vi)) for _, p, _ in matoms):
                    ctx.extra['rotate_outside_face_exempt'] = ctx.extra.get('rotate_outside_face_exempt', 0) + 1
                    return
            ctx.disagree(kind + ':impl-refuses', f'rotate refused uvws={np.asarray(arg).tolist()} ({form}; integers {U}, '
                         f'det {d}) family {fam}: {e}; the model keeps {len(matoms)} atoms', rp)
        return
    except Exception as e:  # noqa  - any other exception is an observation, not a harness crash
        ctx.disagree(kind + ':impl-raises', f'rotate raised {type(e).__name__}: {e} for uvws='
                     f'{np.asarray(arg).tolist()} ({form}); model: {out[:40]}', rp)
        return
    if out.startswith('err:'):
        if kind == 'rotate-outside' and any(on_face(srow) for srow in new.atoms_prop('pos', scale=True)):
            ctx.extra['rotate_outside_face_exempt'] = ctx.extra.get('rotate_outside_face_exempt', 0) + 1
            return
        ctx.disagree(kind + ':model-refuses', f'model refused uvws={np.asarray(arg).tolist()} ({form}): {out}; rotate '
                     f'returned {new.natoms} atoms', rp)
        return
    # the model's re-oriented cell is fully periodic whatever the flags of the input were (driver op `pbc`)
    pout = ctx.driver.ask('pbc ' + ' '.join('1' if x else '0' for x in pbc_in) + ' ' + ' '.join(str(x) for r in U for x in r))
    if ' '.join('1' if x else '0' for x in new.pbc) != pout:
        ctx.disagree(kind + ':pbc', f'rotate uvws={np.asarray(arg).tolist()} of a system with pbc {pbc_in}: the result has pbc '
                     f'{[bool(x) for x in new.pbc]}, the model {pout} (documented: a new fully periodic system)', rp)
    kout = ctx.driver.ask(keys_line(sysm))
    if ' '.join(enc_name(k) for k in new.atoms_prop()) != kout:
        ctx.disagree(kind + ':keys', f'rotate uvws={np.asarray(arg).tolist()}: the result carries the per-atom properties '
                     f'{new.atoms_prop()}, the input {sysm.atoms_prop()}', rp)
        return
    mbox, matoms = parse_result(out, ne)
    # model: relative coordinates in the model's new box
    V = [[mbox[3 * i + j] for j in range(3)] for i in range(3)]
    o = mbox[9:12]
    Vi = inv3(V)
    mset = []
    for t, p, ex in matoms:
        s = vecmat([p[j] - o[j] for j in range(3)], Vi)
        if d * np.linalg.det(sysm.box.vects) < 0:
            # left-handed new cell (U.vects): normalize reverses the third vector (c -> -c, origin += c): s_c -> 1 - s_c
            s = [s[0], s[1], 1 - s[2]]
        mset.append((t, tuple(ex), tuple(s)))
    spos = new.atoms_prop('pos', scale=True)
    iset = [(int(new.atoms.atype[k]), tuple(Fraction(x) for x in payload(new, k, spec)), tuple(spos[k]))
            for k in range(new.natoms)]
    # the kept atoms are the supercell atoms themselves (never moved): the implementation's relative coordinates
    # agree with the exact ones up to rounding, also for atoms 1e-7 off a face
    tol = _tol_rel(np, new.box.vects, new.atoms.pos, sysm.box.origin, sysm.box.vects)
    cl = cleanup_extra(np, np.array(U, dtype=float) @ sysm.box.vects)
    if cl:
        tol += 4 * cl * float(np.abs(np.linalg.inv(new.box.vects)).sum(axis=0).max())
        ctx.extra['rotate_cleanup_bound_cases'] = ctx.extra.get('rotate_cleanup_bound_cases', 0) + 1
    if not match_multisets(iset, mset, tol=tol):
        ctx.disagree(kind, f'rotate uvws={np.asarray(arg).tolist()} ({form}, family {fam}): kept atoms differ from the '
                     f'model ({new.natoms} vs {len(matoms)}; positions compared to {tol:.1e} relative)',
                     dict(rp, impl_natoms=int(new.natoms), model_natoms=len(matoms)))


def inv3(V):
    a, b, c = V
    cr = lambda u, v: [u[1] * v[2] - u[2] * v[1], u[2] * v[0] - u[0] * v[2], u[0] * v[1] - u[1] * v[0]]
    det = sum(a[i] * cr(b, c)[i] for i in range(3))
    c0, c1, c2 = cr(b, c), cr(c, a), cr(a, b)
    return [[c0[0] / det, c1[0] / det, c2[0] / det], [c0[1] / det, c1[1] / det, c2[1] / det],
            [c0[2] / det, c1[2] / det, c2[2] / det]]


def vecmat(s, V):
    return [sum(s[i] * V[i][j] for i in range(3)) for j in range(3)]


def circ(a, b):
    d = abs(float(a) - float(b)) % 1.0
    return min(d, 1.0 - d)


def match_multisets(iset, mset, tol):
    """greedy matching of (type, extras, relpos mod 1)."""
    if len(iset) != len(mset):
        return False
    used = [False] * len(mset)
    for t, ex, s in iset:
        found = False
        for j, (t2, ex2, s2) in enumerate(mset):
            if used[j] or t != t2 or any(abs(float(a) - float(b)) > 1e-12 for a, b in zip(ex, ex2)):
                continue
            if all(circ(s[i], s2[i]) < tol for i in range(3)):
                used[j] = True
                found = True
                break
        if not found:
            return False
    return True


# ----------------------------------------------------------------------------------------------
# search: the clauses of the property on the real code, exact lattice arithmetic
# ----------------------------------------------------------------------------------------------
def _all_payload(sysm, k):
    """every per-atom value other than type and position (whatever properties the system has, under whatever names),
    as (name, values) pairs: numbers, strings and flags compared as they are."""
    out = []
    for key in sorted(sysm.atoms_prop()):
        if key in ('atype', 'pos'):
            continue
        out.append((key, tuple(_np().asarray(sysm.atoms.view[key][k]).ravel().tolist())))
    return tuple(out)


def _orig_records(sysm, spos):
    return [(int(sysm.atoms.atype[i]), _all_payload(sysm, i), tuple(Fraction(x) for x in spos[i]))
            for i in range(sysm.natoms)]


def _check_same_crystal(ctx, key, what, sysm, spos, new, T, count, replay, extra_tol=0.0):
    """every atom of `new` maps through T, modulo the original lattice, onto an original atom with the same
    payload; each original `count` times; no two coincide modulo the new lattice; returns False on violation."""
    np = _np()
    recs = _orig_records(sysm, spos)
    Vinv = np.linalg.inv(sysm.box.vects)
    hits = [0] * len(recs)
    # "maps onto an original atom modulo the lattice" is evaluated at the rounding bound of the float data (about
    # 1e-11 relative), not at a loose tolerance: an atom moved by 1e-7 of a cell is not the original atom
    tol = _tol_rel(np, sysm.box.vects, new.atoms.pos, sysm.box.origin, new.box.vects) if new.natoms else 1e-9
    tol += extra_tol
    if new.natoms != count * sysm.natoms:
        ctx.violate(key + ':count', f'{what}: {new.natoms} atoms, expected {count} x {sysm.natoms}', replay)
        return False
    # (the volume of the original cell from its vectors, not from the code under test)
    vol0, vol1 = abs(float(np.linalg.det(sysm.box.vects))), new.box.volume
    if not (vol1 > 0) or abs(vol1 - count * vol0) > 1e-8 * abs(vol1):
        ctx.violate(key + ':volume', f'{what}: volume {vol1}, expected {count} x {vol0}', replay)
        return False
    if tuple(new.symbols) != tuple(sysm.symbols):
        ctx.violate(key + ':symbols', f'{what}: atom types stand for {tuple(new.symbols)}, originally {tuple(sysm.symbols)}',
                    replay)
        return False
    if sorted(new.atoms_prop()) != sorted(sysm.atoms_prop()):
        ctx.violate(key + ':properties', f'{what}: per-atom properties {sorted(new.atoms_prop())}, original has '
                    f'{sorted(sysm.atoms_prop())}', replay)
        return False
    for k in range(new.natoms):
        # new frame -> old frame (absolute Cartesian): pos_old = T^T pos_new (a pure rotation about the
        # Cartesian origin; supersize has T = 1), then relative to the original cell
        y = T.T @ new.atoms.pos[k]
        s = (y - sysm.box.origin) @ Vinv
        best = None
        pl = _all_payload(new, k)
        for i, (t, opl, sp) in enumerate(recs):
            if t != int(new.atoms.atype[k]) or opl != pl:
                continue
            if all(circ(s[j], sp[j]) < tol for j in range(3)):
                best = i
                break
        if best is None:
            near = min((max(circ(s[j], sp[j]) for j in range(3)) for t, opl, sp in recs
                        if t == int(new.atoms.atype[k]) and opl == pl), default=None)
            ctx.violate(key + ':member', f'{what}: result atom {k} (type {int(new.atoms.atype[k])}) maps onto no '
                        f'original atom with the same type/properties modulo the original lattice (rel {s.tolist()}; '
                        + (f'the nearest one is {near:.3g} of a cell away, rounding bound {tol:.1e})' if near is not None
                           else 'no original atom has these property values)'), replay)
            return False
        hits[best] += 1
    if any(h != count for h in hits):
        ctx.violate(key + ':representation', f'{what}: originals represented {hits} times, expected {count} each', replay)
        return False
    sp = new.atoms_prop('pos', scale=True)
    for a in range(new.natoms):
        for b in range(a + 1, new.natoms):
            if all(circ(sp[a][j], sp[b][j]) < 1e-6 for j in range(3)):
                ctx.violate(key + ':coincide', f'{what}: result atoms {a} and {b} coincide modulo the new cell', replay)
                return False
    return True


def _check_new_vectors(ctx, key, what, sysm, U, new, T, replay):
    """the result is expressed along the requested lattice vectors: its cell vectors are the rows of U.vects, turned
    by the returned rotation (third one reversed when the requested set U.vects is left-handed; C05: normalize flips c)."""
    np = _np()
    want = (np.array(U, dtype=float) @ sysm.box.vects) @ T.T
    if np.linalg.det(np.array(U, dtype=float) @ sysm.box.vects) < 0:
        want[2] = -want[2]
    scale = np.abs(want).max()
    if not np.allclose(new.box.vects, want, rtol=0, atol=1e-8 * scale):
        ctx.violate(key, f'{what}: cell vectors {new.box.vects.tolist()} are not the requested lattice vectors turned '
                    f'by the returned transform {want.tolist()}', replay)
        return False
    return True


def _shared_memory(np, sysm, new):
    """names of the per-atom arrays of `new` that share memory with those of `sysm` (a result must be a new system)."""
    out = []
    for k in new.atoms_prop():
        if k in sysm.atoms_prop() and np.shares_memory(np.asarray(new.atoms.view[k]), np.asarray(sysm.atoms.view[k])):
            out.append(k)
    return out


def _is_lammps_normal(np, vects):
    """LAMMPS-compatible, decided on the numbers (not by asking the Box under test): a along +x, b in the xy plane with
    positive y, c with positive z."""
    v = np.asarray(vects, dtype=float)
    return bool(v[0, 1] == 0.0 and v[0, 2] == 0.0 and v[1, 2] == 0.0 and v[0, 0] > 0.0 and v[1, 1] > 0.0 and v[2, 2] > 0.0)


def _oracle_rotate(ctx, am, sysm, fam, spos, U, d, arg, form, accepted, key, tol=None, call=None, label='rotate',
                   may_refuse=False, big=False, replay_extra=None):
    """all clauses for one rotate call; `U` are the integers `arg` stands for. `call`: the re-expression is obtained by
    this function of the system -> (new system, transform) instead of by `rotate` itself (a cell conversion, which IS
    rotate by the integers U of a centering table); `may_refuse`: rotate's own "Filtering failed" is accepted (an atom
    stored outside the cell); `big`: results of 1e5 .. 1e6 atoms - the vectorised oracle. Returns (new, T) when the call
    delivered and the crystal is the same, else None."""
    np = _np()
    I3 = np.eye(3)
    uv = np.asarray(arg, dtype=float).tolist()
    replay = {'op': 'rotate', 'family': fam, 'case': sysm._c04, 'vects': sysm.box.vects.tolist(),
              'origin': sysm.box.origin.tolist(), 'spos': [[float(x) for x in sp] for sp in spos],
              'atype': sysm.atoms.atype.tolist(), 'U': U, 'uvws': uv, 'form': form, 'accepted': accepted,
              'tol': (np.asarray(tol).tolist() if isinstance(tol, (np.ndarray, np.floating)) else tol)}
    if label != 'rotate':
        replay['label'] = label
    if big:
        replay['big'] = True
    if may_refuse:
        replay['may_refuse'] = True
    replay.update(replay_extra or {})
    pbc_in = [bool(x) for x in sysm.pbc]
    what = (f'{label} uvws={uv} ({form}; integers {U}, det {d}; {fam}; pbc {pbc_in}'
            + (f'; history on the object {sysm._c04["history"]}' if sysm._c04['history'] else '') + ')'
            + (f' tol={tol}' if tol is not None else ''))
    before = (sysm.atoms.pos.copy(), sysm.box.vects.copy(), sysm.box.origin.copy(), sysm.atoms.atype.copy())
    # (the flag as True / 1 / numpy.True_: truthiness is the documented meaning of a bool option)
    flag = (True, 1, np.True_)[sum(abs(int(x)) for row in U for x in row) % 3]
    try:
        if call is not None:
            new, T = call(sysm)
        elif tol is None:
            new, T = sysm.rotate(arg, return_transform=flag)
        else:
            new, T = sysm.rotate(arg, tol=tol, return_transform=flag)
    except Exception as e:  # noqa
        if not accepted and isinstance(e, ValueError):
            return
        if may_refuse and isinstance(e, ValueError) and 'Filtering failed' in str(e):
            ctx.extra['outside_refused'] = ctx.extra.get('outside_refused', 0) + 1
            return
        ctx.violate(key + ':raises', f'{label} raised {type(e).__name__}: {e} for {what}, origin '
                    f'{sysm.box.origin.tolist()}, relative positions {replay["spos"][:12]}', replay)
        return
    if not accepted:
        ctx.violate(key + ':refusal', f'{what}: indices that are not integers (3 tolerances or more off) were accepted',
                    replay)
        return
    if not (np.array_equal(before[0], sysm.atoms.pos) and np.array_equal(before[1], sysm.box.vects)
            and np.array_equal(before[2], sysm.box.origin) and np.array_equal(before[3], sysm.atoms.atype)
            and pbc_in == [bool(x) for x in sysm.pbc]):
        ctx.violate(key + ':input-mutated', f'{what}: rotate changed the system it was called on (box '
                    f'{before[1].tolist()} at {before[2].tolist()} -> {sysm.box.vects.tolist()} at '
                    f'{sysm.box.origin.tolist()}, pbc {pbc_in} -> {[bool(x) for x in sysm.pbc]})', replay)
    shared = _shared_memory(np, sysm, new)
    if shared:
        ctx.violate(key + ':aliases-input', f'{what}: the result shares memory with the system it was made from ({shared}): '
                    f'editing the new cell would edit the original', replay)
    cl = cleanup_extra(np, np.array(U, dtype=float) @ sysm.box.vects)
    if cl:
        # the clean-up of the Box.vects setter removed a tilt component of the normalized cell: compared at that bound
        cl = 4 * cl * float(np.abs(np.linalg.inv(sysm.box.vects)).sum(axis=0).max())
        ctx.extra['oracle_rotate_cleanup_bound_cases'] = ctx.extra.get('oracle_rotate_cleanup_bound_cases', 0) + 1
    T = np.asarray(T, dtype=float)
    if T.shape != (3, 3) or not (np.allclose(T @ T.T, I3, atol=1e-9) and abs(np.linalg.det(T) - 1) < 1e-9):
        ctx.violate(key + ':transform', f'{what}: returned transform {T.tolist()} is not a proper rotation'
                    + (f' (det {float(np.linalg.det(T)):.6g}: through an improper transform the new cell holds the mirror '
                       f'image of the crystal)' if T.shape == (3, 3) else ''), replay)
        return
    # "a re-oriented cell is LAMMPS-compatible with every atom inside it" - evaluated on the numbers of the result (cell
    # vectors; relative coordinates by numpy from the Cartesian positions, not by the Box under test)
    if not (_is_lammps_normal(np, new.box.vects) and new.box.is_lammps_norm()):
        ctx.violate(key + ':lammps-normal', f'{what}: result box {new.box.vects.tolist()} is not LAMMPS-compatible', replay)
    if new.natoms:
        sp = np.linalg.solve(new.box.vects.T, (new.atoms.pos - new.box.origin).T).T
        if sp.min() < -1e-9 or sp.max() > 1 + 1e-9:
            ctx.violate(key + ':inside', f'{what}: atoms outside the new cell (rel range {sp.min()}..{sp.max()})', replay)
    same = _kd_same_crystal if big else _check_same_crystal
    if not same(ctx, key, what, sysm, spos, new, T, abs(d), replay, extra_tol=cl):
        return
    _check_new_vectors(ctx, key + ':vectors', what, sysm, U, new, T, replay)
    return new, T


def search(ctx, broken):
    np = _np()
    import atomman as am
    rng = random.Random(ctx.seed * 7919 + 17)
    scale = 3 if broken else 1
    I3 = np.eye(3)
    # supersize (every third object has a history behind it)
    for it in range(ctx.n(60, 600) * scale):
        sysm, fam, spos = gen_system(rng, am, history=gen_history(rng) if it % 3 == 1 else None)
        before = (sysm.atoms.pos.copy(), sysm.box.vects.copy(), sysm.box.origin.copy())
        sizes = gen_sizes(rng)
        ns = [norm_size(s) for s in sizes]
        M = math.prod(h - l for l, h in ns)
        replay = {'op': 'supersize', 'family': fam, 'case': sysm._c04, 'vects': sysm.box.vects.tolist(),
                  'origin': sysm.box.origin.tolist(), 'spos': [[float(x) for x in s] for s in spos],
                  'atype': sysm.atoms.atype.tolist(), 'sizes': [list(s) for s in ns]}
        ctx.stats.case('oracle:supersize', (fam, sizes_repr(sizes), tuple(spos), tuple(sysm.atoms_prop()), tuple(sysm.pbc)))
        what = (f'supersize{sizes_repr(sizes)} ({fam}; pbc {[bool(x) for x in sysm.pbc]}; per-atom properties '
                f'{sysm.atoms_prop()}' + (f'; history on the object {sysm._c04["history"]}' if sysm._c04['history'] else '') + ')')
        try:
            new = sysm.supersize(*sizes)
        except Exception as e:  # noqa
            ctx.violate('supersize:raises', f'{what} raised {type(e).__name__}: {e} for valid '
                        f'integer multipliers', dict(replay, sizes_given=sizes_repr(sizes)))
            continue
        V0, o0 = before[1], before[2]
        slack = supersize_cleanup(np, V0, ns)
        if slack:
            ctx.extra['oracle_supersize_cleanup_bound_cases'] = ctx.extra.get('oracle_supersize_cleanup_bound_cases', 0) + 1
        _check_same_crystal(ctx, 'supersize', what, sysm, spos, new, I3, M, replay,
                            extra_tol=4 * slack * float(np.abs(np.linalg.inv(V0)).sum(axis=0).max()))
        wantv = np.array([V0[i] * (ns[i][1] - ns[i][0]) for i in range(3)])
        wanto = o0 + sum(V0[i] * ns[i][0] for i in range(3))
        if not (np.allclose(new.box.vects, wantv, rtol=0, atol=1e-9 + slack) and np.allclose(new.box.origin, wanto, rtol=0, atol=1e-9)):
            ctx.violate('supersize:box', f'{what}: box {new.box.vects.tolist()} at '
                        f'{new.box.origin.tolist()}, expected the multiplied vectors {wantv.tolist()} at {wanto.tolist()}',
                        replay)
        if not (np.array_equal(before[0], sysm.atoms.pos) and np.array_equal(before[1], sysm.box.vects)
                and np.array_equal(before[2], sysm.box.origin)):
            ctx.violate('supersize:input-mutated', f'{what} changed its input system', replay)
        shared = _shared_memory(np, sysm, new)
        if shared:
            ctx.violate('supersize:aliases-input', f'{what}: the result shares memory with the system it was made from '
                        f'({shared})', replay)
    # refusals of supersize: zero multipliers (int, numpy int, empty tuple), tuple ranges that do not contain 0,
    # non-integers, lists, tuples of the wrong length
    sysm, fam, spos = gen_system(rng, am)
    i64 = np.int64
    bads = [(0, 1, 1), (1, i64(0), 1), (1, 1, np.int32(0)), ((0, 0), 1, 1), ((i64(0), 0), 1, 1), ((1, 2), 1, 1), (1, (1, 3), 1),
            ((-1, -1), 1, 1), (1, 1, (-3, -1)), ((i64(2), i64(4)), 1, 1), (1.5, 1, 1), (1, (0, 1.5), 1), ([0, 2], 1, 1),
            ((0, 1, 2), 1, 1), ('2', 1, 1), (None, 1, 1)]
    for _ in range(ctx.n(6, 30)):
        lo, w = rng.randint(1, 4), rng.randint(0, 3)
        b = [1, 1, 1]
        b[rng.randrange(3)] = rng.choice([(lo, lo + w), (-lo - w, -lo), (i64(lo), i64(lo + w))])
        bads.append(tuple(b))
    for bad in bads:
        ctx.stats.case('oracle:supersize-refusal', repr(bad))
        try:
            new = sysm.supersize(*bad)
            ctx.violate('supersize:refusal', f'supersize{bad!r} was accepted ({new.natoms} atoms from {sysm.natoms}): a zero '
                        f'multiplier / a tuple range that does not contain 0 / a non-integer is a documented refusal',
                        {'op': 'supersize-refusal', 'sizes': repr(bad)})
        except (TypeError, ValueError):
            pass
        except Exception as e:  # noqa
            ctx.violate('supersize:refusal', f'supersize{bad!r} raised {type(e).__name__} ({e}) instead of its documented '
                        f'TypeError / ValueError', {'op': 'supersize-refusal', 'sizes': repr(bad)})
    # rotate: the vectors are handed over as ints, float arrays and floats within / outside the integer tolerance
    for it in range(ctx.n(400, 2000) * scale):
        sysm, fam, spos, U, d = gen_case_U(rng, am, it, ctx.n(5, 8))
        arg, form, accepted = gen_uvws_form(rng, U) if it >= len(FIXED_U) else (U, 'int-list', True)
        # the documented `tol` option (float or list): any ladder must give the same crystal
        # (values that are not 1e-k: the generated face distances are never exactly one rung)
        tol = rng.choice([None] * 8 + [2.3e-5, 7e-9, [1.7e-6, 1.1e-8], (1.3e-4,), [1.1e-3, 2.3e-5], np.float64(2.3e-5),
                                      np.array([1.7e-6, 1.1e-8])])
        ctx.stats.case('oracle:rotate', (fam, repr(np.asarray(arg).tolist()), tuple(spos), repr(tol)))
        _oracle_rotate(ctx, am, sysm, fam, spos, U, d, arg, form, accepted, 'rotate', tol=tol)
    # exactly ON a rung of the ladder (single, unambiguous placements): the rung may miscount, the next one must deliver
    for it in range(ctx.n(80, 600) * scale):
        sysm, fam, spos, U, d, tol, rung = gen_onrung_case(rng, am, it)
        ctx.stats.case('oracle:rotate-onrung', (fam, repr(U), tuple(spos), repr(tol)))
        try:
            # (evidence only: how often the rung alone fails on such a placement - the class "first tolerance fails")
            sysm.rotate(U, tol=float(rung))
        except Exception:  # noqa
            ctx.extra['onrung_single_rung_fails'] = ctx.extra.get('onrung_single_rung_fails', 0) + 1
        ctx.extra['onrung_cases'] = ctx.extra.get('onrung_cases', 0) + 1
        _oracle_rotate(ctx, am, sysm, fam, spos, U, d, U, 'int-list', True, 'rotate', tol=tol)
    # the identity shortcut and one more matrix under each of the 8 pbc settings
    for rep in range(ctx.n(2, 6) * scale):
        for pbc in PBCS:
            for U in (FIXED_U[0], rng.choice(FIXED_U[1:])):
                sysm, fam, spos = gen_system(rng, am, far=rng.random() < 0.5, pbc=pbc,
                                             history=gen_history(rng, pbc_ops=False) if rng.random() < 0.25 else None)
                arg, form, accepted = gen_uvws_form(rng, U)
                ctx.stats.case('oracle:rotate-pbc', (fam, repr(np.asarray(arg).tolist()), tuple(spos), tuple(pbc)))
                _oracle_rotate(ctx, am, sysm, fam, spos, [list(r) for r in U], _det3(U), arg, form, accepted, 'rotate')
    # hexagonal cells with 4-index vectors
    for it in range(ctx.n(60, 300) * scale):
        sysm, fam, spos, U, d, arg, form = gen_hex_case(rng, am)
        ctx.stats.case('oracle:rotate-hex', (repr(np.asarray(arg).tolist()), tuple(spos)))
        _oracle_rotate(ctx, am, sysm, fam, spos, U, d, arg, form, form != 'hex4-sum-not-zero', 'rotate-hex')
    # refusals of rotate
    sysm, fam, spos = gen_system(rng, am)
    for bad, why in [([[1, 0, 0], [2, 0, 0], [0, 0, 1]], 'parallel'), ([[1, 1, 0], [1, -1, 0], [2, 0, 0]], 'planar'),
                     ([[1.5, 0, 0], [0, 1, 0], [0, 0, 1]], 'non-integer'),
                     ([[1, 0, -1, 0], [0, 1, -1, 0], [0, 0, 0, 1]], '4-index vectors on a cell that is not hexagonal'),
                     ([[1, 0, 0], [0, 1, 0]], 'two vectors')]:
        ctx.stats.case('oracle:rotate-refusal', why)
        if why.startswith('4-index') and sysm.box.ishexagonal():
            continue
        try:
            sysm.rotate(bad)
            ctx.violate('rotate:refusal', f'rotate accepted {why} vectors {bad}', {'op': 'rotate-refusal', 'U': bad})
        except ValueError:
            pass
        except Exception as e:  # noqa
            ctx.violate('rotate:refusal', f'rotate raised {type(e).__name__} ({e}) instead of ValueError for {why} '
                        f'vectors {bad}', {'op': 'rotate-refusal', 'U': bad})
    _search_counts(ctx, rng, am, scale)
    _search_large(ctx, rng, am, scale)
    _search_conversions(ctx, rng, am)
    _search_p2c_direct(ctx, rng, am, scale)
    _search_oriented(ctx, am, scale)
    _search_scales(ctx, am, scale)
    _search_site_tolerance(ctx, am)


# ----------------------------------------------------------------------------------------------
# counts and thresholds: every replication count along one axis, totals around powers of two, large inputs
# ----------------------------------------------------------------------------------------------
def float_division_traps(limit):
    """counts k for which float bookkeeping of "k steps of 1/k" goes wrong in one of the usual ways: a float-step
    np.arange(0, 1, 1/k) one element too long, k * (1/k) != 1, int(1 / (1/k)) != k (computed with numpy, not read from the
    code under test): 49, 93, 98, 99, 103, 105, 107, 117, ..."""
    np = _np()
    return [k for k in range(1, limit + 1)
            if len(np.arange(0, 1, 1 / k)) != k or k * (1 / k) != 1.0 or int(1 / (1 / k)) != k]


def grid_system(am, rng, natoms, G=8192, fam_box=None):
    """a cell with `natoms` atoms at distinct points of the 1/G grid (exact), two types, a float and a unique integer
    per-atom property: large inputs without any float noise in the relative coordinates."""
    box, fam = fam_box or gen_box(rng, am)
    seen = set()
    while len(seen) < natoms:
        seen.add((rng.randrange(G), rng.randrange(G), rng.randrange(G)))
    pts = sorted(seen)
    rng.shuffle(pts)
    case = {'vects': box.vects.tolist(), 'origin': box.origin.tolist(), 'spos': [[x / G for x in pnt] for pnt in pts],
            'atype': [1 + (i % 2) for i in range(natoms)] if natoms > 1 else [1],
            'props': [['q', 'f', [((i * 37) % 64) / 16 - 2 for i in range(natoms)]], ['tag', 'i', list(range(1, natoms + 1))]],
            'pbc': [True, True, True], 'symbols': None, 'history': []}
    return build_system(am, case), fam, pts


def _fast_same_crystal(ctx, key, what, sysm, pts, G, new, T, count, replay, shifts=None, ranges=None):
    """the clauses of `_check_same_crystal`, vectorised for large results: the originals sit on the exact 1/G grid
    (`pts`: integer numerators), so "maps onto an original atom modulo the lattice" is a dictionary lookup of the nearest
    grid point of each result atom, the residual compared at the rounding bound; types and every per-atom value equal;
    each original `count` times with pairwise different lattice shifts (`shifts`: exactly these, as a set of integer
    triples, for supersize)."""
    np = _np()
    if new.natoms != count * sysm.natoms:
        ctx.violate(key + ':count', f'{what}: {new.natoms} atoms, expected {count} x {sysm.natoms}', replay)
        return False
    vol0, vol1 = abs(float(np.linalg.det(sysm.box.vects))), new.box.volume
    if not (vol1 > 0) or abs(vol1 - count * vol0) > 1e-8 * abs(vol1):
        ctx.violate(key + ':volume', f'{what}: volume {vol1}, expected {count} x {vol0}', replay)
        return False
    if sorted(new.atoms_prop()) != sorted(sysm.atoms_prop()) or tuple(new.symbols) != tuple(sysm.symbols):
        ctx.violate(key + ':properties', f'{what}: per-atom properties {sorted(new.atoms_prop())} / symbols {new.symbols}, '
                    f'original {sorted(sysm.atoms_prop())} / {sysm.symbols}', replay)
        return False
    tol = _tol_rel(np, sysm.box.vects, new.atoms.pos, sysm.box.origin, new.box.vects)
    rel = (new.atoms.pos @ T - sysm.box.origin) @ np.linalg.inv(sysm.box.vects)       # rows: T^T pos
    g = np.rint(rel * G)
    if np.abs(rel * G - g).max() > tol * G:
        k = int(np.abs(rel * G - g).max(axis=1).argmax())
        ctx.violate(key + ':member', f'{what}: result atom {k} sits at relative {rel[k].tolist()} of the original cell, '
                    f'{np.abs(rel[k] * G - g[k]).max() / G:.3g} of a cell from the nearest point of the 1/{G} grid all '
                    f'original atoms are on (rounding bound {tol:.1e})', replay)
        return False
    g = g.astype(np.int64)
    cellshift = np.floor_divide(g, G)
    site = g - cellshift * G
    index = {pnt: i for i, pnt in enumerate(pts)}
    orig = np.array([index.get(tuple(r), -1) for r in site.tolist()])
    if (orig < 0).any():
        k = int(np.where(orig < 0)[0][0])
        ctx.violate(key + ':member', f'{what}: result atom {k} (relative {rel[k].tolist()}) maps onto no original atom modulo '
                    f'the original lattice', replay)
        return False
    for name in sysm.atoms_prop():
        if name == 'pos':
            continue
        if not np.array_equal(np.asarray(new.atoms.view[name]), np.asarray(sysm.atoms.view[name])[orig]):
            k = int(np.where(np.asarray(new.atoms.view[name]) != np.asarray(sysm.atoms.view[name])[orig])[0][0])
            ctx.violate(key + ':member', f'{what}: result atom {k} maps onto original atom {int(orig[k])} but its {name!r} is '
                        f'{new.atoms.view[name][k]!r}, the original\'s {sysm.atoms.view[name][orig[k]]!r}', replay)
            return False
    hits = np.bincount(orig, minlength=sysm.natoms)
    if (hits != count).any():
        ctx.violate(key + ':representation', f'{what}: originals represented {sorted(set(hits.tolist()))} times, expected '
                    f'{count} each', replay)
        return False
    full = np.concatenate([orig[:, None], cellshift], axis=1)
    if len(np.unique(full, axis=0)) != new.natoms:
        ctx.violate(key + ':coincide', f'{what}: two result atoms are the same original atom in the same cell', replay)
        return False
    if shifts is not None and set(map(tuple, cellshift.tolist())) != shifts:
        ctx.violate(key + ':member', f'{what}: the replicas do not fill the cells {sorted(shifts)[:3]} .. of the supercell', replay)
        return False
    if ranges is not None:
        # (the same statement for results of 1e6 atoms without building the set: every cell shift within the ranges; with
        # each original `count` times in pairwise different cells that is every cell of the range product exactly once)
        lo, hi = np.array([r[0] for r in ranges]), np.array([r[1] for r in ranges])
        if not ((cellshift >= lo).all() and (cellshift < hi).all()):
            ctx.violate(key + ':member', f'{what}: replicas outside the cells {[list(r) for r in ranges]} of the supercell', replay)
            return False
    return True


def _kd_same_crystal(ctx, key, what, sysm, spos, new, T, count, replay, extra_tol=0.0):
    """the clauses of `_check_same_crystal`, vectorised for results of 1e5 .. 2e6 atoms, originals at ANY exact relative
    coordinates `spos` (atoms a hair off the faces of the new cell are on no grid): the original nearest to each result
    atom modulo the original lattice is looked up in a periodic k-d tree of the originals (scipy, relative coordinates
    modulo 1), the residual per coordinate is compared at the rounding bound, type and every per-atom value must be that
    original's; each original `count` times, in pairwise different cells of the original lattice."""
    np = _np()
    from scipy.spatial import cKDTree
    if new.natoms != count * sysm.natoms:
        ctx.violate(key + ':count', f'{what}: {new.natoms} atoms, expected {count} x {sysm.natoms}', replay)
        return False
    vol0, vol1 = abs(float(np.linalg.det(sysm.box.vects))), new.box.volume
    if not (vol1 > 0) or abs(vol1 - count * vol0) > 1e-8 * abs(vol1):
        ctx.violate(key + ':volume', f'{what}: volume {vol1}, expected {count} x {vol0}', replay)
        return False
    if tuple(new.symbols) != tuple(sysm.symbols):
        ctx.violate(key + ':symbols', f'{what}: atom types stand for {tuple(new.symbols)}, originally {tuple(sysm.symbols)}', replay)
        return False
    if sorted(new.atoms_prop()) != sorted(sysm.atoms_prop()):
        ctx.violate(key + ':properties', f'{what}: per-atom properties {sorted(new.atoms_prop())}, original has '
                    f'{sorted(sysm.atoms_prop())}', replay)
        return False
    tol = _tol_rel(np, sysm.box.vects, new.atoms.pos, sysm.box.origin, new.box.vects) + extra_tol
    stored = np.array([[float(x) for x in sp] for sp in spos], dtype=float).reshape(-1, 3)
    wrapped = np.array([[float(frac_mod1(Fraction(x))) for x in sp] for sp in spos], dtype=float).reshape(-1, 3)
    wrapped[wrapped >= 1.0] = 0.0
    rel = (new.atoms.pos @ T - sysm.box.origin) @ np.linalg.inv(sysm.box.vects)        # rows: T^T pos
    relm = rel - np.floor(rel)
    relm[relm >= 1.0] = 0.0
    _, idx = cKDTree(wrapped, boxsize=1.0).query(relm)
    d = rel - stored[idx]
    sh = np.rint(d)
    resid = np.abs(d - sh).max(axis=1)
    if resid.max() > tol:
        k = int(resid.argmax())
        ctx.violate(key + ':member', f'{what}: result atom {k} (type {int(new.atoms.atype[k])}, relative {rel[k].tolist()} in the '
                    f'original cell) maps onto no original atom modulo the original lattice: the nearest one is '
                    f'{resid[k]:.3g} of a cell away (rounding bound {tol:.1e})', replay)
        return False
    for name in sysm.atoms_prop():
        if name == 'pos':
            continue
        a, b = np.asarray(new.atoms.view[name]), np.asarray(sysm.atoms.view[name])[idx]
        if a.shape != b.shape or not np.array_equal(a, b):
            k = int(np.where((a != b).reshape(len(a), -1).any(axis=1))[0][0]) if a.shape == b.shape else 0
            ctx.violate(key + ':member', f'{what}: result atom {k} maps onto original atom {int(idx[k])} but its {name!r} is '
                        f'{np.asarray(new.atoms.view[name][k]).tolist()!r}, the original\'s '
                        f'{np.asarray(sysm.atoms.view[name][idx[k]]).tolist()!r}', replay)
            return False
    hits = np.bincount(idx, minlength=sysm.natoms)
    if (hits != count).any():
        ctx.violate(key + ':representation', f'{what}: originals represented {sorted(set(hits.tolist()))[:6]} times, expected '
                    f'{count} each', replay)
        return False
    full = np.concatenate([idx[:, None], sh.astype(np.int64)], axis=1)
    if len(np.unique(full, axis=0)) != new.natoms:
        ctx.violate(key + ':coincide', f'{what}: two result atoms are the same original atom in the same cell', replay)
        return False
    return True


def count_form(rng, n):
    """a replication count n along one axis as the multiplier argument: n, -n or a two-sided tuple (Python / numpy ints)."""
    np = _np()
    r = rng.randrange(4)
    if r == 0:
        return n
    if r == 1:
        return -n
    if r == 2:
        return rng.choice([np.int64, np.int32])(n * rng.choice([-1, 1]))
    lo = -rng.randint(0, n)
    return (lo, lo + n)


def _search_counts(ctx, rng, am, scale=1):
    """every replication count 1 .. 260 (thorough: 1 .. 1100 and the float-division trap values up to 5000) along one
    axis of small cells, through supersize directly and (a sample; thorough: many) through rotate, whose bounding supercell
    then spans that many cells; totals / input sizes around powers of two."""
    np = _np()
    I3 = np.eye(3)
    top = ctx.n(260, 1100)
    counts = list(range(1, top + 1)) + float_division_traps(5000 if ctx.thorough else 1100)
    counts = sorted(set(counts))
    traps = [k for k in float_division_traps(top)]
    ctx.extra['count_cases'] = {'supersize_counts': f'1..{top} + traps to ' + ('5000' if ctx.thorough else '1100'), 'traps': traps[:40]}
    G = 8
    for n in counts:
        natoms = 1 if n > 400 else rng.choice([1, 1, 2, 3])
        sysm, fam, pts = grid_system(am, rng, natoms, G=G)
        axis = rng.randrange(3)
        sizes = [rng.choice([1, 1, 1, 2, -1, (-1, 1)]) if n < 120 else 1 for _ in range(3)]
        sizes[axis] = count_form(rng, n)
        ns = [norm_size(x) for x in sizes]
        M = math.prod(h - l for l, h in ns)
        what = f'supersize{sizes_repr(sizes)} of a {natoms}-atom {fam} cell ({n} replicas along axis {axis})'
        replay = {'op': 'supersize', 'family': fam, 'case': sysm._c04, 'spos': sysm._c04['spos'], 'sizes': [list(x) for x in ns],
                  'sizes_given': sizes_repr(sizes)}
        ctx.stats.case('oracle:supersize-count', (n, axis, sizes_repr(sizes), natoms))
        try:
            new = sysm.supersize(*sizes)
        except Exception as e:  # noqa
            ctx.violate('supersize:raises', f'{what} raised {type(e).__name__}: {e} for valid integer multipliers', replay)
            continue
        shifts = set(itertools.product(*[range(l, h) for l, h in ns]))
        if _fast_same_crystal(ctx, 'supersize', what, sysm, pts, G, new, I3, M, replay, shifts=shifts):
            V0, o0 = sysm.box.vects, sysm.box.origin
            wantv = np.array([V0[i] * (ns[i][1] - ns[i][0]) for i in range(3)])
            wanto = o0 + sum(V0[i] * ns[i][0] for i in range(3))
            if not (np.allclose(new.box.vects, wantv, rtol=1e-12, atol=1e-9) and np.allclose(new.box.origin, wanto, rtol=1e-12, atol=1e-9)):
                ctx.violate('supersize:box', f'{what}: box {new.box.vects.tolist()} at {new.box.origin.tolist()}, expected the '
                            f'multiplied vectors {wantv.tolist()} at {wanto.tolist()}', replay)
    # two trap counts in one call
    for _ in range(ctx.n(3, 12)):
        sysm, fam, pts = grid_system(am, rng, 1, G=G)
        two = rng.sample([k for k in traps if k <= 130], 2)
        sizes = [1, 1, 1]
        ax = rng.sample(range(3), 2)
        sizes[ax[0]], sizes[ax[1]] = count_form(rng, two[0]), count_form(rng, two[1])
        ns = [norm_size(x) for x in sizes]
        M = math.prod(h - l for l, h in ns)
        what = f'supersize{sizes_repr(sizes)} of a 1-atom {fam} cell'
        replay = {'op': 'supersize', 'family': fam, 'case': sysm._c04, 'spos': sysm._c04['spos'], 'sizes': [list(x) for x in ns],
                  'sizes_given': sizes_repr(sizes)}
        ctx.stats.case('oracle:supersize-count', (tuple(two), tuple(ax), sizes_repr(sizes)))
        try:
            new = sysm.supersize(*sizes)
        except Exception as e:  # noqa
            ctx.violate('supersize:raises', f'{what} raised {type(e).__name__}: {e} for valid integer multipliers', replay)
            continue
        _fast_same_crystal(ctx, 'supersize', what, sysm, pts, G, new, I3, M, replay,
                           shifts=set(itertools.product(*[range(l, h) for l, h in ns])))
    # rotate: a bounding supercell spanning n cells along one axis (n - 2 of them inside the new cell): the trap values
    # below 120 on every run, a rotating sample of the others (thorough: every n up to 130 and every trap up to 260)
    small = [k for k in traps if k <= 120]
    spans = sorted(set(small + rng.sample(range(3, 130), ctx.n(6, 40) * scale) + rng.sample([k for k in traps if 120 < k <= 260] or [49], ctx.n(1, 6))
                       + (list(range(3, 131)) + [k for k in traps if k <= 260] if ctx.thorough else [])))
    for n in spans:
        sysm, fam, pts = grid_system(am, rng, rng.choice([1, 1, 2]), G=G)
        axis = rng.randrange(3)
        U = [[1 if i == j else 0 for j in range(3)] for i in range(3)]
        sg = rng.choice([-1, 1])
        k = rng.randint(0, min(n - 3, 12)) if (n > 3 and rng.random() < 0.5) else 0
        # the long vector [n-2-k, 0, 0] and a second one sheared by k <= 12 along it (larger shears against a short first
        # vector make the new cell vectors nearly parallel: the float error of normalize's transform grows with that
        # condition number beyond the derived bound): the corners span n - 2 cells (+ 2 of padding)
        U[axis][axis] = (n - 2 - k) * sg
        U[(axis + 1) % 3][axis] = k * sg
        d = _det3(U)
        spos = [tuple(Fraction(x, G) for x in pnt) for pnt in pts]
        ctx.stats.case('oracle:rotate-span', (n, repr(U), sysm.natoms))
        _oracle_rotate(ctx, am, sysm, fam + f'+span{n}', spos, U, d, U, 'int-list', True, 'rotate')
    # totals and input sizes around powers of two (one or two per run; thorough: all of them)
    big = [(1, (16, 16, 16)), (1, (17, 241, 1)), (1, (5, 9, 91)), (3, (1, 1365, 1)), (4095, (1, 1, 1)), (4096, (-1, 1, 1)),
           (4097, (1, 2, 1)), (2049, (1, 1, -2)), (1025, (2, 2, 1)), (1, (1, 1, 4097)), (1023, (1, -3, 1))]
    if ctx.thorough:
        big += [(1, (65537, 1, 1)), (1, (15, 17, 257)), (1, (16, 64, 64)), (65537, (1, 1, 1)), (65535, (1, 2, 1)), (8193, (2, 1, 2))]
    for natoms, sizes in big:
        gseed = rng.getrandbits(32)
        sysm, fam, pts = grid_system(am, random.Random(gseed), natoms)
        ns = [norm_size(x) for x in sizes]
        M = math.prod(h - l for l, h in ns)
        what = f'supersize{sizes} of a {natoms}-atom {fam} cell ({natoms * M} atoms)'
        replay = {'op': 'supersize-big', 'natoms': natoms, 'sizes': [list(x) for x in ns], 'grid_seed': gseed,
                  'vects': sysm.box.vects.tolist(), 'origin': sysm.box.origin.tolist()}
        ctx.stats.case('oracle:supersize-big', (natoms, sizes, fam))
        try:
            new = sysm.supersize(*sizes)
        except Exception as e:  # noqa
            ctx.violate('supersize:raises', f'{what} raised {type(e).__name__}: {e} for valid integer multipliers', replay)
            continue
        _fast_same_crystal(ctx, 'supersize', what, sysm, pts, 8192, new, I3, M, replay,
                           shifts=set(itertools.product(*[range(l, h) for l, h in ns])))
    # rotate of a large input (unimodular and small-determinant vectors)
    for natoms in (big_n for big_n in (rng.sample([1023, 1025, 2049, 4095, 4096], 1) + [4097] if not ctx.thorough
                                       else [1023, 1025, 2049, 4095, 4096, 4097, 8193])):
        gseed = rng.getrandbits(32)
        sysm, fam, pts = grid_system(am, random.Random(gseed), natoms)
        U = rng.choice([[[0, 1, 0], [0, 0, 1], [1, 0, 0]], [[1, 1, 0], [0, 1, 0], [0, 0, 1]], [[1, 0, 0], [0, 1, 0], [0, 0, 1]],
                        [[1, -1, 0], [1, 1, 0], [0, 0, 1]], [[2, 0, 0], [0, 1, 0], [0, 0, 1]]])
        d = _det3(U)
        what = f'rotate {U} of a {natoms}-atom {fam} cell'
        replay = {'op': 'rotate-big', 'natoms': natoms, 'U': U, 'grid_seed': gseed, 'vects': sysm.box.vects.tolist(),
                  'origin': sysm.box.origin.tolist()}
        ctx.stats.case('oracle:rotate-big', (natoms, repr(U), fam))
        try:
            new, T = sysm.rotate(U, return_transform=True)
        except Exception as e:  # noqa
            ctx.violate('rotate:raises', f'{what} raised {type(e).__name__}: {e}', replay)
            continue
        if _fast_same_crystal(ctx, 'rotate', what, sysm, pts, 8192, new, T, abs(d), replay):
            sp = new.atoms_prop('pos', scale=True)
            if sp.min() < -1e-9 or sp.max() > 1 + 1e-9 or not new.box.is_lammps_norm():
                ctx.violate('rotate:inside', f'{what}: atoms outside the new cell / cell not LAMMPS-compatible', replay)
            _check_new_vectors(ctx, 'rotate:vectors', what, sysm, U, new, T, replay)


# ----------------------------------------------------------------------------------------------
# large re-orientations: a bounding supercell of 5e5 .. 1e6 atoms (thorough: 2e6), atoms a hair off the new cell's faces
# ----------------------------------------------------------------------------------------------
# distances (relative to the NEW cell) far below the last rung 1e-7 of the default ladder, so that EVERY rung rounds the
# atom onto the face - the kept image is then the one just outside the new cell - and a few within / above the ladder
HAIRS_TINY = [Fraction(2, 10 ** 9), Fraction(13, 10 ** 9), Fraction(6, 10 ** 8)]
HAIRS_WIDE = [Fraction(3, 10 ** 7), Fraction(31, 10 ** 7), Fraction(43, 10 ** 6), Fraction(2, 10 ** 4)]


def _scaled_U(rng, kind, natoms, lo, hi):
    """integer vectors whose bounding supercell (8 corners -/+ 1) holds between `lo` and `hi` atoms for `natoms` atoms per
    cell. `orthogonal`: a signed permutation times a diagonal (isotropic or strongly anisotropic); `triangular`: lower
    triangular with shears of up to 12 (the new a along the old a, the new b in the old ab plane); `general`: the rows of
    a small matrix of either handedness multiplied by large integers. Entries stay below 260."""
    while True:
        cells = rng.uniform(lo, hi) / natoms
        if rng.random() < 0.5:
            n = [max(3, round(cells ** (1 / 3)) - 2 + rng.randint(-3, 3)) for _ in range(3)]
        else:
            n1 = rng.randint(8, 160)
            n2 = rng.randint(8, min(160, max(8, int(cells / (n1 + 2) / 8))))
            n = [n1, n2, max(3, round(cells / ((n1 + 2) * (n2 + 2))) - 2)]
            rng.shuffle(n)
        n = [x * rng.choice([-1, 1]) for x in n]
        if kind == 'orthogonal':
            perm = rng.sample(range(3), 3)
            U = [[(n[i] if j == perm[i] else 0) for j in range(3)] for i in range(3)]
        elif kind == 'triangular':
            U = [[n[0], 0, 0], [rng.randint(-12, 12), n[1], 0], [rng.randint(-12, 12), rng.randint(-12, 12), n[2]]]
        else:
            U0, _ = gen_U(rng, maxdet=3)
            m = [max(2, abs(x) // 2) * (1 if x > 0 else -1) for x in n]
            U = [[m[i] * U0[i][j] for j in range(3)] for i in range(3)]
        if _det3(U) != 0 and max(abs(x) for r in U for x in r) <= 260 and lo <= supercell_cells(U) * natoms <= hi:
            return U, _det3(U)


def gen_large_rotate(rng, am, kind, lo, hi):
    """a few-atom cell and integer vectors with a bounding supercell of `lo` .. `hi` atoms: 1-3 atoms on the 1/8 grid (faces
    included), and for EACH axis of the new cell one atom a hair (2e-9 .. 6e-8 of the new cell: below every rung of the
    ladder) off the face of the new cell across that axis - so the image every rung keeps lies just outside the new
    cell, where only the padding of the bounding supercell holds it - plus one more 3e-7 .. 2e-4 off a face on either side.
    `orthogonal`: an orthogonal cell in the LAMMPS orientation (the new cell's faces are axis-aligned planes of the
    Cartesian frame); `triangular`: any LAMMPS-oriented cell (the new ab face is the plane z = const); `general`: any cell.
    -> (system, family, spos, U, det)"""
    np = _np()
    org = rng.choice([[0.0, 0.0, 0.0], [cm.dyadic(rng, -3, 3, 2) for _ in range(3)], 'lattice', 'hair'])
    while True:
        if kind == 'orthogonal':
            a = rng.choice([2.0, 2.5, 3.0, 3.3, 4.0])
            fam = rng.choice(['cubic', 'tetragonal', 'orthorhombic'])
            b = a if fam != 'orthorhombic' else rng.choice([2.75, 3.5, 3.7])
            c = a if fam == 'cubic' else rng.choice([3.75, 4.1, 5.25])
            box = am.Box(a=a, b=b, c=c)
        else:
            box, fam = _gen_box(rng, am)
            if kind == 'triangular' and (fam in ('general', 'lefthanded') or not _is_lammps_normal(np, box.vects)):
                continue
        break
    if isinstance(org, str):
        # the box origin a lattice vector / a hair below a lattice plane (the lattice translation of rotate decides)
        nrel = np.array([rng.randint(-2, 2) - (rng.choice([1.3e-13, 1.7e-9, 1.3e-6]) if org == 'hair' else 0.0) for _ in range(3)])
        org = (nrel @ box.vects).tolist()
    box = am.Box(vects=box.vects, origin=org)
    while True:
        U, d = _scaled_U(rng, kind, 6, lo, hi)

        def extra(bx):
            out = [near_face_spos(rng, U, bx, delta=rng.choice(HAIRS_TINY), below=True, axis=j) for j in range(3)]
            out.append(near_face_spos(rng, U, bx, delta=rng.choice(HAIRS_WIDE + HAIRS_TINY), below=rng.random() < 0.5))
            return out

        sysm, fam2, spos = gen_system(rng, am, fam_box=(box, fam + f'+large-{kind}'), extra=extra, far=rng.random() < 0.5,
                                      pbc=[True, True, True])
        if lo <= supercell_cells(U) * sysm.natoms <= 1.2 * hi:
            break
    # (light per-atom data: a float and a unique integer - the bounding supercell carries every property 1e6 times)
    case = dict(sysm._c04, props=[['q', 'f', [((i * 37) % 64) / 16 - 2 for i in range(sysm.natoms)]],
                                  ['tag', 'i', list(range(1, sysm.natoms + 1))]])
    return build_system(am, case), fam2, spos, U, d


def _large_grid_case(am, gseed, natoms, U):
    """a cell of `natoms` atoms: natoms - 3 on the exact 1/8192 grid and three a hair below the lower faces of the new cell
    U.vects (on no grid); everything derived from `gseed` -> (system, family, spos, the three)"""
    grng = random.Random(gseed)
    while True:
        fam_box = _gen_box(grng, am)
        if fam_box[1] not in ('general', 'lefthanded'):
            break
    g, fam, pts = grid_system(am, grng, natoms - 3, fam_box=fam_box)
    hair = [near_face_spos(grng, U, g.box, delta=grng.choice(HAIRS_TINY), below=True, axis=j) for j in range(3)]
    case = dict(g._c04)
    case['spos'] = case['spos'] + [[float(x) for x in h] for h in hair]
    case['atype'] = case['atype'] + [1, 2, 1]
    case['props'] = [['q', 'f', case['props'][0][2] + [0.5, -0.25, 1.5]], ['tag', 'i', list(range(1, natoms + 1))]]
    spos = [tuple(Fraction(x, 8192) for x in pnt) for pnt in pts] + [tuple(h) for h in hair]
    return build_system(am, case), fam, spos, hair


def _oracle_large_grid(ctx, am, gseed, natoms, U):
    np = _np()
    sysm, fam, spos, hair = _large_grid_case(am, gseed, natoms, U)
    d = _det3(U)
    what = f'rotate {U} of a {natoms}-atom {fam} cell (bounding supercell {supercell_cells(U) * natoms} atoms)'
    replay = {'op': 'rotate-large-grid', 'natoms': natoms, 'U': U, 'grid_seed': gseed}
    try:
        new, T = sysm.rotate(U, return_transform=True)
    except Exception as e:  # noqa
        ctx.violate('rotate:raises', f'{what} raised {type(e).__name__}: {e}; the last three atoms sit at relative '
                    f'{[[float(x) for x in h] for h in hair]}, a hair below the lower faces of the new cell', replay)
        return fam
    if _kd_same_crystal(ctx, 'rotate', what, sysm, spos, new, T, abs(d), replay):
        sp = np.linalg.solve(new.box.vects.T, (new.atoms.pos - new.box.origin).T).T
        if sp.min() < -1e-9 or sp.max() > 1 + 1e-9 or not _is_lammps_normal(np, new.box.vects):
            ctx.violate('rotate:inside', f'{what}: atoms outside the new cell / cell not LAMMPS-compatible', replay)
        _check_new_vectors(ctx, 'rotate:vectors', what, sysm, U, new, T, replay)
    return fam


def _search_large(ctx, rng, am, scale=1):
    """thresholds in the SIZE of rotate's bounding supercell (fast paths / pre-filters that switch on above some number of
    atoms): per run two re-orientations of few-atom cells with a bounding supercell of 5.2e5 .. 1.05e6 atoms (one with
    axis-aligned faces, one sheared or general), one of a cell of 9000 .. 21000 atoms along small vectors (the same
    supercell size reached the other way), and a supersize of that size; thorough: every kind, and 2e6 atoms."""
    np = _np()
    I3 = np.eye(3)
    kinds = ['orthogonal', rng.choice(['triangular', 'general'])]
    if ctx.thorough or scale > 1:
        kinds = ['orthogonal', 'triangular', 'general', 'orthogonal']
    sizes = [(5.2e5, 1.05e6)] * len(kinds)
    if ctx.thorough:
        kinds, sizes = kinds + ['orthogonal', 'triangular'], sizes + [(2.0e6, 2.6e6), (1.1e6, 2.0e6)]
    for kind, (lo, hi) in zip(kinds, sizes):
        sysm, fam, spos, U, d = gen_large_rotate(rng, am, kind, lo, hi)
        nsc = supercell_cells(U) * sysm.natoms
        ctx.stats.case('oracle:rotate-large', (kind, repr(U), tuple(spos)),
                       sample={'op': 'rotate-large', 'kind': kind, 'family': fam, 'U': U, 'natoms': sysm.natoms,
                               'bounding_supercell_atoms': nsc, 'result_atoms': abs(d) * sysm.natoms})
        ctx.extra.setdefault('large_rotate_supercell_atoms', []).append(nsc)
        _oracle_rotate(ctx, am, sysm, fam, spos, U, d, U, 'int-list', True, 'rotate', big=True)
    # the same size reached with MANY atoms per cell and small vectors
    for _ in range(1 if not ctx.thorough else 3):
        U = [list(r) for r in rng.choice([[[2, 0, 0], [0, 2, 0], [0, 0, 1]], [[1, 1, 0], [-1, 1, 0], [0, 0, 2]],
                                          [[3, 0, 0], [0, 1, 0], [0, 0, 1]], [[0, 1, 0], [0, 0, 1], [1, 0, 0]],
                                          [[-2, 0, 0], [0, 2, 0], [0, 0, 2]], [[1, 0, 0], [1, 2, 0], [0, 0, -1]]])]
        natoms = int(rng.uniform(5.3e5, 1.0e6) / supercell_cells(U)) + 1
        gseed = rng.getrandbits(32)
        ctx.stats.case('oracle:rotate-large', ('many-atoms', natoms, repr(U), gseed),
                       sample={'op': 'rotate-large', 'kind': 'many-atoms', 'U': U, 'natoms': natoms,
                               'bounding_supercell_atoms': supercell_cells(U) * natoms})
        ctx.extra.setdefault('large_rotate_supercell_atoms', []).append(supercell_cells(U) * natoms)
        _oracle_large_grid(ctx, am, gseed, natoms, U)
    # supersize to 5e5 .. 1.05e6 atoms (thorough: all of them)
    bigs = [(1, (81, 81, 80)), (2, (64, 64, 65)), (1, (1, 1, 524289)), (3, (-70, 50, 50)), (1, (1024, (-256, 257), 1)),
            (1, (100, -100, 101)), (5, (47, 47, 48)), (2049, (16, 16, 1)), (65537, (2, 2, 2))]
    for natoms, sizes in (bigs if ctx.thorough else rng.sample(bigs, 1 if scale == 1 else 3)):
        gseed = rng.getrandbits(32)
        sysm, fam, pts = grid_system(am, random.Random(gseed), natoms)
        ns = [norm_size(x) for x in sizes]
        M = math.prod(h - l for l, h in ns)
        what = f'supersize{sizes} of a {natoms}-atom {fam} cell ({natoms * M} atoms)'
        replay = {'op': 'supersize-big', 'natoms': natoms, 'sizes': [list(x) for x in ns], 'grid_seed': gseed,
                  'vects': sysm.box.vects.tolist(), 'origin': sysm.box.origin.tolist()}
        ctx.stats.case('oracle:supersize-large', (natoms, sizes, fam), sample={'op': 'supersize-large', 'natoms': natoms,
                                                                               'sizes': [list(x) for x in ns], 'total': natoms * M})
        try:
            new = sysm.supersize(*sizes)
        except Exception as e:  # noqa
            ctx.violate('supersize:raises', f'{what} raised {type(e).__name__}: {e} for valid integer multipliers', replay)
            continue
        _fast_same_crystal(ctx, 'supersize', what, sysm, pts, 8192, new, I3, M, replay, ranges=ns)



# lattice sites of the conventional cell per setting: numerators over the denominator
CONV_SITES = {
    'p': (1, [(0, 0, 0)]),
    'i': (2, [(0, 0, 0), (1, 1, 1)]),
    'f': (2, [(0, 0, 0), (1, 1, 0), (1, 0, 1), (0, 1, 1)]),
    'a': (2, [(0, 0, 0), (0, 1, 1)]),
    'b': (2, [(0, 0, 0), (1, 0, 1)]),
    'c': (2, [(0, 0, 0), (1, 1, 0)]),
    't1': (3, [(0, 0, 0), (2, 1, 1), (1, 2, 2)]),
    't2': (3, [(0, 0, 0), (1, 2, 1), (2, 1, 2)]),
}
NLAT = {k: len(v[1]) for k, v in CONV_SITES.items()}
# crystal families for which the code accepts the setting (check_setting_basis)
CONV_FAMILIES = {'p': ['cubic', 'hexagonal', 'tetragonal', 'rhombohedral', 'orthorhombic', 'monoclinic', 'triclinic'],
                 'i': ['orthorhombic', 'tetragonal', 'cubic'], 'f': ['orthorhombic', 'cubic'],
                 'a': ['monoclinic', 'orthorhombic'], 'b': ['monoclinic', 'orthorhombic'],
                 'c': ['monoclinic', 'orthorhombic'], 't1': ['hexagonal'], 't2': ['hexagonal']}


# coincidentally EQUAL lattice constants / angles per crystal family: label -> is the cell still a member of the family
# by the library's own definition (the preconditions of Box.orthorhombic / monoclinic / triclinic: a != b and a != c,
# alpha != beta and alpha != gamma - nothing about b vs c or beta vs gamma; Box.hexagonal: nothing about c vs a).
# Members must be converted with the default check_family=True; the others (an axis-permuted tetragonal metric, ...) only
# with check_family=False, the documented switch for non-conventional cells.
EQUAL_PATTERNS = {
    'orthorhombic': {'b=c': True, 'a=c': False, 'a=b': False},
    'monoclinic': {'b=c': True, 'a=c': False, 'a=b': False, 'a=b=c': False},
    'triclinic': {'b=c': True, 'beta=gamma': True, 'b=c,beta=gamma': True, 'a=b': False, 'a=c': False, 'a=b=c': False,
                  'alpha=beta': False, 'alpha=gamma': False},
    'hexagonal': {'c=a': True},
}


def family_member(fam, a, b, c, al, be, ga):
    """does the library's own constructor for the family take these constants (the independent statement of what a cell
    of the family is)? None when the family has no constraint to violate here."""
    import atomman as am
    try:
        if fam == 'orthorhombic':
            am.Box.orthorhombic(a, b, c)
        elif fam == 'monoclinic':
            am.Box.monoclinic(a, b, c, be)
        elif fam == 'triclinic':
            am.Box.triclinic(a, b, c, al, be, ga)
        else:
            # (hexagonal: c = a does not change the symmetry of a hexagonal lattice, the cell stays a hexagonal cell - the
            # predicate Box.ishexagonal does not look at c; the constructor Box.hexagonal refuses a == c, it cannot tell
            # the call from a cubic one)
            return None
        return True
    except ValueError:
        return False


def gen_conv_box(rng, am, setting, plain=False, equal=False):
    """(box, family label, member): `equal` - two or three of the lattice constants (or two angles) coincide; `member` -
    the cell is a cell of the family by the library's definition (then check_family=True must accept it)."""
    fam = (equal[0] if isinstance(equal, tuple) else
           rng.choice([f for f in CONV_FAMILIES[setting] if f in EQUAL_PATTERNS] if equal else CONV_FAMILIES[setting]))
    a, b, c = rng.choice([3.0, 3.25, 4.0]), rng.choice([4.5, 5.0]), rng.choice([5.75, 6.5, 7.0])
    org = [cm.dyadic(rng, -3, 3, 2) for _ in range(3)] if (rng.random() < 0.5 and not plain) else [0.0, 0.0, 0.0]
    al, be, ga = 90.0, 90.0, 90.0
    if fam == 'monoclinic':
        be = rng.choice([95.0, 104.5, 110.0])
    elif fam == 'triclinic':
        al, be, ga = rng.choice([81.0, 97.0]), rng.choice([75.0, 104.0]), rng.choice([66.0, 101.0])
    member, label = True, fam
    if equal:
        pat = equal[1] if isinstance(equal, tuple) else rng.choice(sorted(EQUAL_PATTERNS[fam]))
        member, label = EQUAL_PATTERNS[fam][pat], f'{fam}[{pat}]'
        for eq in pat.split(','):
            if eq == 'b=c':
                c = b
            elif eq == 'a=c':
                c = a
            elif eq == 'a=b':
                b = a
            elif eq == 'a=b=c':
                b = c = a
            elif eq == 'c=a':
                c = a
            elif eq == 'beta=gamma':
                ga = be = rng.choice([75.0, 101.0])
            elif eq == 'alpha=beta':
                al = be = rng.choice([81.0, 97.0])
            elif eq == 'alpha=gamma':
                al = ga = rng.choice([81.0, 97.0])
        if family_member(fam, a, b, c, al, be, ga) not in (member, None):
            raise AssertionError(f'{label}: the family constructor of the library and EQUAL_PATTERNS disagree')
    if fam == 'cubic':
        box = am.Box(a=a, b=a, c=a, origin=org)
    elif fam == 'tetragonal':
        box = am.Box(a=a, b=a, c=c, origin=org)
    elif fam == 'hexagonal':
        box = am.Box(a=a, b=a, c=c, gamma=120, origin=org)
    elif fam == 'rhombohedral':
        al = rng.choice([60.0, 75.0, 100.0])
        box = am.Box(a=a, b=a, c=a, alpha=al, beta=al, gamma=al, origin=org)
    else:   # orthorhombic, monoclinic, triclinic
        box = am.Box(a=a, b=b, c=c, alpha=al, beta=be, gamma=ga, origin=org)
    return box, label, member


ORIENTS = ['rotated', 'lefthanded', 'mirror-rotated', 'permuted']


def orient_box(rng, am, box, fam, orient):
    """the same cell in another orientation / handedness (lengths and angles - the crystal family - unchanged): `rotated`
    rigidly by a rational rotation; `lefthanded`: one or all three Cartesian axes mirrored (a left-handed description in
    an axis-aligned orientation); `mirror-rotated`: mirrored and rotated; `permuted`: the Cartesian axes permuted
    (cyclic: a rotation, a swap: left-handed). Relative coordinates keep their meaning."""
    np = _np()
    if orient == 'rotated':
        return reorient(rng, am, box), fam + '-reoriented'
    if orient == 'lefthanded':
        sg = rng.choice([(1, 1, -1), (1, -1, 1), (-1, 1, 1), (-1, -1, -1)])
        return am.Box(vects=box.vects * np.array(sg, dtype=float), origin=box.origin), fam + '-lefthanded'
    if orient == 'mirror-rotated':
        Q = rational_rotation(rng) @ np.diag([1.0, 1.0, -1.0])
        return am.Box(vects=box.vects @ Q.T, origin=box.origin), fam + '-lefthanded-reoriented'
    if orient == 'permuted':
        perm = rng.choice([(1, 2, 0), (2, 0, 1), (1, 0, 2), (0, 2, 1), (2, 1, 0)])
        return am.Box(vects=box.vects[:, list(perm)], origin=box.origin), fam + '-axes' + ''.join('xyz'[i] for i in perm)
    raise ValueError(orient)


def gen_conv_case(rng, am, setting, mode='random', equal=False, decimals=None, cell_noise=False, nmotif=None, orient=None):
    """a conventional cell of the setting: 1-3 motif atoms per lattice point (the first one, type 1, on the lattice
    points; types, charges and tags are functions of the motif atom - the crystal has the primitive periodicity).
    Storage: `plain` = every coordinate in [0, 1); otherwise a coordinate 0 is stored as 1.0 (the far face / edge /
    corner of the cell) with probability 1/2 (`far`: always) and a quarter of the atoms are stored outside the cell,
    one cell vector away along each axis."""
    den, sites = CONV_SITES[setting]
    while True:
        nm = nmotif or rng.randint(1, 3)
        motif = [(Fraction(0), Fraction(0), Fraction(0))]
        while len(motif) < nm:
            motif.append(tuple(Fraction(rng.randint(0, 15), 16) for _ in range(3)))
        exact, midx = [], []
        for st in sites:
            for j, off in enumerate(motif):
                exact.append(tuple(frac_mod1(Fraction(st[k], den) + off[k]) for k in range(3)))
                midx.append(j)
        if all(max(circ(x[k], y[k]) for k in range(3)) > 1e-3 for x, y in itertools.combinations(exact, 2)):
            break
    mtype = [1] + [rng.randint(1, 3) for _ in range(nm - 1)]
    remap = {t: i + 1 for i, t in enumerate(sorted(set(mtype)))}
    mtype = [remap[t] for t in mtype]
    mq = [cm.dyadic(rng, -2, 2, 2) for _ in range(nm)]
    mtag = rng.sample(range(1, max(50, 2 * nm)), nm)
    stored = []
    for sx in exact:
        t = list(sx)
        if mode not in ('plain', 'offset'):
            if mode != 'far' and rng.random() < 0.25:
                # one cell vector outside (the periodic lookup of the code, System.dmag, is a minimum-image search
                # over the neighbouring cells: atoms further out are outside its - and C01's - domain)
                t = [t[k] + rng.randint(-1, 1) for k in range(3)]
            else:
                for k in range(3):
                    if t[k] == 0 and (mode == 'far' or rng.random() < 0.5):
                        t[k] = Fraction(1)
        stored.append(tuple(t))
    box, fam, member = gen_conv_box(rng, am, setting, plain=(mode == 'plain'), equal=equal)
    if mode == 'random' and rng.random() < 1 / 6:
        box, fam = reorient(rng, am, box), fam + '-reoriented'
    if orient:
        box, fam = orient_box(rng, am, box, fam, orient)
    shift = [Fraction(0)] * 3
    if mode == 'offset':
        # the whole crystal displaced rigidly: no atom on the lattice points, one (or several) a little off them
        # (documented use with check_basis=False); not closer than 1e-5 of a cell: the code declares an atom within
        # 1e-8 length units of a lattice point to be on it
        # (half of the time every component is small: the whole displacement stays below 0.01 length units, the range in
        # which a widened "is there an atom at the origin" test of the re-centring step would still bite)
        # (values whose sums and differences, halved or divided by three - the relative coordinates in the 2x2x2 / 3x3x3
        # primitive supercell rotate cuts out - are never a rung 1e-4 .. 1e-7 of rotate's tolerance ladder: an atom
        # exactly one rung from a face is the documented knife edge of the ladder, see docs)
        mags = ([Fraction(13, 10 ** 6), Fraction(17, 10 ** 5), Fraction(29, 10 ** 5)] if rng.random() < 0.5 else
                [Fraction(13, 10 ** 6), Fraction(11, 10 ** 4), Fraction(29, 10 ** 4), Fraction(11, 10 ** 3)])
        shift = [rng.choice([-1, 1]) * rng.choice(mags) for _ in range(3)]
        stored = [tuple(t[k] + shift[k] for k in range(3)) for t in stored]
    # names of the two per-atom properties (a float and an integer), the periodicity flags (a flag other than fully
    # periodic only where every coordinate is stored in [0, 1): the lattice-site test looks atoms up with the system's own
    # flags) and what was done to the object before (isotropic dilations with the relative coordinates held: the crystal
    # family and the lattice sites survive)
    names = rng.sample(NAME_POOL, 2)
    tolerance = {}
    if decimals is not None:
        # the tolerance dimension: the cell is scaled by an odd factor (nothing is a short decimal number any more) and the
        # CARTESIAN coordinates are then rounded to `decimals` places, as a structure file holds them; the lattice-site
        # test needs the caller's (documented) looser `atol`, an absolute Cartesian distance: one decade above the rounding
        # unit (the rounding error is at most 0.87 units); `rtol` only enters the family test (isclose against 0.0 for the
        # sites): any value that keeps constants 5 % apart distinct is as good as the default
        tolerance = {'decimals': decimals, 'scale': rng.choice([1.0123457, 0.9871239, 1.1000003]),
                     'atol': 10.0 ** (1 - decimals), 'rtol': rng.choice([None, None, 1e-5, 1e-7, 1e-3, 0.0]),
                     # the documented small shift of the primitive-cell cut, now and then given explicitly
                     'smallshift': rng.choice([None, None, None, [0.002, 0.001, 0.003], (0.001, 0.001, 0.001)])}
        if cell_noise:
            # ... and the cell itself is only nearly a cell of its family: strained by up to 5e-5 in every component
            # (lengths off by 1.5e-4 relative, angles by 3e-3 degrees - beyond what numpy's default rtol of 1e-5 lets pass
            # against 90 degrees), converted with the rtol a caller would give for such a cell (2.5e-3; the generated
            # constants differ by 6 % or more where they differ)
            tolerance['cell_noise'] = [[rng.choice([-5e-5, 0.0, 3e-5, 5e-5]) for _ in range(3)] for _ in range(3)]
            tolerance['rtol'] = 2.5e-3
    return {'setting': setting, 'family': fam, 'family_member': member, 'mode': mode, **tolerance,
            'vects': box.vects.tolist(), 'origin': box.origin.tolist(),
            'shift': [[x.numerator, x.denominator] for x in shift],
            'symbols': rng.sample(['Al', 'Ni', 'Cu', 'Fe', 'O'], len(set(mtype))) if rng.random() < 0.5 else None,
            'stored': [[float(x) for x in t] for t in stored], 'atype': [mtype[j] for j in midx],
            'q': [mq[j] for j in midx], 'tag': [mtag[j] for j in midx], 'names': names,
            'pbc': gen_pbc(rng) if mode in ('plain', 'offset') else [True, True, True],
            'history': gen_history(rng, iso=True, keep_rel=True, pbc_ops=False) if (mode == 'random' and rng.random() < 0.4) else []}


def build_conv(am, case):
    np = _np()
    from collections import OrderedDict
    nq, nt = case.get('names', ['q', 'tag'])
    prop = OrderedDict(atype=np.array(case['atype'], dtype=int), pos=np.array(case['stored'], dtype=float))
    prop[nq] = np.array(case['q'], dtype=float)
    prop[nt] = np.array(case['tag'], dtype=int)
    ls = float(case.get('length_scale', 1.0))       # the cell written in another length unit (see build_system)
    conv = am.System(atoms=am.Atoms(prop=prop), box=am.Box(vects=np.array(case['vects'], dtype=float) * ls,
                                                            origin=np.array(case['origin'], dtype=float) * ls), scale=True,
                     pbc=case.get('pbc', (True, True, True)), symbols=case.get('symbols'))
    for op in case.get('history', []):
        apply_op(conv, op)
    if case.get('decimals') is not None:
        f = case['scale']
        conv.box_set(vects=conv.box.vects * f, origin=conv.box.origin * f, scale=True)
        if case.get('cell_noise'):
            conv.box_set(vects=conv.box.vects @ (np.eye(3) + np.array(case['cell_noise'])), origin=conv.box.origin, scale=True)
        conv.atoms.pos = np.round(conv.atoms.pos, case['decimals'])
    return conv


def gen_mixed_case(rng, am, setting):
    """a cell that is NOT compatible with the (centred) setting because one of its lattice sites holds an atom of
    another type than the site at the origin: B2 given as 'i', L1_2 as 'f', a two-type C-net as 'c', ... The centring
    translation is no symmetry of the typed crystal, so no primitive cell of that setting describes it: refusal is the
    required outcome - whatever the types are called (symbols unset / all different / two types sharing a symbol)."""
    case = gen_conv_case(rng, am, setting, mode=rng.choice(['plain', 'plain', 'far', 'random']))
    case['history'] = []
    nsites = NLAT[setting]
    per = len(case['atype']) // nsites
    k = rng.randrange(1, nsites) * per          # the atom on a centring site (never the one at the origin)
    ntypes = max(case['atype'])
    other = [t for t in range(1, ntypes + 2) if t != case['atype'][k]]
    case['atype'][k] = rng.choice(other)
    ntypes = max(case['atype'])
    r = rng.random()
    if r < 0.4:
        case['symbols'], case['symbols_kind'] = None, 'unset'
    elif r < 0.7:
        case['symbols'], case['symbols_kind'] = rng.sample(['Al', 'Ni', 'Cu', 'Fe', 'O'], ntypes), 'distinct'
    else:
        sy = rng.sample(['Al', 'Ni', 'Cu', 'Fe', 'O'], ntypes)
        sy[case['atype'][k] - 1] = sy[0]        # the odd site's type is called like the origin site's type (type 1)
        case['symbols'], case['symbols_kind'] = sy, 'shared'
    case['mixed_site_atom'] = k
    case['op'] = 'conversion-mixed'
    case['call_setting'] = 't' if setting[0] == 't' and rng.random() < 0.3 else setting
    return case


def _run_mixed(ctx, am, case):
    """conventional_to_primitive of an incompatible multi-type cell must refuse (ValueError)."""
    np = _np()
    setting = case['setting']
    conv = build_conv(am, case)
    comp = {int(t): int(np.sum(conv.atoms.atype == t)) for t in np.unique(conv.atoms.atype)}
    what = (f"{case['family']} cell, setting {setting}" + (" (called with 't')" if case['call_setting'] != setting else '')
            + f", symbols {case['symbols']} ({case['symbols_kind']}), atom types {case['atype']} at relative positions "
            f"{case['stored']}: the lattice site holding atom {case['mixed_site_atom']} has type "
            f"{case['atype'][case['mixed_site_atom']]}, the site at the origin type {case['atype'][0]}")
    try:
        prim = conv.dump('conventional_to_primitive', setting=case['call_setting'])
    except ValueError:
        return
    except Exception as e:  # noqa
        ctx.violate('conversion:mixed-raises', f'conventional_to_primitive raised {type(e).__name__}: {e} instead of its '
                    f'documented ValueError for an incompatible {what}', case)
        return
    pcomp = {int(t): int(np.sum(prim.atoms.atype == t)) * NLAT[setting] for t in np.unique(prim.atoms.atype)}
    ctx.violate('conversion:mixed-accepted', f'conventional_to_primitive accepted an incompatible {what}; the primitive cell x '
                f'{NLAT[setting]} holds atoms per type {pcomp} (volume {prim.box.volume * NLAT[setting]:.6g}), the conventional '
                f'cell {comp} (volume {conv.box.volume:.6g}): not the same crystal', case)


def conv_exact_spos(case):
    """the exact relative coordinates (sixteenths + halves / thirds, + the rigid shift) the stored floats stand for."""
    sh = [Fraction(a, b) for a, b in case.get('shift', [[0, 1]] * 3)]
    return [tuple((Fraction(x) - sh[k]).limit_denominator(48) + sh[k] for k, x in enumerate(t)) for t in case['stored']]


def _search_conversions(ctx, rng, am):
    """conventional -> primitive -> conventional: re-expressions that undo one another."""
    for setting in CONV_SITES:
        for variant in range(ctx.n(16, 80)):
            mode = ('plain', 'far', 'offset')[variant] if variant < 3 else rng.choice(['random'] * 5 + ['offset'])
            case = gen_conv_case(rng, am, setting, mode=mode)
            case['op'] = 'conversion'
            # 't': the code decides between t1 and t2 itself; check_basis=False skips the lattice-site test
            case['call_setting'] = 't' if setting[0] == 't' and mode != 'offset' and rng.random() < 0.35 else setting
            case['check_basis'] = not (mode == 'offset' or (variant >= 3 and rng.random() < 0.2 and case['call_setting'] != 't'))
            ctx.stats.case('oracle:conversion', (setting, repr(case['stored']), case['call_setting'], repr(case['vects'])),
                           sample={'op': 'c2p->p2c', 'setting': setting, 'family': case['family'],
                                   'natoms': len(case['atype']), 'storage': case['mode']})
            if case['check_basis'] and rng.random() < 0.1:
                case['check_family'] = False        # (the documented switch, on a cell that would pass the family test)
            _run_conversion(ctx, am, case)
        # ORIENTATIONS: the conventional cell of every setting rotated rigidly / described left-handed / mirrored and
        # rotated / with the Cartesian axes permuted (none of them LAMMPS-oriented): the conversion is a re-expression
        # like any other - result LAMMPS-compatible, every atom inside, the same crystal
        for orient in ORIENTS * ctx.n(1, 3):
            case = gen_conv_case(rng, am, setting, mode=rng.choice(['plain', 'far', 'random']), orient=orient)
            case['op'], case['check_basis'] = 'conversion', True
            case['call_setting'] = 't' if setting[0] == 't' and rng.random() < 0.35 else setting
            ctx.stats.case('oracle:conversion-oriented', (setting, orient, repr(case['stored']), repr(case['vects'])),
                           sample={'op': 'c2p->p2c', 'setting': setting, 'family': case['family'], 'orientation': orient,
                                   'storage': case['mode']})
            ctx.extra.setdefault('conversion_orientations', {})
            ctx.extra['conversion_orientations'][orient] = ctx.extra['conversion_orientations'].get(orient, 0) + 1
            _run_conversion(ctx, am, case)
        # coincidentally EQUAL lattice constants / angles (b = c, a = c, a = b = c with oblique angles, beta = gamma,
        # hexagonal c = a): members of the family by the library's own definition with the default check_family=True, the
        # others with check_family=False
        if any(f in EQUAL_PATTERNS for f in CONV_FAMILIES[setting]):
            pats = [(f, pt) for f in CONV_FAMILIES[setting] if f in EQUAL_PATTERNS for pt in sorted(EQUAL_PATTERNS[f])]
            members = [x for x in pats if EQUAL_PATTERNS[x[0]][x[1]]]
            others = [x for x in pats if not EQUAL_PATTERNS[x[0]][x[1]]]
            # every member pattern of every family of the setting on every run (twice for the centred settings), and a
            # sample of the others
            todo = (members * (1 if setting == 'p' else 2) + rng.sample(others, min(3, len(others)))) * ctx.n(1, 5)
            for variant, eq in enumerate(todo):
                case = gen_conv_case(rng, am, setting, mode=rng.choice(['plain', 'far', 'random']), equal=eq)
                case['op'] = 'conversion'
                case['call_setting'] = 't' if setting[0] == 't' and variant % 2 == 0 else setting
                case['check_basis'] = True
                case['check_family'] = case['family_member'] and variant % 5 != 4
                ctx.stats.case('oracle:conversion-equal', (setting, repr(case['stored']), case['family'], repr(case['vects'])),
                               sample={'op': 'c2p->p2c', 'setting': setting, 'family': case['family'],
                                       'check_family': case['check_family'], 'storage': case['mode']})
                ctx.extra.setdefault('conversion_equal_constants', {})
                ctx.extra['conversion_equal_constants'][case['family']] = ctx.extra['conversion_equal_constants'].get(case['family'], 0) + 1
                _run_conversion(ctx, am, case)
        # the tolerance dimension: Cartesian coordinates rounded to 5 .. 8 decimals, converted with the matching looser
        # `atol` (and any `rtol`, now and then an explicit `smallshift`); the t cells every other time through the
        # self-detecting 't'
        for variant in range(ctx.n(4, 24)):
            case = gen_conv_case(rng, am, setting, mode=('plain', 'far')[(variant // 4) % 2] if variant % 3 else 'plain',
                                 decimals=5 + variant % 4, cell_noise=(variant // 2) % 2 == 1)
            case['op'] = 'conversion'
            case['call_setting'] = 't' if setting[0] == 't' and variant % 2 == 0 else setting
            case['check_basis'] = True
            if variant % 4 == 0:
                # (rtol and atol as far apart as they can be: each must reach the test it is meant for, in every call)
                case['rtol'] = 0.0
            ctx.stats.case('oracle:conversion-decimals', (setting, repr(case['stored']), case['decimals'], repr(case['vects'])),
                           sample={'op': 'c2p->p2c', 'setting': setting, 'called': case['call_setting'], 'family': case['family'],
                                   'decimals': case['decimals'], 'atol': case['atol'], 'rtol': case['rtol']})
            _run_conversion(ctx, am, case)
    # large conventional cells (50-70 motif atoms per lattice point: rotate's bounding supercell inside the conversion then
    # holds more than 4096 atoms for the centred settings)
    for setting in rng.sample(sorted(CONV_SITES), ctx.n(2, 8)):
        case = gen_conv_case(rng, am, setting, mode='plain', nmotif=rng.randint(50, 70))
        case['op'], case['call_setting'], case['check_basis'] = 'conversion', setting, True
        ctx.stats.case('oracle:conversion-large', (setting, len(case['atype']), repr(case['vects'])),
                       sample={'op': 'c2p->p2c', 'setting': setting, 'family': case['family'], 'natoms': len(case['atype'])})
        _run_conversion(ctx, am, case)
    # multi-type cells whose centring sites hold another type: refusal required
    for setting in CONV_SITES:
        if NLAT[setting] == 1:
            continue
        for _ in range(ctx.n(6, 40)):
            case = gen_mixed_case(rng, am, setting)
            ctx.stats.case('oracle:conversion-mixed', (setting, repr(case['stored']), repr(case['atype']), repr(case['symbols'])),
                           sample={'op': 'c2p-refusal', 'setting': setting, 'family': case['family'],
                                   'symbols': case['symbols_kind'], 'natoms': len(case['atype'])})
            _run_mixed(ctx, am, case)


def _search_p2c_direct(ctx, rng, am, scale=1):
    """primitive_to_conventional called DIRECTLY on cells in every orientation (it "expects a primitive unit cell, no
    checks are performed": any cell is an input): LAMMPS-oriented, rotated rigidly, left-handed (mirrored axis-aligned /
    mirrored and rotated / Cartesian axes permuted), general dyadic vectors of either handedness - under every setting,
    'p' included. The conversion is rotate() by the integer vectors of the setting, so every clause of a re-oriented cell
    applies: count x lattice points, volume, the same crystal through the returned transform, the requested vectors,
    LAMMPS-compatible, every atom inside, input untouched. Then conventional_to_primitive undoes it."""
    np = _np()
    from atomman.tools import miller
    kinds = ['normal'] + ORIENTS + ['general', 'lefthanded-general']
    for setting in CONV_SITES:
        tab = np.asarray(miller.vector_conventional_to_primitive(np.identity(3), setting=setting), dtype=float)
        U = [[int(round(x)) for x in row] for row in tab.tolist()]
        d = _det3(U)
        if not np.allclose(tab, np.array(U)) or abs(d) != NLAT[setting]:
            # (the centering tables are property C16's; what is needed here is that they are integer vectors of the
            # right index - otherwise rotate would refuse them)
            ctx.violate('conversion-p2c:table', f'the primitive -> conventional vectors of setting {setting!r} are {tab.tolist()}: '
                        f'not integers of determinant {NLAT[setting]}', {'op': 'p2c-table', 'setting': setting})
            continue
        for kind in kinds * (ctx.n(2, 8) * scale):
            while True:
                box, fam = _gen_box(rng, am)
                if kind == 'general' and fam == 'general' or kind == 'lefthanded-general' and fam == 'lefthanded' \
                        or (kind not in ('general', 'lefthanded-general') and fam not in ('general', 'lefthanded')):
                    break
            if kind in ORIENTS:
                box, fam = orient_box(rng, am, box, fam, kind)
            history = gen_history(rng) if rng.random() < 0.2 else None
            sysm, fam, spos = gen_system(rng, am, fam_box=(box, fam), far=rng.random() < 0.3, history=history)
            outside = history is None and rng.random() < 0.15
            if outside:
                # an atom listed one cell vector outside the cell (same crystal): the identity vectors of 'p' never refuse
                # it; under the other settings rotate's bounding supercell may miss an image ("Filtering failed", the
                # refusal rotate shares with its model)
                case = dict(sysm._c04)
                case['spos'] = [list(x) for x in case['spos']]
                k = rng.randrange(len(case['spos']))
                case['spos'][k] = [x + rng.choice([-1, 0, 1]) for x in case['spos'][k]]
                sysm = build_system(am, case)
                fam += '+outside'
            flag = (True, 1, np.True_)[rng.randrange(3)]
            ctx.stats.case('oracle:p2c-direct', (setting, kind, repr(sysm._c04['vects']), tuple(spos)),
                           sample={'op': 'p2c', 'setting': setting, 'orientation': kind, 'family': fam, 'natoms': sysm.natoms,
                                   'lammps_oriented_input': _is_lammps_normal(np, sysm.box.vects)})
            ctx.extra.setdefault('p2c_direct_orientations', {})
            ctx.extra['p2c_direct_orientations'][kind] = ctx.extra['p2c_direct_orientations'].get(kind, 0) + 1
            label = f'primitive_to_conventional(setting={setting!r})'
            res = _oracle_rotate(ctx, am, sysm, fam, spos, U, d, U, 'centering-table', True, 'conversion-p2c',
                                 call=lambda s_: s_.dump('primitive_to_conventional', setting=setting, return_transform=flag),
                                 label=label, may_refuse=outside and setting != 'p', replay_extra={'p2c_setting': setting})
            if res is None or outside:
                continue
            conv2, T2 = res
            what = (f'{label} of a {fam} cell {sysm.box.vects.tolist()} at {sysm.box.origin.tolist()}, relative positions '
                    f'{[[float(x) for x in sp] for sp in spos]}, then conventional_to_primitive(check_basis=False)')
            # (a left-handed input comes back as a right-handed conventional cell with its third vector reversed: relative
            # coordinate s_c -> 1 - s_c, which maps the centring sites of every setting onto themselves except those of
            # the two rhombohedral settings, which it exchanges)
            back = setting
            if float(np.linalg.det(sysm.box.vects)) < 0 and setting in ('t1', 't2'):
                back = 't2' if setting == 't1' else 't1'
            what = what.replace('then conventional_to_primitive(', f'then conventional_to_primitive(setting={back!r}, ')
            replay = {'op': 'p2c-undo', 'case': sysm._c04, 'setting': setting, 'back': back, 'family': fam}
            try:
                prim2, T3 = conv2.dump('conventional_to_primitive', setting=back, check_basis=False, return_transform=True)
            except Exception as e:  # noqa
                ctx.violate('conversion-p2c:undo-raises', f'{what} raised {type(e).__name__}: {e}', replay)
                continue
            _check_p2c_undone(ctx, sysm, spos, prim2, T3 @ T2, what, replay, extra_tol=_p2c_cleanup(np, sysm, U))


def _p2c_cleanup(np, sysm, U):
    """the clean-up bound of the double conversion: the Box.vects setter zeroes tilt components below 1e-9 of the largest
    one, in the normalized conventional cell U.V and again in the normalized primitive cell V (second-order terms of a
    cell sheared by a few ppm in its history; 0.0 for every cell without one) - `cleanup_extra`, as for rotate."""
    cl = cleanup_extra(np, np.array(U, dtype=float) @ sysm.box.vects) + cleanup_extra(np, sysm.box.vects)
    return 4 * cl * float(np.abs(np.linalg.inv(sysm.box.vects)).sum(axis=0).max()) if cl else 0.0


def _check_p2c_undone(ctx, sysm, spos, prim2, T32, what, replay, extra_tol=0.0):
    """the primitive cell that comes back from its conventional cell: the same crystal, atom for atom once, in a
    LAMMPS-compatible cell with every atom inside; for a right-handed input the same three cell vectors turned by the
    composite transform (a left-handed input comes back with a right-handed cell of the same lattice)."""
    np = _np()
    if not (np.allclose(T32 @ T32.T, np.eye(3), atol=1e-9) and abs(np.linalg.det(T32) - 1) < 1e-9):
        ctx.violate('conversion-p2c:undone', f'{what}: composite transform {T32.tolist()} is not a proper rotation', replay)
        return
    if not _check_same_crystal(ctx, 'conversion-p2c:undone', what, sysm, spos, prim2, T32, 1, replay, extra_tol=extra_tol):
        return
    if not _is_lammps_normal(np, prim2.box.vects):
        ctx.violate('conversion-p2c:undone', f'{what}: the cell {prim2.box.vects.tolist()} is not LAMMPS-compatible', replay)
    sp = np.linalg.solve(prim2.box.vects.T, (prim2.atoms.pos - prim2.box.origin).T).T
    if sp.min() < -1e-9 or sp.max() > 1 + 1e-9:
        ctx.violate('conversion-p2c:undone', f'{what}: atoms outside the cell (rel range {sp.min()}..{sp.max()})', replay)
    if float(np.linalg.det(sysm.box.vects)) > 0 and \
            not np.allclose(prim2.box.vects, sysm.box.vects @ T32.T, rtol=0, atol=1e-8 * float(np.abs(sysm.box.vects).max())):
        ctx.violate('conversion-p2c:undone', f'{what}: the cell that comes back, {prim2.box.vects.tolist()}, is not the original '
                    f'one turned by the composite transform, {(sysm.box.vects @ T32.T).tolist()}', replay)


HALF_TURNS = [(-1, -1, 1), (-1, 1, -1), (1, -1, -1)]


def frame_box(rng, am, kind, orth):
    """a cell of a standard family (`orth`: cubic / tetragonal / orthorhombic, i.e. along the Cartesian axes; else an
    oblique one) written in another Cartesian frame: `half-turn` = two axes mirrored (right-handed, negative components),
    otherwise `orient_box`."""
    np = _np()
    while True:
        box, fam = _gen_box(rng, am)
        if fam in (('cubic', 'tetragonal', 'orthorhombic') if orth else ('hexagonal', 'monoclinic', 'triclinic', 'rhombohedral')):
            break
    if kind == 'half-turn':
        sg = rng.choice(HALF_TURNS)
        return am.Box(vects=box.vects * np.array(sg, dtype=float), origin=box.origin), fam + '-halfturn'
    return orient_box(rng, am, box, fam, kind)


def _search_oriented(ctx, am, scale=1):
    """cells whose vectors lie ALONG the Cartesian axes but not in the LAMMPS order / direction - axes permuted (cyclically:
    a rotation; swapped: left-handed), one or three axes mirrored (left-handed), two axes mirrored (a half turn: right-
    handed with negative components) - and the same for oblique cells: through supersize, rotate (identity, fixed and
    random vectors), primitive_to_conventional and conventional_to_primitive. (Own random stream: the batches before
    this one see the same cases as before it existed.)"""
    np = _np()
    rng = random.Random(ctx.seed * 104729 + 71)
    I3 = np.eye(3)

    def oriented(box, fam, kind):
        if kind == 'half-turn':
            sg = rng.choice(HALF_TURNS)
            return am.Box(vects=box.vects * np.array(sg, dtype=float), origin=box.origin), fam + '-halfturn'
        return orient_box(rng, am, box, fam, kind)

    def std_box(orth):
        while True:
            box, fam = _gen_box(rng, am)
            if fam in (('cubic', 'tetragonal', 'orthorhombic') if orth else
                       ('hexagonal', 'monoclinic', 'triclinic', 'rhombohedral')):
                return box, fam

    kinds = ['half-turn', 'lefthanded', 'permuted', 'half-turn', 'permuted', 'lefthanded', 'mirror-rotated', 'rotated']
    for it, kind in enumerate(kinds * (ctx.n(10, 40) * scale)):
        box, fam = oriented(*std_box(it % 5 != 4), kind)
        U = [list(r) for r in FIXED_U[it % len(FIXED_U)]] if it % 2 == 0 else gen_U(rng, maxdet=5)[0]
        d = _det3(U)
        extra = near_face_atoms(rng, U) if it % 3 == 0 else []
        sysm, fam, spos = gen_system(rng, am, fam_box=(box, fam), extra=extra, far=it % 4 == 1,
                                     history=gen_history(rng) if it % 7 == 3 else None)
        ctx.stats.case('oracle:rotate-oriented', (kind, repr(U), repr(sysm._c04['vects']), tuple(spos)),
                       sample={'op': 'rotate', 'orientation': kind, 'family': fam, 'U': U, 'vects': sysm._c04['vects']})
        ctx.extra.setdefault('rotate_orientations', {})
        ctx.extra['rotate_orientations'][kind] = ctx.extra['rotate_orientations'].get(kind, 0) + 1
        _oracle_rotate(ctx, am, sysm, fam, spos, U, d, U, 'int-list', True, 'rotate')
        if it % 4 == 2:
            # ... and supersize of the same object
            sizes = gen_sizes(rng)
            ns = [norm_size(x) for x in sizes]
            what = f'supersize{sizes_repr(sizes)} ({fam} cell {sysm.box.vects.tolist()})'
            replay = {'op': 'supersize', 'family': fam, 'case': sysm._c04, 'spos': [[float(x) for x in sp] for sp in spos],
                      'sizes': [list(x) for x in ns]}
            try:
                new = sysm.supersize(*sizes)
            except Exception as e:  # noqa
                ctx.violate('supersize:raises', f'{what} raised {type(e).__name__}: {e} for valid integer multipliers', replay)
                continue
            _check_same_crystal(ctx, 'supersize', what, sysm, spos, new, I3, math.prod(h - l for l, h in ns), replay)
    # the conversions on half-turned cells of every setting (the other orientations: _search_conversions / _search_p2c_direct)
    from atomman.tools import miller
    for setting in CONV_SITES:
        for _ in range(ctx.n(2, 6)):
            case = gen_conv_case(rng, am, setting, mode=rng.choice(['plain', 'far', 'random']))
            box, fam = oriented(am.Box(vects=case['vects'], origin=case['origin']), case['family'], 'half-turn')
            case.update(vects=box.vects.tolist(), origin=box.origin.tolist(), family=fam, op='conversion', check_basis=True,
                        call_setting=setting)
            ctx.stats.case('oracle:conversion-oriented', (setting, 'half-turn', repr(case['stored']), repr(case['vects'])),
                           sample={'op': 'c2p->p2c', 'setting': setting, 'family': fam, 'orientation': 'half-turn'})
            _run_conversion(ctx, am, case)
        tab = np.asarray(miller.vector_conventional_to_primitive(np.identity(3), setting=setting), dtype=float)
        U = [[int(round(x)) for x in row] for row in tab.tolist()]
        if not np.allclose(tab, np.array(U)):
            continue
        for _ in range(ctx.n(2, 6)):
            box, fam = oriented(*std_box(rng.random() < 0.7), 'half-turn')
            sysm, fam, spos = gen_system(rng, am, fam_box=(box, fam), far=rng.random() < 0.3)
            ctx.stats.case('oracle:p2c-direct', (setting, 'half-turn', repr(sysm._c04['vects']), tuple(spos)),
                           sample={'op': 'p2c', 'setting': setting, 'orientation': 'half-turn', 'family': fam})
            res = _oracle_rotate(ctx, am, sysm, fam, spos, U, _det3(U), U, 'centering-table', True, 'conversion-p2c',
                                 call=lambda s_: s_.dump('primitive_to_conventional', setting=setting, return_transform=True),
                                 label=f'primitive_to_conventional(setting={setting!r})', replay_extra={'p2c_setting': setting})
            if res is None:
                continue
            conv2, T2 = res
            what = (f'primitive_to_conventional(setting={setting!r}) of a {fam} cell {sysm.box.vects.tolist()} at '
                    f'{sysm.box.origin.tolist()}, relative positions {[[float(x) for x in sp] for sp in spos]}, then '
                    f'conventional_to_primitive(setting={setting!r}, check_basis=False)')
            replay = {'op': 'p2c-undo', 'case': sysm._c04, 'setting': setting, 'back': setting, 'family': fam}
            try:
                prim2, T3 = conv2.dump('conventional_to_primitive', setting=setting, check_basis=False, return_transform=True)
            except Exception as e:  # noqa
                ctx.violate('conversion-p2c:undo-raises', f'{what} raised {type(e).__name__}: {e}', replay)
                continue
            _check_p2c_undone(ctx, sysm, spos, prim2, T3 @ T2, what, replay, extra_tol=_p2c_cleanup(np, sysm, U))


# ----------------------------------------------------------------------------------------------
# length scales: the same cell written in metres / centimetres / micrometres / ... (every Cartesian number times an exact
# power of two or of ten): nothing supersize / rotate / the conversions decide may depend on the unit the lengths are in
# ----------------------------------------------------------------------------------------------
LENGTH_SCALES = ([10.0 ** k for k in (-12, -10, -9, -8, -7, -6, -5, -4, -3, -2, -1, 1, 2, 3, 4, 6, 8, 10, 12)]
                 + [2.0 ** k for k in (-40, -33, -27, -20, -13, -7, 7, 13, 20, 27, 33, 40)])


def _scaled_copy(am, sysm, ls):
    """the system of a generated case again, with every length times `ls` (no history: those hold absolute lengths)."""
    case = dict(sysm._c04, history=[], length_scale=ls)
    return build_system(am, case)


def _search_scales(ctx, am, scale=1):
    """class "scales" x "handedness": cells of every family (left-handed ones included) at length scales 1e-12 .. 1e+12,
    re-expressed along integer vectors of POSITIVE and NEGATIVE determinant, replicated, and converted; decided by the
    same exact oracle as at the scale of one (every tolerance of it is relative: rounding bound of the float data), which
    includes: the returned transform is a proper rotation (det +1), the new cell's vectors are the requested lattice
    vectors turned by it (third one reversed for a left-handed request) and every atom maps through it onto an original
    one - so a mirror image of the crystal is not accepted. (Own random stream.)"""
    np = _np()
    rng = random.Random(ctx.seed * 15485863 + 604)
    I3 = np.eye(3)
    scales = list(LENGTH_SCALES)
    rng.shuffle(scales)
    nrot = ctx.n(72, 400) * scale
    for it in range(nrot):
        ls = scales[it % len(scales)]
        if it < 2 * len(FIXED_U):
            U = [list(r) for r in FIXED_U[it % len(FIXED_U)]]
        else:
            U = gen_U(rng, maxdet=5)[0]
        if it % 2 == 1 and _det3(U) > 0 and U != FIXED_U[0]:
            # every other case: a NEGATIVE determinant (two of the requested vectors exchanged)
            U = [U[1], U[0], U[2]]
        d = _det3(U)
        extra = near_face_atoms(rng, U) if it % 3 == 0 else []
        base, fam, spos = gen_system(rng, am, extra=extra, far=it % 4 == 1)
        sysm = _scaled_copy(am, base, ls)
        fam = f'{fam}, lengths x {ls!r}'
        arg, form, accepted = gen_uvws_form(rng, U) if it % 5 == 4 else (U, 'int-list', True)
        handed = ('left' if np.linalg.det(np.array(sysm._c04['vects'])) * d < 0 else 'right')
        ctx.stats.case('oracle:rotate-scaled', (repr(ls), repr(np.asarray(arg).tolist()), repr(sysm._c04['vects']), tuple(spos)),
                       sample={'op': 'rotate', 'length_scale': ls, 'family': fam, 'U': U, 'requested_vectors': handed + '-handed'})
        ctx.extra.setdefault('scaled_rotate_requests', {'left': 0, 'right': 0})
        ctx.extra['scaled_rotate_requests'][handed] += 1
        _oracle_rotate(ctx, am, sysm, fam, spos, U, d, arg, form, accepted, 'rotate')
        if it % 4 == 2:
            sizes = gen_sizes(rng)
            ns = [norm_size(x) for x in sizes]
            what = f'supersize{sizes_repr(sizes)} ({fam} cell {sysm.box.vects.tolist()} at {sysm.box.origin.tolist()})'
            replay = {'op': 'supersize', 'family': fam, 'case': sysm._c04, 'spos': [[float(x) for x in sp] for sp in spos],
                      'sizes': [list(x) for x in ns]}
            ctx.stats.case('oracle:supersize-scaled', (repr(ls), sizes_repr(sizes), repr(sysm._c04['vects']), tuple(spos)))
            V0, o0 = sysm.box.vects.copy(), sysm.box.origin.copy()
            try:
                new = sysm.supersize(*sizes)
            except Exception as e:  # noqa
                ctx.violate('supersize:raises', f'{what} raised {type(e).__name__}: {e} for valid integer multipliers', replay)
                continue
            if _check_same_crystal(ctx, 'supersize', what, sysm, spos, new, I3, math.prod(h - l for l, h in ns), replay):
                wantv = np.array([V0[i] * (ns[i][1] - ns[i][0]) for i in range(3)])
                wanto = o0 + sum(V0[i] * ns[i][0] for i in range(3))
                big = float(max(np.abs(wantv).max(), np.abs(wanto).max()))
                if not (np.allclose(new.box.vects, wantv, rtol=0, atol=1e-9 * big)
                        and np.allclose(new.box.origin, wanto, rtol=0, atol=1e-9 * big)):
                    ctx.violate('supersize:box', f'{what}: box {new.box.vects.tolist()} at {new.box.origin.tolist()}, expected '
                                f'the multiplied vectors {wantv.tolist()} at {wanto.tolist()}', replay)
    # the conversions at those scales, conventional cells in every orientation / handedness. The absolute tolerances of
    # conventional_to_primitive are documented options, handed over in the cell's own unit: atol (lattice-site test) and
    # smallshift (primitive-cell cut) times the scale. (atol is also what the family test compares ANGLES with: for
    # scales above one the family test is switched off - the documented switch - instead of being handed 1e-8 x scale
    # degrees.) Storage 'plain' / 'far' / 'random'; no displaced crystals here (see docs: candidate
    # C04-c2p-recentre-absolute-1e-8, the re-centring step's own fixed 1e-8).
    for k, setting in enumerate(sorted(CONV_SITES) * ctx.n(2, 8)):
        ls = scales[(5 * k + 3) % len(scales)]
        orient = [None, 'lefthanded', 'rotated', 'mirror-rotated', 'permuted', 'lefthanded'][k % 6]
        case = gen_conv_case(rng, am, setting, mode=rng.choice(['plain', 'far', 'random']), orient=orient)
        case.update(op='conversion', call_setting=setting, check_basis=(k % 7 != 5), history=[], length_scale=ls,
                    site_atol=1e-8 * ls, smallshift=[0.001 * ls] * 3)
        if ls > 1:
            case['check_family'] = False
        else:
            # (box origin on a lattice point for the small scales: the primitive cell then has its lattice-site atom exactly
            # at its corner and the re-centring step of conventional_to_primitive - "exactly one atom within numpy's
            # default 1e-8 length units of the corner is moved onto it", a fixed absolute distance that is a whole cell in
            # metres - has nothing to move; rotate / supersize / p2c above run with any origin at every scale)
            case['origin'] = [0.0, 0.0, 0.0]
        ctx.stats.case('oracle:conversion-scaled', (setting, repr(ls), repr(case['stored']), repr(case['vects'])),
                       sample={'op': 'c2p->p2c', 'setting': setting, 'family': case['family'], 'length_scale': ls,
                               'orientation': orient or 'as generated'})
        _run_conversion(ctx, am, case)
    # primitive_to_conventional directly (it has no tolerance of its own) on scaled cells of either handedness
    from atomman.tools import miller
    for k, setting in enumerate(sorted(CONV_SITES) * ctx.n(1, 4)):
        tab = np.asarray(miller.vector_conventional_to_primitive(np.identity(3), setting=setting), dtype=float)
        U = [[int(round(x)) for x in row] for row in tab.tolist()]
        if not np.allclose(tab, np.array(U)):
            continue
        ls = scales[(7 * k + 1) % len(scales)]
        base, fam, spos = gen_system(rng, am, far=rng.random() < 0.3)
        sysm = _scaled_copy(am, base, ls)
        fam = f'{fam}, lengths x {ls!r}'
        ctx.stats.case('oracle:p2c-direct', (setting, repr(ls), repr(sysm._c04['vects']), tuple(spos)),
                       sample={'op': 'p2c', 'setting': setting, 'length_scale': ls, 'family': fam})
        _oracle_rotate(ctx, am, sysm, fam, spos, U, _det3(U), U, 'centering-table', True, 'conversion-p2c',
                       call=lambda s_: s_.dump('primitive_to_conventional', setting=setting, return_transform=True),
                       label=f'primitive_to_conventional(setting={setting!r})', replay_extra={'p2c_setting': setting})


def _search_site_tolerance(ctx, am):
    """the caller's own rtol / atol for the lattice-site test (the documented way to accept lattice-site atoms that are
    slightly off the ideal site) on crystals whose lattice-site atoms ARE slightly off: the whole crystal displaced rigidly
    by 1e-5 .. 1e-2 of a cell (0.0001 .. 0.1 length units), atol 1.5 .. 4 times that distance. The tolerance decides
    whether the cell is ACCEPTED, nothing else: every atom of the primitive cell still maps through the returned rotation,
    modulo the original lattice, onto an original atom at the ROUNDING bound of the float data (exact relative coordinates
    of the displaced crystal), not within atol. (Own random stream.)"""
    np = _np()
    rng = random.Random(ctx.seed * 32452843 + 605)
    for k, setting in enumerate(sorted(CONV_SITES) * ctx.n(3, 12)):
        case = gen_conv_case(rng, am, setting, mode='offset',
                             orient=(None, None, 'rotated', 'lefthanded')[k % 4] if k % 3 == 0 else None)
        sh = np.array([a / b for a, b in case['shift']])
        dist = float(np.linalg.norm(sh @ np.array(case['vects'])))
        atol = dist * (1.5, 4.0)[k % 2]
        case.update(op='conversion', call_setting=setting, check_basis=(k % 3 != 2), history=[], site_atol=atol,
                    site_rtol=(None, 1e-5, 0.0, 1e-3)[k % 4])
        if atol > 0.2:
            # (atol is also what the family test compares lattice constants and angles with)
            case['check_family'] = False
        if setting[0] == 't' and case['check_basis'] and atol < 0.05 and (k // 8) % 2 == 0:
            # the self-detecting 't': both of its site tests must get the caller's tolerances (below 0.05 length units no
            # motif atom on the sixteenths grid can pass for a site of the other rhombohedral setting)
            case['call_setting'] = 't'
        ctx.stats.case('oracle:conversion-site-atol', (setting, repr(case['stored']), repr(atol), repr(case['vects'])),
                       sample={'op': 'c2p->p2c', 'setting': setting, 'family': case['family'], 'atol': atol,
                               'site_atoms_off_by': dist, 'check_basis': case['check_basis']})
        ctx.extra['site_atol_cases'] = ctx.extra.get('site_atol_cases', 0) + 1
        ctx.extra['site_atol_self_detecting_t'] = ctx.extra.get('site_atol_self_detecting_t', 0) + (case['call_setting'] == 't')
        _run_conversion(ctx, am, case)


def _run_conversion(ctx, am, case):
    np = _np()
    setting = case['setting']
    conv = build_conv(am, case)
    replay = case
    kw = {}
    nb = len(case['stored']) + len(case['atype']) + int(10 * case['vects'][0][0])
    if not case.get('check_family', True):
        kw['check_family'] = (False, 0, np.False_)[nb % 3]       # (falsy / truthy non-bools mean what bools mean)
    elif nb % 7 == 3:
        kw['check_family'] = (1, np.True_)[nb % 2]
    dec = case.get('decimals')
    if dec is not None:
        kw['atol'] = case['atol']
        if case.get('rtol') is not None:
            kw['rtol'] = case['rtol']
        if case.get('smallshift') is not None:
            # (list / tuple as stored, every third time a numpy array: "array-like object")
            kw['smallshift'] = np.array(case['smallshift']) if nb % 3 == 0 else case['smallshift']
    if case.get('site_atol') is not None:
        # the caller's own absolute tolerance for "an atom sits on the lattice site" (the documented way to accept
        # lattice-site atoms that are a little off the ideal site, and the only way to state the tolerance in the cell's
        # length unit), and / or the documented small shift of the primitive-cell cut in that unit
        kw['atol'] = case['site_atol']
    if case.get('site_rtol') is not None:
        kw['rtol'] = case['site_rtol']
    if dec is None and case.get('smallshift') is not None:
        kw['smallshift'] = np.array(case['smallshift']) if nb % 3 == 0 else case['smallshift']
    what = (f"{case['family']} cell, setting {setting}" + (" (called with 't')" if case['call_setting'] != setting else '')
            + ('' if case['check_basis'] else ', check_basis=False')
            + (f", lengths x {case['length_scale']!r}" if case.get('length_scale') else '')
            + (f", cell x {case['scale']} with the Cartesian coordinates rounded to {dec} decimals" if dec is not None else '')
            + (f", cell strained by 1 + {case['cell_noise']}" if case.get('cell_noise') else '')
            + (f", options {kw}" if kw else '') + f", relative positions {case['stored']}"
            + (f", pbc {case['pbc']}" if not all(case.get('pbc', [True])) else '')
            + (f", history on the object {case['history']}" if case.get('history') else ''))
    before = conv.atoms.pos.copy()
    back = setting
    try:
        if dec is not None and nb % 4 == 1:
            # the documented signature dump(system, setting, smallshift, rtol, atol, check_basis, check_family,
            # return_transform), arguments given by position
            from atomman.dump.conventional_to_primitive.dump import dump as c2p_dump
            prim, T1 = c2p_dump(conv, case['call_setting'], kw.get('smallshift'), kw.get('rtol', 1e-5), kw['atol'],
                                case['check_basis'], kw.get('check_family', True), True)
            what += ' (arguments by position)'
        else:
            prim, T1 = conv.dump('conventional_to_primitive', setting=case['call_setting'], return_transform=True,
                                 check_basis=(case['check_basis'] if nb % 5 else (np.True_ if case['check_basis'] else 0)), **kw)
        conv2, T2 = prim.dump('primitive_to_conventional', setting=back, return_transform=True)
    except Exception as e:  # noqa
        if isinstance(e, ValueError) and 'Filtering failed' in str(e) and any(x < 0 or x > 1 for t in case['stored'] for x in t):
            # an atom stored outside the cell may fall outside rotate's bounding supercell: the refusal rotate and
            # its model share (correspondence batch rotate-outside); anything else is a violation
            ctx.extra['conversion_outside_refused'] = ctx.extra.get('conversion_outside_refused', 0) + 1
            return
        ctx.violate('conversion:raises', f'cell conversion raised {type(e).__name__}: {e} for a valid {what}', replay)
        return
    if not np.array_equal(before, conv.atoms.pos):
        ctx.violate('conversion:input-mutated', f'conventional_to_primitive changed its input ({what})', replay)
    # "the returned rotation": each conversion hands back a PROPER rotation (orthogonal, det +1) - through an improper one
    # the mirror image of the crystal would map onto the original atom for atom
    for nm, Tx in (('conventional_to_primitive', T1), ('primitive_to_conventional', T2)):
        Tx = np.asarray(Tx, dtype=float)
        # (1e-6: the transform is fitted to cell vectors that went through the Box.vects clean-up - orthogonal to about
        # 1e-9 for nearly-orthogonal cells; an improper one has det -1)
        if Tx.shape != (3, 3) or not (np.allclose(Tx @ Tx.T, np.eye(3), rtol=0, atol=1e-6) and abs(np.linalg.det(Tx) - 1) < 1e-6):
            ctx.violate('conversion:transform-proper', f'{nm}: returned transform {Tx.tolist()} is not a proper rotation '
                        f'(det {float(np.linalg.det(Tx)) if Tx.shape == (3, 3) else None}): the cell holds the mirror image '
                        f'of the crystal ({what})', replay)
            return
    if prim.natoms * NLAT[setting] != conv.natoms or abs(prim.box.volume * NLAT[setting] - conv.box.volume) > 1e-8 * conv.box.volume:
        ctx.violate('conversion:primitive-count', f'primitive cell: {prim.natoms} atoms, volume {prim.box.volume}; '
                    f'conventional {conv.natoms}, {conv.box.volume} ({what})', replay)
        return
    # prim and conv2 describe conv's crystal through the transforms
    sp_exact = [tuple(frac_mod1(x) for x in t) for t in conv_exact_spos(case)]
    ext = 0.0
    if dec is not None:
        # coordinates rounded to `dec` decimals: the originals are where the rounded numbers say (exact relative coordinates
        # of the object's visible state); the crystal has the primitive periodicity to within two rounding errors only
        sp_exact = [tuple(frac_mod1(x) for x in t) for t in exact_rel(conv)]
        ext = 2 * 10.0 ** -dec * float(np.abs(np.linalg.inv(conv.box.vects)).sum(axis=0).max())
    if not _check_same_crystal_partial(ctx, 'conversion:c2p', f'conventional_to_primitive: {what}', conv, sp_exact, prim, T1, replay,
                                       extra_tol=ext):
        return
    for nm, cell in (('primitive', prim), ('conventional', conv2)):
        if not (_is_lammps_normal(np, cell.box.vects) and cell.box.is_lammps_norm()):
            ctx.violate('conversion:lammps-normal', f'{nm} cell {cell.box.vects.tolist()} is not LAMMPS-compatible ({what})', replay)
        sp = np.linalg.solve(cell.box.vects.T, (cell.atoms.pos - cell.box.origin).T).T
        if sp.min() < -1e-9 or sp.max() > 1 + 1e-9:
            ctx.violate('conversion:inside', f'{nm} cell has atoms outside (rel range {sp.min()}..{sp.max()}; {what})', replay)
    Ttot = T2 @ T1
    lh = float(np.linalg.det(conv.box.vects)) < 0
    if lh and setting in ('t1', 't2'):
        # a LEFT-handed rhombohedrally centred cell: its primitive cell comes back right-handed (third primitive vector
        # reversed), and no conventional cell built on those three vectors spans the lattice of the original conventional
        # cell (for the other settings the one of the same setting does): the result is the same infinite crystal - every
        # atom an original one modulo the original lattice, none twice, the original count and volume - in a cell of another
        # lattice of the same index, so the originals need not be represented once each modulo the ORIGINAL cell
        if conv2.natoms != conv.natoms or abs(conv2.box.volume - abs(float(np.linalg.det(conv.box.vects)))) > 1e-8 * conv2.box.volume:
            ctx.violate('conversion:roundtrip:count', f'c2p then p2c: {conv2.natoms} atoms in {conv2.box.volume}, originally '
                        f'{conv.natoms} in {abs(float(np.linalg.det(conv.box.vects)))} ({what})', replay)
            return
        if not _check_same_crystal_partial(ctx, 'conversion:roundtrip', f'c2p then p2c: {what}', conv, sp_exact, conv2, Ttot,
                                           replay, extra_tol=ext):
            return
    elif not _check_same_crystal(ctx, 'conversion:roundtrip', f'c2p then p2c: {what}', conv, sp_exact, conv2, Ttot, 1, replay,
                                 extra_tol=ext):
        return
    # "undo one another": the composite is the identity re-expression - same cell vectors, composite
    # transform = identity, and the atoms are the original ones modulo the lattice *without* any rotation
    # (a conventional cell given in a general orientation comes back LAMMPS-normal: turned by the composite transform)
    normal_in = _is_lammps_normal(np, conv.box.vects)
    ok = True
    if lh:
        # a LEFT-handed description of the conventional cell: the primitive cell comes back right-handed (third vector
        # reversed by normalize), and the conventional cell built on THAT is another cell of the same lattice - the same
        # crystal (checked above, atom for atom), not the same three vectors: the "in place" clauses do not apply; the
        # primitive cell must still come back from its conventional cell (below)
        ctx.extra['conversion_lefthanded'] = ctx.extra.get('conversion_lefthanded', 0) + 1
    elif not np.allclose(conv2.box.vects, conv.box.vects @ Ttot.T, rtol=0, atol=1e-8 * conv.box.a):
        ok = False
        ctx.violate('conversion:cell', f'c2p then p2c changed the cell {conv.box.vects.tolist()} '
                    f'-> {conv2.box.vects.tolist()} (composite transform {Ttot.tolist()}; {what})', replay)
    elif normal_in and not np.allclose(Ttot, np.eye(3), atol=1e-8):
        ok = False
        ctx.violate('conversion:transform', f'c2p then p2c: composite transform {Ttot.tolist()} '
                    f'is not the identity ({what})', replay)
    else:
        _check_same_crystal(ctx, 'conversion:undo', f'c2p then p2c compared in place: {what}', conv,
                            sp_exact, conv2, np.eye(3) if normal_in else Ttot, 1, replay, extra_tol=ext)
    if ok:
        # ... and the other way round: the primitive cell converted to the conventional one and back is itself.
        # (check_basis=False: conv2 sits at the Cartesian origin with the atoms' Cartesian positions kept, so for an
        # original box origin that is no lattice vector its lattice points are not at its relative (0,0,0), which is
        # all the lattice-site test looks at - the documented case for switching the test off)
        try:
            # (a smallshift given in the cell's own length unit goes with this call as well)
            kw3 = {'smallshift': kw['smallshift']} if (dec is None and 'smallshift' in kw) else {}
            prim2, T3 = conv2.dump('conventional_to_primitive', setting=back, return_transform=True,
                                   check_basis=False, **kw3)
        except Exception as e:  # noqa
            ctx.violate('conversion:raises', f'converting the conventional cell obtained from the primitive one back '
                        f'raised {type(e).__name__}: {e} ({what})', replay)
            return
        T32 = T3 @ T2
        if prim2.natoms != prim.natoms or not np.allclose(prim2.box.vects, prim.box.vects, rtol=0, atol=1e-8 * conv.box.a) \
                or not np.allclose(T32, np.eye(3), atol=1e-8):
            ctx.violate('conversion:p2c-undone', f'p2c then c2p does not return the primitive cell: {prim.box.vects.tolist()} '
                        f'-> {prim2.box.vects.tolist()}, composite transform {T32.tolist()} ({what})', replay)
        else:
            tol = _tol_rel(np, prim.box.vects, prim.atoms.pos, prim2.atoms.pos) + 2 * ext
            s1 = prim.atoms_prop('pos', scale=True)
            s2 = prim2.atoms_prop('pos', scale=True)
            for k in range(prim2.natoms):
                if not any(int(prim.atoms.atype[i]) == int(prim2.atoms.atype[k]) and _all_payload(prim, i) == _all_payload(prim2, k)
                           and all(circ(s1[i][j], s2[k][j]) < tol for j in range(3)) for i in range(prim.natoms)):
                    ctx.violate('conversion:p2c-undone', f'p2c then c2p: atom {k} of the primitive cell is not where it was '
                                f'(rel {s2[k].tolist()}; {what})', replay)
                    break


def _corr_basis(ctx, rng, am):
    """check_setting_basis(check_family=False) against the Lean model `checkBasis`: valid cells in every storage
    form (far faces, outside the cell) and spoiled ones (site atom missing / moved / of another type / doubled by a
    lattice-equivalent copy). The model gets the exact Cartesian positions s.V + origin of the intended relative
    coordinates, the implementation their float rounding; spoiled atoms are >= 1/16 of a cell off."""
    np = _np()
    from atomman.dump.conventional_to_primitive.dump import check_setting_basis
    for setting in CONV_SITES:
        for it in range(ctx.n(8, 60)):
            case = gen_conv_case(rng, am, setting, mode=('plain', 'far')[it] if it < 2 else 'random')
            spoil = 'none' if it < 3 else rng.choice(['none', 'missing', 'moved', 'type', 'doubled', 'other-setting'])
            den, sites = CONV_SITES[setting]
            ask_setting = setting
            site_atoms = [k for k in range(len(case['atype'])) if k % (len(case['atype']) // len(sites)) == 0]
            k = rng.choice(site_atoms)
            if spoil == 'missing':
                for key in ('stored', 'atype', 'q', 'tag'):
                    case[key] = case[key][:k] + case[key][k + 1:]
            elif spoil == 'moved':
                c = rng.randrange(3)
                case['stored'][k][c] += rng.choice([-1, 1]) / 32
            elif spoil == 'type':
                case['atype'][k] = max(case['atype']) + 1
            elif spoil == 'doubled':
                # a lattice-equivalent copy in a neighbouring cell (stays within one cell of the box: dmag's reach)
                while True:
                    sh = [rng.randint(-1, 1) for _ in range(3)]
                    cp = [case['stored'][k][c] + sh[c] for c in range(3)]
                    if any(sh) and all(-1 <= x < 2 for x in cp):
                        break
                case['stored'].append(cp)
                for key in ('atype', 'q', 'tag'):
                    case[key].append(case[key][k])
            elif spoil == 'other-setting':
                ask_setting = rng.choice([x for x in CONV_SITES if x != setting])
            if not case['atype']:
                continue
            case['pbc'] = [True, True, True]        # (the model's lookup is periodic)
            conv = build_conv(am, case)
            V = [[Fraction(x) for x in row] for row in conv.box.vects.tolist()]
            o = [Fraction(x) for x in conv.box.origin.tolist()]
            atoms = []
            for t, sp in zip(case['atype'], [tuple(Fraction(x).limit_denominator(96) for x in t) for t in case['stored']]):
                pos = [sum(sp[i] * V[i][j] for i in range(3)) + o[j] for j in range(3)]
                atoms.append(f"{t} {cm.frs(pos)}")
            line = f"basis {ask_setting} {len(atoms)} {cm.frs(conv.box.vects)} {cm.frs(conv.box.origin)} " + ' '.join(atoms)
            out = ctx.driver.ask(line)
            ctx.stats.case('basis', line, sample={'op': 'check_setting_basis', 'setting': ask_setting, 'cell': setting,
                                                  'spoiled': spoil, 'storage': case['mode']})
            try:
                impl = '1' if check_setting_basis(conv, setting=ask_setting, check_family=False) else '0'
            except ValueError:
                impl = 'err:value'
            except Exception as e:  # noqa
                impl = f'raised {type(e).__name__}: {e}'
            if impl != out:
                ctx.disagree('basis', f'check_setting_basis({ask_setting}) on a {setting} cell (spoiled: {spoil}, stored '
                             f"relative positions {case['stored']}): implementation {impl}, model {out}",
                             {'op': 'basis', 'line': line, 'case': case, 'asked': ask_setting})


TOLS = [(1e-5, 1e-8), (1e-5, 1e-8), (1e-3, 1e-8), (1e-7, 1e-10), (0.0, 0.0), (1e-5, 1e-3), (0.0, 1e-6), (2.5e-2, 1e-8)]


def _six(box):
    return [float(box.a), float(box.b), float(box.c), float(box.alpha), float(box.beta), float(box.gamma)]


def _family_edge(six, rtol, atol):
    """is one of the isclose tests of the family predicates decided within 1e-6 (relative) of its edge? (float vs exact)"""
    a, b, c, al, be, ga = six
    for x, y in ((a, b), (a, c), (al, 90.0), (be, 90.0), (ga, 90.0), (ga, 120.0), (al, be), (al, ga)):
        lhs, rhs = abs(x - y), atol + rtol * abs(y)
        if abs(lhs - rhs) <= 1e-6 * max(lhs, rhs) and max(lhs, rhs) > 0:
            return True
    return False


def _corr_family(ctx, rng, am):
    """Box.identifyfamily(rtol, atol) against the Lean model `identifyFamily` on the six lattice parameters the Box
    reports: every family, coincidentally equal constants / angles in every slot (a=b, a=c, b=c, all three; alpha=beta,
    alpha=gamma, beta=gamma), constants that differ by 3e-6 .. 1e-2 (relative) so that the CALLER's tolerances decide,
    re-oriented cells (the parameters carry rounding noise then)."""
    np = _np()
    fams = ['cubic', 'hexagonal', 'tetragonal', 'rhombohedral', 'orthorhombic', 'monoclinic', 'triclinic']
    for it in range(ctx.n(140, 900)):
        fam = fams[it % 7]
        a, b, c = rng.choice([3.0, 3.25, 4.0]), rng.choice([4.5, 5.0]), rng.choice([5.75, 6.5, 7.0])
        al = be = ga = 90.0
        if fam in ('cubic', 'rhombohedral'):
            b = c = a
        if fam in ('tetragonal', 'hexagonal'):
            b = a
        if fam == 'hexagonal':
            ga = 120.0
        if fam == 'rhombohedral':
            al = be = ga = rng.choice([60.0, 75.0, 100.0])
        if fam == 'monoclinic':
            be = rng.choice([95.0, 104.5, 110.0])
        if fam == 'triclinic':
            al, be, ga = rng.choice([81.0, 97.0]), rng.choice([75.0, 104.0]), rng.choice([66.0, 101.0])
        label = fam
        r = rng.random()
        if r < 0.35:
            # coincidences in a slot the family does not fix
            eq = rng.choice(['b=c', 'a=c', 'a=b', 'a=b=c', 'be=ga', 'al=be', 'al=ga'])
            if eq == 'b=c':
                c = b
            elif eq == 'a=c':
                c = a
            elif eq == 'a=b':
                b = a
            elif eq == 'a=b=c':
                b = c = a
            elif eq == 'be=ga' and fam == 'triclinic':
                ga = be
            elif eq == 'al=be' and fam == 'triclinic':
                be = al
            elif eq == 'al=ga' and fam == 'triclinic':
                ga = al
            label += f'[{eq}]'
        elif r < 0.7:
            # nearly equal: the tolerances decide
            e = rng.choice([3e-6, -3e-6, 3e-5, -3e-5, 2e-4, 1e-2, 1e-9])
            slot = rng.choice(['b', 'c', 'be', 'ga', 'al'])
            if slot == 'b':
                b = a * (1 + e)
            elif slot == 'c':
                c = rng.choice([a, b]) * (1 + e)
            elif slot == 'be':
                be = be + 90 * e
            elif slot == 'ga':
                ga = ga + 90 * e
            else:
                al = al + 90 * e
            label += f'[{slot}{e:+.0e}]'
        try:
            box = am.Box(a=a, b=b, c=c, alpha=al, beta=be, gamma=ga)
        except Exception:  # noqa - not a cell
            continue
        if rng.random() < 0.25:
            box = reorient(rng, am, box)
            label += '-reoriented'
        rtol, atol = rng.choice(TOLS)
        six = _six(box)
        if _family_edge(six, rtol, atol):
            ctx.extra['family_edge_exempt'] = ctx.extra.get('family_edge_exempt', 0) + 1
            continue
        line = f'family {cm.fr(rtol)} {cm.fr(atol)} {cm.frs(six)}'
        out = ctx.driver.ask(line)
        ctx.stats.case('family', line, sample={'op': 'identifyfamily', 'cell': label, 'rtol': rtol, 'atol': atol})
        try:
            impl = box.identifyfamily(rtol=rtol, atol=atol) if (rtol, atol) != (1e-5, 1e-8) or rng.random() < 0.5 \
                else box.identifyfamily()
            impl = 'none' if impl is None else str(impl)
        except Exception as e_:  # noqa
            impl = f'raised {type(e_).__name__}: {e_}'
        if impl != out:
            ctx.disagree('family', f'Box.identifyfamily(rtol={rtol}, atol={atol}) of the cell a, b, c, alpha, beta, gamma = {six} '
                         f'({label}): implementation {impl}, model {out}',
                         {'op': 'family', 'six': six, 'rtol': rtol, 'atol': atol, 'vects': box.vects.tolist()})


def _site_distances(np, conv, setting):
    """Cartesian distances of every atom from the nearest periodic image of every lattice site of the setting (numpy,
    independent of the library's dmag)."""
    den, sites = CONV_SITES[setting]
    s = np.linalg.solve(conv.box.vects.T, (conv.atoms.pos - conv.box.origin).T).T
    out = []
    for st in sites:
        d = s - np.array(st, dtype=float) / den
        d -= np.rint(d)
        out.append(np.linalg.norm(d @ conv.box.vects, axis=1))
    return np.array(out)


def _corr_resolve(ctx, rng, am):
    """which setting conventional_to_primitive works with - the family test and the lattice-site test at the CALLER's
    rtol / atol, 't' resolved to t1 / t2 - against the Lean model `resolveSetting` / `checkSettingBasis`: valid cells
    (exact, and with Cartesian coordinates rounded to 4 .. 8 decimals where the caller's atol decides on either side),
    coincidentally equal lattice constants with check_family on and off, spoiled cells, 't' on t1, t2 and other cells."""
    np = _np()
    from atomman.dump.conventional_to_primitive.dump import check_setting_basis
    todo = []
    for setting in CONV_SITES:
        for it in range(ctx.n(10, 60)):
            todo.append((setting, it))
    for setting, it in todo:
        kind = ('exact', 'decimals', 'equal', 'decimals', 'spoiled', 'decimals', 'equal', 'exact', 'decimals', 'spoiled')[it % 10]
        equal = kind == 'equal' and any(f in EQUAL_PATTERNS for f in CONV_FAMILIES[setting])
        dec = 4 + (it // 2) % 5 if kind == 'decimals' else None
        if equal and it % 10 == 2:
            # a member of the family (b = c, beta = gamma, hexagonal c = a), asked with check_family=True
            equal = rng.choice([(f, pt) for f in CONV_FAMILIES[setting] if f in EQUAL_PATTERNS
                                for pt in sorted(EQUAL_PATTERNS[f]) if EQUAL_PATTERNS[f][pt]])
        elif equal and it % 10 == 6 and rng.random() < 0.7:
            # not a member (a = c, a = b = c, alpha = beta ...): refused with check_family on
            equal = rng.choice([(f, pt) for f in CONV_FAMILIES[setting] if f in EQUAL_PATTERNS
                                for pt in sorted(EQUAL_PATTERNS[f]) if not EQUAL_PATTERNS[f][pt]] or [True])
        case = gen_conv_case(rng, am, setting, mode=rng.choice(['plain', 'far', 'random']), equal=equal, decimals=dec,
                             cell_noise=(dec is not None and it % 10 in (3, 5)))
        case['history'], case['pbc'] = [], [True, True, True]
        if kind == 'spoiled':
            per = len(case['atype']) // NLAT[setting]
            k = rng.randrange(NLAT[setting]) * per
            if rng.random() < 0.5:
                case['stored'][k][rng.randrange(3)] += rng.choice([-1, 1]) * rng.choice([1 / 32, 1e-3, 1e-6])
            else:
                case['atype'][k] = max(case['atype']) + 1
        conv = build_conv(am, case)
        rtol, atol = rng.choice(TOLS)
        # (atol = 0 asks "is the float distance exactly 0.0", which rounding decides, not the model: 1e-11 instead)
        atol = atol or 1e-11
        if dec is not None:
            # every other time the tolerance a caller would pass for such a file (accepts), else one that does not
            atol = 10.0 ** (1 - dec) if it % 10 in (1, 5) else rng.choice([10.0 ** (1 - dec), 10.0 ** (-2 - dec), 1e-8, 1e-3])
        cf = (it % 10 == 2 or (it % 10 == 6 and rng.random() < 0.6)) if equal else rng.random() < 0.8
        if case.get('cell_noise'):
            rtol = rng.choice([2.5e-3, 2.5e-3, 1e-5, 1e-7])
        ask = setting
        r = rng.random()
        if setting[0] == 't' and (r < 0.5 or it % 10 in (1, 3, 5)):
            ask = 't'
        elif r < 0.12:
            ask = rng.choice([x for x in list(CONV_SITES) + ['t'] if x != setting])
        six = _six(conv.box)
        # off the edges: no family comparison and no atom-site distance within 1e-6 (relative) of its threshold
        dist = np.concatenate([_site_distances(np, conv, st_).ravel() for st_ in (['t1', 't2'] if ask == 't' else [ask])])
        if _family_edge(six, rtol, atol) or (np.abs(dist - atol) <= 1e-6 * atol + 1e-14).any():
            ctx.extra['resolve_edge_exempt'] = ctx.extra.get('resolve_edge_exempt', 0) + 1
            continue
        atoms = ' '.join(f'{int(t)} {cm.frs(pnt)}' for t, pnt in zip(conv.atoms.atype, conv.atoms.pos))
        line = (f"resolve {ask} 1 {'1' if cf else '0'} {cm.fr(rtol)} {cm.fr(atol)} {cm.frs(six)} {conv.natoms} "
                f"{cm.frs(conv.box.vects)} {cm.frs(conv.box.origin)} {atoms}")
        out = ctx.driver.ask(line)
        ctx.stats.case('resolve', line, sample={'op': 'c2p-setting', 'cell': setting, 'asked': ask, 'kind': kind,
                                                'family': case['family'], 'check_family': cf, 'rtol': rtol, 'atol': atol,
                                                'decimals': dec, 'model': out})
        ctx.extra.setdefault('resolve_outcomes', {})
        ctx.extra['resolve_outcomes'][f'{kind}:{out}'] = ctx.extra['resolve_outcomes'].get(f'{kind}:{out}', 0) + 1
        # (the flag as a bool or as a truthy / falsy non-bool: 1, 0, numpy.True_, numpy.False_)
        cfa = rng.choice([cf, cf, (1 if cf else 0), np.bool_(cf)])
        kw = dict(rtol=rtol, atol=atol, check_family=cfa)
        if (rtol, atol) == (1e-5, 1e-8) and rng.random() < 0.5:
            kw = dict(check_family=cfa)
        if cf and rng.random() < 0.5:
            del kw['check_family']
        rp = {'op': 'resolve', 'case': case, 'asked': ask,
              'kw': {k_: (bool(v) if k_ == 'check_family' else float(v)) for k_, v in kw.items()},
              'line': line}
        try:
            if ask != 't' and it % 2 == 0:
                # the function behind the explicit settings
                impl = ask if check_setting_basis(conv, setting=ask, **kw) else 'err:value'
            elif ask != 't':
                # ... and the conversion itself (the tolerances travel from dump() to the test)
                conv.dump('conventional_to_primitive', setting=ask, **kw)
                impl = ask
            else:
                prim, T = conv.dump('conventional_to_primitive', setting='t', return_transform=True, **kw)
                impl = None
                for cand in ('t1', 't2'):
                    pc, Tc = conv.dump('conventional_to_primitive', setting=cand, return_transform=True, check_basis=False)
                    if np.allclose(T, Tc, atol=1e-9):
                        impl = cand if impl is None else 't1+t2'
                impl = impl or 'neither'
        except ValueError as e_:
            if not any(w in str(e_) for w in ('seem to match', 'overlapping', 'invalid setting')):
                # a refusal further down the pipeline (rotate's "Filtering failed" on coordinates rounded to 4 decimals)
                ctx.extra['resolve_pipeline_refusal'] = ctx.extra.get('resolve_pipeline_refusal', 0) + 1
                continue
            impl = 'err:value'
        except AssertionError:
            # the primitive-cell cut further down the pipeline (coordinates rounded to 4 decimals against a small shift
            # of 0.001): the setting was resolved, which one is not observable
            ctx.extra['resolve_pipeline_assert'] = ctx.extra.get('resolve_pipeline_assert', 0) + 1
            continue
        except Exception as e_:  # noqa
            impl = f'raised {type(e_).__name__}: {e_}'
        if impl != out:
            ctx.disagree('resolve', f"conventional_to_primitive(setting={ask!r}, {kw}) on a {case['family']} cell built for "
                         f"setting {setting} ({kind}" + (f', Cartesian coordinates rounded to {dec} decimals' if dec else '')
                         + f"; a, b, c, alpha, beta, gamma = {six}): the implementation works with {impl}, the model with {out}", rp)


def _check_same_crystal_partial(ctx, key, what, sysm, spos, new, T, replay, extra_tol=0.0):
    """sub-cell version: every atom of `new` is an original atom modulo the original lattice, no two coincide."""
    np = _np()
    recs = _orig_records(sysm, spos)
    Vinv = np.linalg.inv(sysm.box.vects)
    tol = (_tol_rel(np, sysm.box.vects, new.atoms.pos, sysm.box.origin, new.box.vects) if new.natoms else 1e-9) + extra_tol
    if tuple(new.symbols) != tuple(sysm.symbols):
        ctx.violate(key, f'{what}: atom types stand for {tuple(new.symbols)}, originally {tuple(sysm.symbols)}', replay)
        return False
    for k in range(new.natoms):
        y = T.T @ new.atoms.pos[k]
        s = (y - sysm.box.origin) @ Vinv
        # (the primitive cell is only re-centred on an atom that already sits at the origin within rounding: no offset)
        s2 = [s[j] for j in range(3)]
        pl = _all_payload(new, k)
        if not any(t == int(new.atoms.atype[k]) and opl == pl and all(circ(s2[j], sp[j]) < tol for j in range(3))
                   for (t, opl, sp) in recs):
            ctx.violate(key, f'{what}: atom {k} is not an original atom modulo the lattice (rel {s2}, compared to '
                        f'{tol:.1e})', replay)
            return False
    sp = new.atoms_prop('pos', scale=True)
    for a in range(new.natoms):
        for b in range(a + 1, new.natoms):
            if all(circ(sp[a][j], sp[b][j]) < 1e-6 for j in range(3)):
                ctx.violate(key, f'{what}: atoms {a} and {b} coincide', replay)
                return False
    return True


def replay(ctx, payload):
    np = _np()
    import atomman as am
    r = payload.get('replay', {})
    if r.get('op') in ('supersize', 'rotate') and 'case' in r and 'family' in r:
        sysm = build_system(am, r['case'])
        spos = exact_rel(sysm) if r['case'].get('history') else [tuple(Fraction(x) for x in s) for s in r['spos']]
        if r['op'] == 'supersize':
            sizes = [tuple(s) for s in r['sizes']]
            new = sysm.supersize(*sizes)
            M = math.prod(h - l for l, h in sizes)
            _check_same_crystal(ctx, 'supersize', 'replay', sysm, spos, new, np.eye(3), M, r)
        else:
            call, key = None, 'rotate'
            if r.get('p2c_setting'):
                call, key = (lambda s_: s_.dump('primitive_to_conventional', setting=r['p2c_setting'], return_transform=True)), 'conversion-p2c'
            _oracle_rotate(ctx, am, sysm, r.get('family', '?'), spos, r['U'], _det3(r['U']),
                           np.array(r['uvws']) if 'uvws' in r else r['U'], r.get('form', 'int-list'),
                           r.get('accepted', True), key, tol=r.get('tol'), call=call, label=r.get('label', 'rotate'),
                           may_refuse=r.get('may_refuse', False), big=r.get('big', False))
    elif r.get('op') in ('supersize-big', 'rotate-big') and 'grid_seed' in r:
        sysm, fam, pts = grid_system(am, random.Random(r['grid_seed']), r['natoms'])
        if r['op'] == 'supersize-big':
            sizes = [tuple(x) for x in r['sizes']]
            new = sysm.supersize(*sizes)
            _fast_same_crystal(ctx, 'supersize', 'replay', sysm, pts, 8192, new, np.eye(3), math.prod(h - l for l, h in sizes), r,
                               ranges=sizes)
        else:
            new, T = sysm.rotate(r['U'], return_transform=True)
            _fast_same_crystal(ctx, 'rotate', 'replay', sysm, pts, 8192, new, T, abs(_det3(r['U'])), r)
    elif r.get('op') == 'p2c-undo' and 'case' in r:
        sysm = build_system(am, r['case'])
        spos = exact_rel(sysm) if r['case'].get('history') else [tuple(Fraction(x) for x in s_) for s_ in r['case']['spos']]
        conv2, T2 = sysm.dump('primitive_to_conventional', setting=r['setting'], return_transform=True)
        prim2, T3 = conv2.dump('conventional_to_primitive', setting=r.get('back', r['setting']), check_basis=False,
                               return_transform=True)
        tab = __import__('atomman').tools.miller.vector_conventional_to_primitive(np.identity(3), setting=r['setting'])
        _check_p2c_undone(ctx, sysm, spos, prim2, T3 @ T2, 'replay', r, extra_tol=_p2c_cleanup(np, sysm, np.rint(tab)))
    elif r.get('op') == 'rotate-large-grid':
        _oracle_large_grid(ctx, am, r['grid_seed'], r['natoms'], r['U'])
    elif r.get('op') == 'resolve' and 'case' in r:
        conv = build_conv(am, r['case'])
        try:
            conv.dump('conventional_to_primitive', setting=r['asked'], **r['kw'])
            ctx.notes.append(f"replay: conventional_to_primitive(setting={r['asked']!r}) accepted the cell")
        except Exception as e:  # noqa
            ctx.notes.append(f"replay: conventional_to_primitive(setting={r['asked']!r}) raised {type(e).__name__}: {e}")
    elif r.get('op') == 'conversion' and 'stored' in r:
        _run_conversion(ctx, am, r)
    elif r.get('op') == 'conversion-mixed' and 'stored' in r:
        _run_mixed(ctx, am, r)
    else:
        search(ctx, True)
