"""C10 — JSON/XML data-model round trip (uc.model/value_unit, Box/Atoms/System/ElasticConstants .model)."""
from __future__ import annotations

import json
import random
import re
from fractions import Fraction

from .. import common as cm

PROP = 'C10'
THEOREMS = [
    # arrays: reshape/flatten are mutually inverse for every shape
    'C10.unflatten_flatten', 'C10.flatten_unflatten_shape',
    # uc.value_unit(uc.model(x)) = x: tree/JSON, nested view, XML text
    'C10.valueUnit_model', 'C10.valueUnit_model_nested', 'C10.valueUnit_model_xml',
    # a value stored with its uncertainty (error=): value_unit and error_unit, one / two configurations
    'C10.errorUnit_model', 'C10.errorUnit_model_two',
    # physical value vs working units at write / read time
    'C10.physical_value_unit_independent', 'C10.physical_value_rescaled',
    # Box
    'C10.box_model_roundtrip', 'C10.box_model_roundtrip_exact', 'C10.box_model_roundtrip_xml',
    'C10.box_setter_roundtrip',
    # Atoms
    'C10.atoms_model_roundtrip', 'C10.atoms_model_roundtrip_xml', 'C10.atoms_model_select',
    # System (scaled properties, symbols, masses, pbc), two configurations
    'C10.system_model_roundtrip', 'C10.system_model_roundtrip_xml', 'C10.system_model_two_units',
    # ElasticConstants
    'C10.elastic_model_roundtrip', 'C10.elastic_model_roundtrip_exact', 'C10.elastic_model_roundtrip_xml',
    'C10.elastic_model_two', 'C10.elastic_setter_roundtrip',
    # normalized_as inside the model: crystals in the normal form of the requested crystal system come back exactly
    'C10.normalized_fixes_normal_form', 'C10.elastic_model_normal_form', 'C10.elastic_model_normal_form_two',
    'C10.elastic_model_second_generation',
    # objects with state (a Box keeps its reciprocal vectors; a System holds its Box): any history = fresh object
    'C10.box_object_conversions', 'C10.box_object_read_model', 'C10.sysobj_model_fresh', 'C10.sysobj_model_roundtrip',
    # the object invariants assumed above are established by the setters
    'C10.cleanVects_idem', 'C10.cijSet_idem',
]
PARTIAL = {
    'length-1 vector through XML text': "uc.value_unit alone reads a shape-(1,) array back from XML text as a "
        "scalar (valueUnit_model_xml states the exact exception, xmlShape); Atoms/System restore it by broadcasting "
        "(atoms_model_roundtrip_xml, system_model_roundtrip_xml are exact)",
    'integer data written with a unit': 'come back as the same numbers in floating point (Data.castU): get_in_units '
        'is a true division; stated in the theorems, not hidden',
    'empty arrays': 'the value theorems assume a non-empty array (prodNat shape != 0): numpy gives an empty list the '
        'float dtype, so empty int/str arrays change dtype class',
    'prop_unit subsets': 'Atoms: atoms_model_select covers every selection / order of properties (reading = '
        'constructing Atoms from the selected converted properties, defaults for a missing atype / pos). The System '
        'theorems are about writing all properties in dictionary order (the default of System.model / dump); a '
        'System.model call that selects properties is not stated as a theorem (the model functions systemModel / systemRead '
        'take any selection: 25 % of the System correspondence and oracle cases select and reorder properties)',
    'System objects': 'the object model (BoxObj / SysObj, BoxReach) covers the state that matters for this property - '
        'the reciprocal vectors a Box keeps - and the operations vects/origin setters, reciprocal_vects, position '
        'conversions, Box.model(model=), System.model; the other Box.set_* entry points (lengths, hi/los, abc) go '
        'through the same vects setter and are not modelled; Atoms and System have no model= reader on an existing '
        "object (constructors only); ElasticConstants keeps no derived state (observed: model(model=) on a used "
        'object = fresh object)',
    "ElasticConstants 'isotropic'": "normalized_as('isotropic') goes through the Hill estimates shear()/bulk() (inverse "
        '6x6 array, property C11): they are parameters of normForm, so elastic_model_normal_form covers the seven '
        "closed-form systems (cubic, hexagonal, tetragonal, rhombohedral, orthorhombic, monoclinic, triclinic); an isotropic tensor stored as 'isotropic' is checked on the real code only (1e-12)",
    'text codecs': "DataModelDict's JSON/XML codecs are not modelled character by character: JSON is taken as the "
        'identity on the tree, XML as xmlNorm (one-element-list collapse); both observed on every correspondence case',
}

RULE = ('seeded systems (1-7 atoms, 1-3 types, tilted / axis-permuted / all-nonzero cells of either handedness on a '
        'dyadic grid, non-zero origin, random pbc, missing/extra symbols, missing masses, int/float/str per-atom '
        "properties of rank 1-3), every unit choice per property: None, 'scaled' for (n,3) data, simple units, random "
        "compound unit expressions (every order of '*' and '/', parentheses, powers incl. negative and fractional, "
        'number literals, blanks) and dimension-preserving templates with a cancelling factor on either side '
        "(L/X*X, X*L/X, X/(X/L), eV/GPa/L^2, ... for lengths; eV/L^3, nN/L/L, P/X*X, ... for pressures); uc.model on "
        'values of rank 0-4, a quarter of them stored with error=; Box; Atoms (30 % with a random selection of the '
        'properties in random order); ElasticConstants generated in the general normal form of every crystal system '
        '(isotropic, cubic, hexagonal, 6- and 7-constant tetragonal, 6- and 7-constant rhombohedral, orthorhombic, '
        'monoclinic, triclinic; Cij= or named constants) and stored as every crystal_system argument incl. monoclinic and unknown names (60 % one in '
        'whose normal form the crystal already is); object sessions: one System holding one Box through 3-8 '
        'operations out of reciprocal_vects, position conversions, vects/origin setters, Box.model(model=) into the '
        'existing object, System dumps with box-scaled positions; every case written under one uc.reset_units '
        'configuration (six, one of them numericalunits\' random units) and read under another, through the '
        'DataModelDict tree, its JSON text and its XML text; systems also dumped to file paths and file objects, '
        "with the format name in lower/upper/title case, with indent, and loaded from multi-entry records with key=/"
        'index=; distinct = distinct canonical request line; non-trivial = a unit conversion, a reshape, a scaled '
        'property, a text encoding or object state is involved')
ASSUMPTIONS = [
    "the conversion factor of a unit string under a working-unit configuration is a scalar parameter fac(u) != 0 "
    "(uc.parse is property C09's subject; on every run the factors handed to the model are evaluated by the harness's "
    "own recursive-descent evaluator with the standard precedence over the live numericalunits values, never by "
    "uc.parse); the factor of one unit string under two configurations differs by a "
    "ratio r, and units of the same dimension share that ratio (hypothesis of physical_value_unit_independent)",
    "DataModelDict's JSON codec is lossless on the tree and its XML codec is lossless up to the collapse of "
    "one-element lists (modelled by xmlNorm) for strings that are non-empty, carry no surrounding whitespace and "
    "do not read as numbers/true/false; both are exercised by the correspondence run on every case",
    'DataModelDict.find(key) returns the unique sub-tree with that key (keys of the written models are unique)',
    "ElasticConstants.normalized_as is inside the model (normForm) for every crystal system whose constants are "
    "averages of the entries; for 'isotropic' the two Hill estimates shear(), bulk() (inverse 6x6 array, property "
    "C11's subject) are parameters taken from the implementation",
    'IEEE rounding of value/f and value*f is bounded by 2e-15 relative; of the 3x3 inverse used for scaled '
    'positions by 1e-10 on the generated cells (|entries| <= 8, |det| >= 8)',
]
TRUSTED = ['DataModelDict / xmltodict / json text codecs (observed on every case, not verified)',
           'numpy reshape/flatten/tolist/broadcast_to']

# ----------------------------------------------------------------------------------------
# working-unit configurations and unit strings
# ----------------------------------------------------------------------------------------
DEFAULT_CFG = dict(length='angstrom', mass='amu', energy='eV', charge='e')
CONFIGS = {
    'default': DEFAULT_CFG,
    'SI': dict(length='m', mass='kg', time='s', charge='C'),
    'nm-g-ps': dict(length='nm', mass='g', time='ps', charge='e'),
    'metal-J': dict(length='angstrom', time='ps', energy='J', charge='C'),
    'cm-eV': dict(length='cm', mass='amu', energy='eV', charge='e'),
    'random': dict(seed=20240928),      # numericalunits' random working units: all five base units non-trivial
}
UNITS = {
    'length': ['angstrom', 'nm', 'm', 'cm', 'pm'],
    'pressure': ['GPa', 'eV/angstrom^3', 'MPa', 'bar'],
    'energy': ['eV', 'J', 'mJ/mol'],
    'force': ['eV/angstrom', 'nN'],
    'charge': ['e', 'C'],
    'mass': ['amu', 'g'],
    'time': ['ps', 's', 'fs'],
    'velocity': ['angstrom/ps', 'm/s'],
    'area*': ['angstrom^2', 'nm*nm'],
}
ALL_UNITS = [u for us in UNITS.values() for u in us]


def _uc():
    import atomman.unitconvert as uc
    return uc


def set_cfg(name):
    _uc().reset_units(**CONFIGS[name])


def restore_units():
    _uc().reset_units(**DEFAULT_CFG)


# ----------------------------------------------------------------------------------------
# case generation (JSON-able specs; every random choice from the given rng)
# ----------------------------------------------------------------------------------------
WORDS = ['a', 'bb', 'Fe', 'core', 'x1', 'A-b', 'q_r', 'site', 'Zz']


def _gen_arr(rng, lead, dt=None, trailing=None, bits=3):
    dt = dt or rng.choice('fffiis')
    if trailing is None:
        trailing = rng.choice([[], [], [3], [2], [3, 3], [2, 2], [2, 3], [1], [1, 3]])
    shape = list(lead) + list(trailing)
    n = 1
    for s in shape:
        n *= s
    if dt == 'f':
        data = [cm.dyadic(rng, -8, 8, bits) if rng.random() < 0.7 else rng.uniform(-10, 10) for _ in range(n)]
    elif dt == 'i':
        data = [rng.randint(-5, 9) for _ in range(n)]
    else:
        data = [rng.choice(WORDS) for _ in range(n)]
    return {'dt': dt, 'shape': shape, 'data': data}


def _pick_unit(rng, arr, allow_scaled=True):
    if arr['dt'] == 's':
        return None
    r = rng.random()
    if allow_scaled and arr['shape'] and arr['shape'][-1] == 3 and len(arr['shape']) >= 2 and r < 0.3:
        return 'scaled'
    if r < 0.45:
        return None
    if r < 0.7:
        return rng.choice(ALL_UNITS)
    return gen_unit_expr(rng)


def _gen_box(rng):
    lx, ly, lz = (rng.randint(16, 64) / 8 for _ in range(3))
    xy, xz, yz = (rng.choice([0.0, 0.0, cm.dyadic(rng, -2, 2, 3)]) for _ in range(3))
    vects = [[lx, 0.0, 0.0], [xy, ly, 0.0], [xz, yz, lz]]
    if rng.random() < 0.3:      # general orientation: a signed permutation of the axes
        perm = rng.choice([[1, 2, 0], [2, 0, 1], [0, 2, 1]])
        sg = [rng.choice([1.0, -1.0]) for _ in range(3)]
        vects = [[sg[j] * v[perm[j]] for j in range(3)] for v in vects]
    elif rng.random() < 0.2:    # no zero entry, either handedness: |entries| <= 8, 8 <= |det|, nothing negligible
        for _ in range(200):
            m = [[cm.dyadic(rng, -8, 8, 2) for _ in range(3)] for _ in range(3)]
            (a, b, c), (d, e, f), (g, h, i) = m
            det = a * (e * i - f * h) - b * (d * i - f * g) + c * (d * h - e * g)
            if abs(det) >= 8 and all(abs(x) >= 0.25 for row in m for x in row):
                vects = m
                break
    origin = [0.0, 0.0, 0.0] if rng.random() < 0.25 else [cm.dyadic(rng, -4, 4, 2) for _ in range(3)]
    return {'vects': vects, 'origin': origin}


def _gen_cfgs(rng):
    names = list(CONFIGS)
    w1 = rng.choice(names)
    w2 = w1 if rng.random() < 0.3 else rng.choice(names)
    return w1, w2


def gen_uc(rng):
    rank = rng.choice([0, 0, 1, 1, 2, 2, 3, 4])
    shape = [rng.choice([1, 2, 3, 4]) for _ in range(rank)]
    arr = _gen_arr(rng, shape, trailing=[], dt=rng.choice('ffffis'))
    unit = _pick_unit(rng, arr, allow_scaled=False)
    if arr['dt'] != 's' and rng.random() < 0.08:
        unit = 'scaled'
    w1, w2 = _gen_cfgs(rng)
    case = {'kind': 'uc', 'via': rng.choice(['tree', 'json', 'xml']), 'w1': w1, 'w2': w2, 'unit': unit, 'arr': arr,
            'form': rng.choice(['ndarray', 'ndarray', 'python', 'fview'])}
    if arr['dt'] == 'f' and rng.random() < 0.25:
        # uc.model(value, unit, error=...): an uncertainty of the same shape, stored next to the value
        case['err'] = [cm.dyadic(rng, 0, 2, 4) for _ in arr['data']]
    return case


def _len_unit(rng):
    return gen_dim_unit(rng, 'length') if rng.random() < 0.45 else rng.choice(UNITS['length'] + [None])


def gen_box(rng):
    w1, w2 = _gen_cfgs(rng)
    return {'kind': 'box', 'via': rng.choice(['tree', 'json', 'xml']), 'w1': w1, 'w2': w2,
            'unit': _len_unit(rng), 'box': _gen_box(rng)}


def _gen_props(rng, natoms, ntypes):
    atype = [rng.randint(1, ntypes) for _ in range(natoms)]
    atype[rng.randrange(natoms)] = ntypes
    pos = _gen_arr(rng, [natoms], dt='f', trailing=[3])
    props = [{'name': 'atype', 'unit': None, 'dt': 'i', 'shape': [natoms], 'data': atype},
             dict(pos, name='pos', unit=rng.choice([None, 'scaled', 'scaled', 'angstrom', 'nm', 'm',
                                                    gen_dim_unit(rng, 'length'), gen_dim_unit(rng, 'length')]))]
    names = ['charge', 'tag', 'n', 'stress', 'vel', 'disp', 'label', 'T', 'spin']
    rng.shuffle(names)
    for name in names[:rng.randint(0, 4)]:
        arr = _gen_arr(rng, [natoms])
        props.append(dict(arr, name=name, unit=_pick_unit(rng, arr)))
    return props


def gen_atoms(rng):
    natoms = rng.randint(1, 6)
    ntypes = rng.randint(1, 3)
    w1, w2 = _gen_cfgs(rng)
    props = _gen_props(rng, natoms, ntypes)
    for p in props:
        if p['unit'] == 'scaled' and rng.random() < 0.5:
            p['unit'] = 'nm'        # Atoms.model alone treats 'scaled' as factor 1
    case = {'kind': 'atoms', 'via': rng.choice(['tree', 'json', 'xml']), 'w1': w1, 'w2': w2,
            'natoms': natoms, 'props': props}
    if rng.random() < 0.3:
        # Atoms.model(prop_unit=...) with a selection of the properties in another order (atype / pos may be left
        # out: the reader then fills in the constructor's defaults)
        sel = [p for p in props if rng.random() < 0.7]
        rng.shuffle(sel)
        case['sel'] = [{'name': p['name'], 'unit': p['unit']} for p in sel]
    return case


def gen_sys(rng):
    natoms = rng.randint(1, 7)
    ntypes = rng.randint(1, 3)
    w1, w2 = _gen_cfgs(rng)
    props = _gen_props(rng, natoms, ntypes)
    nsym = rng.choice([0, ntypes, ntypes, ntypes, ntypes + 1, max(0, ntypes - 1)])
    symbols = [rng.choice(['Al', 'Cu', 'Fe', 'Ni-1', None]) for _ in range(nsym)]
    natS = max(nsym, ntypes)
    mode = rng.choice(['none', 'all', 'some', 'short'])
    if mode == 'none':
        masses = []
    elif mode == 'all':
        masses = [rng.randint(8, 800) / 8 for _ in range(natS)]
    elif mode == 'some':
        masses = [rng.choice([None, rng.uniform(1, 200)]) for _ in range(natS)]
    else:
        masses = [rng.uniform(1, 200) for _ in range(rng.randint(0, natS))]
    sel = None
    if rng.random() < 0.25:
        # System.model / dump with a selection of the properties in another order (atype / pos possibly left out)
        chosen = [p for p in props if rng.random() < 0.7]
        rng.shuffle(chosen)
        sel = [{'name': p['name'], 'unit': p['unit']} for p in chosen]
    return {'kind': 'sys', 'via': rng.choice(['tree', 'json', 'xml']), 'w1': w1, 'w2': w2, 'sel': sel,
            'box': _gen_box(rng), 'box_unit': _len_unit(rng),
            'pbc': [rng.random() < 0.6 for _ in range(3)], 'symbols': symbols, 'masses': masses,
            'natoms': natoms, 'props': props,
            'call': rng.choice(['prop_unit', 'prop_unit', 'lists', 'default']),
            'io': rng.choice(['str', 'str', 'path', 'fileobj']),
            'fmtcase': rng.choice([None, None, None, 'upper', 'title']), 'indent': rng.choice([None, None, None, 1, 4]),
            # the system as one of several entries of a larger record: load(..., key=, index=)
            'record': rng.choice([None, None, {'key': 'atomic-system', 'index': 1}, {'key': 'final-system', 'index': 0},
                                  {'key': 'relaxed-system', 'index': 2}])}


# 'monoclinic' is a crystal system of normalized_as since repo fix 877d779 (13 constants kept, the rest zeroed)
EC_SYSTEMS = ['triclinic', 'isotropic', 'cubic', 'hexagonal', 'tetragonal', 'rhombohedral', 'orthorhombic', 'monoclinic']
# the crystal systems in whose normal form a tensor of the given form already is (normalized_as must not change it)
EC_INFORM = {
    'isotropic': {'isotropic', 'cubic', 'hexagonal', 'tetragonal', 'rhombohedral', 'orthorhombic', 'monoclinic', 'triclinic'},
    'cubic': {'cubic', 'tetragonal', 'orthorhombic', 'monoclinic', 'triclinic'},
    'hexagonal': {'hexagonal', 'tetragonal', 'rhombohedral', 'orthorhombic', 'monoclinic', 'triclinic'},
    'tetragonal6': {'tetragonal', 'orthorhombic', 'monoclinic', 'triclinic'},
    'tetragonal7': {'tetragonal', 'triclinic'},
    'rhombohedral6': {'rhombohedral', 'triclinic'},
    'rhombohedral7': {'rhombohedral', 'triclinic'},
    'orthorhombic': {'orthorhombic', 'monoclinic', 'triclinic'},
    'monoclinic': {'monoclinic', 'triclinic'},
    'triclinic': {'triclinic'},
}
EC_KEYS = {
    'isotropic': ['C11', 'C12'], 'cubic': ['C11', 'C12', 'C44'], 'hexagonal': ['C11', 'C33', 'C12', 'C13', 'C44'],
    'tetragonal6': ['C11', 'C33', 'C12', 'C13', 'C44', 'C66'], 'tetragonal7': ['C11', 'C33', 'C12', 'C13', 'C44', 'C66', 'C16'],
    'rhombohedral6': ['C11', 'C33', 'C12', 'C13', 'C14', 'C44'],
    'rhombohedral7': ['C11', 'C33', 'C12', 'C13', 'C14', 'C15', 'C44'],
    'orthorhombic': ['C11', 'C22', 'C33', 'C12', 'C13', 'C23', 'C44', 'C55', 'C66'],
    'monoclinic': ['C11', 'C12', 'C13', 'C15', 'C22', 'C23', 'C25', 'C33', 'C35', 'C44', 'C46', 'C55', 'C66'],
    'triclinic': ['C%d%d' % (i, j) for i in range(1, 7) for j in range(i, 7)],
}


def ec_form_matrix(form, k):
    """the 6x6 array of a crystal in the general normal form of `form` (Nye's tables), written out here from the
    named constants `k` - not through atomman's constructors."""
    g = lambda n: k.get(n, 0.0)    # noqa: E731
    C = [[0.0] * 6 for _ in range(6)]

    def put(i, j, v):
        C[i - 1][j - 1] = v
        C[j - 1][i - 1] = v
    if form == 'triclinic':
        for i in range(1, 7):
            for j in range(i, 7):
                put(i, j, g('C%d%d' % (i, j)))
        return C
    if form in ('isotropic', 'cubic'):
        c44 = (g('C11') - g('C12')) / 2 if form == 'isotropic' else g('C44')
        for i in (1, 2, 3):
            put(i, i, g('C11'))
            put(i + 3, i + 3, c44)
        for i, j in ((1, 2), (1, 3), (2, 3)):
            put(i, j, g('C12'))
        return C
    if form in ('orthorhombic', 'monoclinic'):
        for n in EC_KEYS[form]:
            put(int(n[1]), int(n[2]), g(n))
        return C
    # hexagonal / tetragonal / rhombohedral families: C22 = C11, C23 = C13, C55 = C44
    put(1, 1, g('C11')); put(2, 2, g('C11')); put(3, 3, g('C33'))   # noqa: E702
    put(1, 2, g('C12')); put(1, 3, g('C13')); put(2, 3, g('C13'))   # noqa: E702
    put(4, 4, g('C44')); put(5, 5, g('C44'))                        # noqa: E702
    put(6, 6, g('C66') if form.startswith('tetragonal') else (g('C11') - g('C12')) / 2)
    if form == 'tetragonal7':
        put(1, 6, g('C16')); put(2, 6, -g('C16'))                   # noqa: E702
    if form.startswith('rhombohedral'):
        put(1, 4, g('C14')); put(2, 4, -g('C14')); put(5, 6, g('C14'))   # noqa: E702
        put(1, 5, g('C15')); put(2, 5, -g('C15')); put(4, 6, -g('C15'))  # noqa: E702
    return C


def gen_ec(rng):
    """elastic constants in the general normal form of every crystal system (7-constant tetragonal and
    rhombohedral, monoclinic, triclinic included), stored as every crystal_system."""
    form = rng.choice(list(EC_INFORM))
    exact = rng.random() < 0.7
    scale = rng.choice([1.0, 12.5, 0.25])

    def num(lo, hi, signed=False):
        x = rng.randint(int(lo * 4), int(hi * 4)) / 4 if exact else rng.uniform(lo, hi)
        if signed and rng.random() < 0.5:
            x = -x
        return x * scale
    k = {}
    for n in EC_KEYS[form]:
        i, j = int(n[1]), int(n[2])
        if i == j:
            k[n] = num(100, 225) if i <= 3 else num(10, 75)
        elif j <= 3:
            k[n] = num(25, 75)
        else:
            k[n] = num(2, 25, signed=True)        # never zero: C14, C15, C16, C25, C35, C46 ...
    if form == 'isotropic':
        k['C11'] = k['C12'] + 2 * num(10, 75)
    r = rng.random()
    inform = sorted(EC_INFORM[form])
    cs = rng.choice(inform) if r < 0.6 else (rng.choice(EC_SYSTEMS) if r < 0.97 else rng.choice(['Monoclinic', 'cubics']))
    w1, w2 = _gen_cfgs(rng)
    return {'kind': 'ec', 'via': rng.choice(['tree', 'json', 'xml']), 'w1': w1, 'w2': w2, 'form': form,
            'kw': k if (rng.random() < 0.3 and form != 'isotropic') else None, 'C': ec_form_matrix(form, k),
            'unit': gen_dim_unit(rng, 'pressure') if rng.random() < 0.4 else rng.choice(UNITS['pressure'] + [None]),
            'cs': cs}


def gen_obj(rng):
    """one System object holding one Box object, driven through a sequence of operations: conversions that make
    the box keep its reciprocal vectors, setter calls, Box.model(model=...) reads into the existing object, and
    System dumps with box-scaled positions."""
    natoms = rng.randint(1, 4)
    pos = [cm.dyadic(rng, -8, 8, 3) for _ in range(3 * natoms)]
    ops = []
    for _ in range(rng.randint(3, 8)):
        o = rng.choice(['warm', 'warm', 'c2r', 'c2r', 'c2r', 'r2c', 'setv', 'seto', 'bread', 'bread', 'bread',
                        'sysdump', 'sysdump', 'sysdump'])
        if o in ('c2r', 'r2c'):
            ops.append({'op': o, 'p': [cm.dyadic(rng, -8, 8, 3) for _ in range(3)]})
        elif o == 'setv':
            ops.append({'op': o, 'm': _gen_box(rng)['vects']})
        elif o == 'seto':
            ops.append({'op': o, 'o': [cm.dyadic(rng, -4, 4, 2) for _ in range(3)]})
        elif o == 'bread':
            ops.append({'op': o, 'via': rng.choice(['tree', 'json', 'xml']), 'unit': _len_unit(rng), 'box': _gen_box(rng)})
        elif o == 'sysdump':
            ops.append({'op': o, 'via': rng.choice(['tree', 'json', 'xml']), 'unit': _len_unit(rng)})
        else:
            ops.append({'op': o})
    w1, w2 = _gen_cfgs(rng)
    return {'kind': 'obj', 'via': 'obj', 'w1': w1, 'w2': w2, 'box': _gen_box(rng), 'natoms': natoms, 'pos': pos, 'ops': ops}


# ----------------------------------------------------------------------------------------
# running a case on the real code
# ----------------------------------------------------------------------------------------
def _nparr(a):
    import numpy as np
    if a['dt'] == 'f':
        return np.array(a['data'], dtype=float).reshape(a['shape'])
    if a['dt'] == 'i':
        return np.array(a['data'], dtype=int).reshape(a['shape'])
    return np.array(a['data'], dtype=str).reshape(a['shape'])


def _mk_box(b):
    import atomman as am
    return am.Box(avect=b['vects'][0], bvect=b['vects'][1], cvect=b['vects'][2], origin=b['origin'])


def _mk_atoms(case):
    import atomman as am
    kw = {}
    for p in case['props']:
        kw[p['name']] = _nparr(p)
    return am.Atoms(**kw)


def _mk_sys(case):
    import atomman as am
    return am.System(atoms=_mk_atoms(case), box=_mk_box(case['box']), pbc=case['pbc'],
                     symbols=case['symbols'] if case['symbols'] else None,
                     masses=case['masses'] if case['masses'] else None)


def _mk_ec(case):
    import atomman as am
    import numpy as np
    if case.get('kw') is not None:
        return am.ElasticConstants(**case['kw'])
    return am.ElasticConstants(Cij=np.array(case['C']))


def eff_unit(name, unit):
    return 'angstrom' if (name == 'pos' and unit is None) else unit


def _units_of(case):
    k = case['kind']
    if k == 'obj':
        return [op['unit'] for op in case['ops'] if 'unit' in op]
    if k in ('uc', 'box', 'ec'):
        return [case['unit']]
    if case.get('sel') is not None:
        return [eff_unit(e['name'], e['unit']) for e in case['sel']] + ([case['box_unit']] if k == 'sys' else [])
    us = [eff_unit(p['name'], p['unit']) for p in case['props']]
    if k == 'sys':
        us.append(case['box_unit'])
    return us


# ---- unit expressions: an evaluator that shares nothing with uc.parse ------------------------------------
#   expr    := power (('*' | '/') power)*        left to right, '*' and '/' of equal precedence
#   power   := primary ('^' number)?             binds tighter than '*' '/'
#   primary := NAME | number | '(' expr ')'
_TOK = re.compile(r'\s*(?:([A-Za-z_][A-Za-z_0-9]*)|(-?(?:[0-9]+\.?[0-9]*|\.[0-9]+))|([*/^()]))')


def unit_ast(u):
    """abstract syntax of a unit expression with the standard precedence (see grammar above)."""
    toks, i = [], 0
    u = u.rstrip()
    while i < len(u):
        m = _TOK.match(u, i)
        if m is None:
            raise ValueError(f'unit expression outside the harness grammar: {u!r}')
        toks.append(('name', m.group(1)) if m.group(1) else ('num', m.group(2)) if m.group(2) else ('op', m.group(3)))
        i = m.end()
    pos = [0]

    def peek():
        return toks[pos[0]] if pos[0] < len(toks) else (None, None)

    def primary():
        k, v = peek()
        pos[0] += 1
        if k == 'name':
            return ('name', v)
        if k == 'num':
            return ('num', float(v))
        if (k, v) == ('op', '('):
            e = expr()
            if peek() != ('op', ')'):
                raise ValueError(f'unbalanced parentheses in {u!r}')
            pos[0] += 1
            return e
        raise ValueError(f'unit expression outside the harness grammar: {u!r}')

    def power():
        b = primary()
        if peek() == ('op', '^'):
            pos[0] += 1
            k, v = peek()
            if k != 'num':
                raise ValueError(f'exponent is not a number in {u!r}')
            pos[0] += 1
            return ('pow', b, float(v))
        return b

    def expr():
        e = power()
        while peek() in (('op', '*'), ('op', '/')):
            op = peek()[1]
            pos[0] += 1
            e = ('mul' if op == '*' else 'div', e, power())
        return e

    e = expr()
    if pos[0] != len(toks):
        raise ValueError(f'unit expression outside the harness grammar: {u!r}')
    return e


def eval_ast(e, env):
    """(value, relative rounding bound in units of 2^-53) of the expression over `env(name)`."""
    k = e[0]
    if k == 'name':
        return float(env(e[1])), 0.0
    if k == 'num':
        return e[1], 0.0
    if k == 'pow':
        b, eb = eval_ast(e[1], env)
        return b ** e[2], abs(e[2]) * eb + 2.0
    a, ea = eval_ast(e[1], env)
    b, eb = eval_ast(e[2], env)
    return (a * b if k == 'mul' else a / b), ea + eb + 1.0


def _live(name):
    import numericalunits as nu
    return getattr(nu, name)


def own_factor(u):
    """factor of the unit expression `u` under the *current* working units, evaluated here over the live
    numericalunits attributes with the standard precedence - independent of uc.parse / uc.unit, so neither a stale
    or cached factor nor a parser that orders the operators differently can hide behind the harness measuring
    factors with the same function."""
    return eval_ast(unit_ast(u), _live)[0]


def unit_ulps(u):
    """bound (in units of 2^-53, relative) on the difference between two correctly rounded evaluations of `u`
    that associate the operators differently."""
    if u is None or u == 'scaled':
        return 0.0
    return eval_ast(unit_ast(u), lambda n: 1.0)[1]


# ---- generation of compound unit expressions -----------------------------------------------------------------
UNIT_NAMES = ['angstrom', 'nm', 'm', 'cm', 'pm', 'GPa', 'MPa', 'bar', 'eV', 'J', 'mJ', 'mol', 'nN', 'e', 'C',
              'amu', 'g', 'kg', 'ps', 's', 'fs', 'ns']
_SNAP = {}


def _snapshots():
    """name -> value tables of every configuration (only to keep generated factors in a sane range)."""
    if not _SNAP:
        import numericalunits as nu
        try:
            for c in CONFIGS:
                set_cfg(c)
                _SNAP[c] = {n: float(getattr(nu, n)) for n in UNIT_NAMES}
        finally:
            restore_units()
    return _SNAP


def _sane(u):
    for tab in _snapshots().values():
        try:
            v = eval_ast(unit_ast(u), tab.__getitem__)[0]
        except (OverflowError, ZeroDivisionError):
            return False
        if not (1e-90 < abs(v) < 1e90):
            return False
    return True


def _sp(rng):
    return ' ' if rng.random() < 0.12 else ''


def _g_primary(rng, depth, names):
    r = rng.random()
    if depth > 0 and r < 0.22:
        return '(' + _g_expr(rng, depth - 1, names) + ')'
    if r < 0.28:
        return rng.choice(['2', '0.5', '10', '1000'])
    return rng.choice(names)


def _g_power(rng, depth, names):
    p = _g_primary(rng, depth, names)
    if rng.random() < 0.3:
        p += '^' + rng.choice(['2', '3', '-1', '-2', '0.5', '1'])
    return p


def _g_expr(rng, depth, names):
    s = _g_power(rng, depth, names)
    for _ in range(rng.choice([0, 1, 1, 2, 2, 3]) if depth < 2 else rng.choice([1, 2, 2, 3, 3, 4])):
        a, b = _sp(rng), _sp(rng)
        s += a + rng.choice('*/') + b + _g_power(rng, depth, names)
    return s


def gen_unit_expr(rng):
    """a random compound unit expression: every order of '*' and '/', parentheses, powers, number literals."""
    for _ in range(50):
        u = _g_expr(rng, 2, UNIT_NAMES)
        if re.search(r'[A-Za-z]', u) and _sane(u):
            return u
    return 'eV/angstrom^3*ps'


def gen_dim_unit(rng, dim):
    """a compound expression of the given dimension ('length' or 'pressure') built from templates in which a
    cancelling factor X appears on either side of the base unit, in every operator order."""
    L = lambda: rng.choice(UNITS['length'])   # noqa: E731
    X = lambda: rng.choice(['ps', 'fs', 'eV', 'amu', 'GPa', 'e', 'nm', 'J', 's'])   # noqa: E731
    for _ in range(50):
        x = X()
        if dim == 'length':
            l1, l2 = L(), L()
            u = rng.choice(['{l1}', '{l1}/{x}*{x}', '{x}*{l1}/{x}', '{l1}*{x}/{x}', '{x}/({x}/{l1})', '{l1}^3/{l2}^2',
                            '({l1}*{x})/{x}', '{l1}^2/{l2}', '1/{l1}^-1', '{l1}/{l2}*{l2}', '2*{l1}/2',
                            '{l1}/{x}^2*{x}*{x}', 'eV/GPa/{l1}^2', '(eV/GPa)^0.5/{l1}^0.5', '{l1}/({x}*{x})*{x}^2'])
            u = u.format(l1=l1, l2=l2, x=x)
        else:
            p, l1, l2, l3 = rng.choice(UNITS['pressure'][:1] + ['MPa', 'bar']), L(), L(), L()
            u = rng.choice(['{p}', 'eV/{l1}^3', 'nN/{l1}^2', 'nN/{l1}/{l2}', '{p}/{x}*{x}', 'J/{l1}^2/{l2}',
                            'eV/({l1}*{l2}*{l3})', 'eV/{l1}^3*{x}/{x}', '{x}*{p}/{x}', 'J/m^3*{l1}/{l2}',
                            '({p})', '{p}*({x}/{x})', 'nN*{l1}/{l2}^3', 'eV/{l1}^2*{l2}^-1'])
            u = u.format(p=p, l1=l1, l2=l2, l3=l3, x=x)
        if rng.random() < 0.1:
            u = u.replace('*', ' * ').replace('/', ' / ')
        if _sane(u):
            return u
    return 'angstrom' if dim == 'length' else 'GPa'


def _factors(case):
    out = {}
    for u in _units_of(case):
        if u is not None and u != 'scaled':
            out[u] = own_factor(u)
    return out


def _to_text(model, via, wrap):
    from DataModelDict import DataModelDict as DM
    if via == 'tree':
        return model
    m = DM([('x', model)]) if wrap else model
    return m.json() if via == 'json' else m.xml()


def _reparse(text, wrap):
    from DataModelDict import DataModelDict as DM
    t = DM(text)
    return t['x'] if wrap else t


class RealRun:
    """What the real code produced for one case: written tree, tree after the text codec, read-back."""
    def __init__(self):
        self.tree = None
        self.via_tree = None
        self.read = None
        self.write_error = None
        self.text_error = None
        self.read_error = None
        self.fW = {}
        self.fR = {}
        self.extra = {}


def _box_out(box):
    return {'box': {'avect': box.avect.tolist(), 'bvect': box.bvect.tolist(), 'cvect': box.cvect.tolist(),
                    'origin': box.origin.tolist()}}


def _run_obj(case, r) -> RealRun:
    """an object session on the real code.  r.extra['outs'][i] is what operation i returned ({'error': ...} when
    it raised: the session stops there), r.extra['facs'][i] the harness-evaluated unit factors (write, read)."""
    import atomman as am
    import numpy as np
    n = case['natoms']
    set_cfg(case['w1'])
    outs, facs = [], []
    r.extra['outs'], r.extra['facs'] = outs, facs
    try:
        system = am.System(atoms=am.Atoms(pos=np.array(case['pos'], dtype=float).reshape(n, 3)), box=_mk_box(case['box']))
    except Exception as e:  # noqa
        r.write_error = f'{type(e).__name__}: {e}'
        return r
    for op in case['ops']:
        o, u = op['op'], op.get('unit')
        fac = (1.0, 1.0)
        if u is not None:
            set_cfg(case['w1'])
            fw = own_factor(u)
            set_cfg(case['w2'])
            fac = (fw, own_factor(u))
        facs.append(fac)
        box = system.box
        try:
            if o == 'warm':
                out = {'recip': box.reciprocal_vects.tolist()}
            elif o == 'c2r':
                out = {'rel': box.position_cartesian_to_relative(np.array(op['p'])).tolist()}
            elif o == 'r2c':
                out = {'cart': box.position_relative_to_cartesian(np.array(op['p'])).tolist()}
            elif o == 'setv':
                box.vects = op['m']
                out = _box_out(box)
            elif o == 'seto':
                box.origin = op['o']
                out = _box_out(box)
            elif o == 'bread':
                set_cfg(case['w1'])
                text = _to_text(_mk_box(op['box']).model(length_unit=u), op['via'], False)
                set_cfg(case['w2'])
                box.model(model=text)           # read into the existing object
                out = _box_out(box)
            else:
                set_cfg(case['w1'])
                kw = dict(box_unit=u, prop_unit={'atype': None, 'pos': 'scaled'})
                text = system.model(**kw) if op['via'] == 'tree' else system.dump('system_model', format=op['via'], **kw)
                set_cfg(case['w2'])
                out = {'read': am.System(model=text) if op['via'] == 'tree' else am.load('system_model', text)}
            outs.append(out)
        except Exception as e:  # noqa
            outs.append({'error': f'{type(e).__name__}: {e}'})
            break
    return r


def _run_real(case, r) -> RealRun:
    """write under configuration w1, encode, read under w2.  Leaves w2 active: callers restore."""
    if case['kind'] == 'obj':
        return _run_obj(case, r)
    import atomman as am
    import numpy as np
    uc = _uc()
    k, via = case['kind'], case['via']
    set_cfg(case['w1'])
    r.fW = _factors(case)
    wrap = k == 'uc'
    try:
        if k == 'uc':
            value = _nparr(case['arr'])
            if case.get('form') == 'python':        # the documented array-like input: scalars / nested lists
                value = value.tolist()
            elif case.get('form') == 'fview' and value.ndim >= 2:   # same array, column-major memory
                value = np.asfortranarray(value)
            model = uc.model(value, case['unit'])
            if case.get('err') is not None:
                err = np.array(case['err'], dtype=float).reshape(case['arr']['shape'])
                if case.get('form') == 'python':
                    err = err.tolist()
                elif case.get('form') == 'fview' and err.ndim >= 2:
                    err = np.asfortranarray(err)
                r.extra['emodel'] = uc.model(value, case['unit'], error=err)
        elif k == 'box':
            model = _mk_box(case['box']).model(length_unit=case['unit'])
        elif k == 'atoms':
            chosen = case['sel'] if case.get('sel') is not None else case['props']
            model = _mk_atoms(case).model(prop_unit={p['name']: p['unit'] for p in chosen})
        elif k == 'sys':
            s = _mk_sys(case)
            r.extra['symbols'] = list(s.symbols)
            r.extra['masses'] = list(s.masses)
            chosen = case['sel'] if case.get('sel') is not None else case['props']
            names = [p['name'] for p in chosen]
            units = [p['unit'] for p in chosen]
            call = case.get('call', 'prop_unit')
            if case.get('sel') is not None and call == 'default':
                call = 'prop_unit'
            if call == 'default' and all(u is None for u in units):
                fmtkw = {}
            elif call == 'lists':
                fmtkw = dict(prop_name=names, unit=units)
            else:
                fmtkw = dict(prop_unit=dict(zip(names, units)))
            if via == 'tree':
                model = s.model(box_unit=case['box_unit'], **fmtkw)
            else:
                model = s.dump('system_model', box_unit=case['box_unit'], **fmtkw)
        else:
            ec = _mk_ec(case)
            r.extra['C'] = ec.Cij.flatten().tolist()
            try:        # Hill estimates (need the inverse 6x6 array): parameters of the model's 'isotropic' branch
                r.extra['muK'] = (float(ec.shear()), float(ec.bulk()))
            except Exception:  # noqa
                r.extra['muK'] = None
            model = ec.model(unit=case['unit'], crystal_system=case['cs'])
    except Exception as e:  # noqa
        r.write_error = f'{type(e).__name__}: {e}'
        return r
    r.tree = model
    # the format name in the spelling of the case ('json', 'JSON', 'Xml', ...) and an optional indentation
    fmt = {'upper': via.upper(), 'title': via.title()}.get(case.get('fmtcase'), via)
    if k == 'sys' and case.get('indent') is not None:
        fmtkw = dict(fmtkw, indent=case['indent'])
    try:
        if k == 'sys' and via != 'tree' and case.get('io', 'str') != 'str':
            # dump(f=...) : format taken from the file extension (path) or given (file object)
            import os
            import tempfile
            fd, path = tempfile.mkstemp(suffix='.' + (fmt if case['io'] == 'path' else via), prefix='c10_')
            os.close(fd)
            r.extra['path'] = path
            if case['io'] == 'path':
                s.dump('system_model', f=path, box_unit=case['box_unit'], **fmtkw)   # format from the extension
            else:
                with open(path, 'w', encoding='UTF-8') as fp:
                    s.dump('system_model', f=fp, format=fmt, box_unit=case['box_unit'], **fmtkw)
            with open(path, encoding='UTF-8') as fp:
                text = fp.read()
        elif k == 'sys' and via != 'tree':
            text = s.dump('system_model', format=fmt, box_unit=case['box_unit'], **fmtkw)
        else:
            text = _to_text(model, via, wrap)
        r.extra['text'] = text if isinstance(text, str) else None
    except Exception as e:  # noqa
        r.text_error = f'{type(e).__name__}: {e}'
        return r
    set_cfg(case['w2'])
    r.fR = _factors(case)
    try:
        if via != 'tree':
            r.via_tree = _reparse(text, wrap)
        if k == 'uc':
            r.read = uc.value_unit(text if via == 'tree' else r.via_tree)
            if 'emodel' in r.extra:
                try:
                    et = r.extra['emodel'] if via == 'tree' else _reparse(_to_text(r.extra['emodel'], via, True), True)
                    r.extra['evia'] = None if via == 'tree' else et
                    r.extra['eread'] = (uc.value_unit(et), uc.error_unit(et))
                except Exception as e:  # noqa
                    r.extra['eread_error'] = f'{type(e).__name__}: {e}'
        elif k == 'box':
            r.read = am.Box(model=text)
        elif k == 'atoms':
            r.read = am.Atoms(model=text)
        elif k == 'sys':
            if via == 'tree':
                r.read = am.System(model=text)
            elif case.get('io', 'str') == 'path':
                r.read = am.load('system_model', r.extra['path'])
            elif case.get('io', 'str') == 'fileobj':
                with open(r.extra['path'], 'rb') as fp:      # DataModelDict wants file objects in bytes mode
                    r.read = am.load('system_model', fp)
            else:
                rec = case.get('record')
                if rec is None:
                    r.read = am.load('system_model', text)
                else:
                    # the written system sits at position `index` among entries with the key `key`; the other
                    # entries are a different (default) system
                    from DataModelDict import DataModelDict as DM
                    decoy = am.System().model()['atomic-system']
                    mine = DM(text)['atomic-system']
                    entries = [decoy] * rec['index'] + [mine] + [decoy]
                    record = DM([('calculation', DM([('id', 'c10'), (rec['key'], entries)]))])
                    rtext = record.json() if via == 'json' else record.xml()
                    r.read = am.load('system_model', rtext, key=rec['key'], index=rec['index'])
        else:
            r.read = am.ElasticConstants(model=text)
            # the same model read into an *existing* object that was used before (compliances, 3x3x3x3 form)
            try:
                old = am.ElasticConstants(C11=3.0, C12=1.0, C44=0.5)
                old.Sij, old.Cijkl      # noqa: B018
                old.model(model=text)
                r.extra['existing'] = (old.Cij.flatten().tolist(), old.Sij.flatten().tolist())
                r.extra['fresh_S'] = r.read.Sij.flatten().tolist()
            except Exception as e:  # noqa
                r.extra['existing_error'] = f'{type(e).__name__}: {e}'
            # second generation: what was read is in the normal form of `cs`, so storing it again the same way
            # (under the reading configuration) must reproduce it
            try:
                m2 = r.read.model(unit=case['unit'], crystal_system=case['cs'])
                r.extra['read2'] = am.ElasticConstants(model=_to_text(m2, via, False)).Cij.flatten().tolist()
            except Exception as e:  # noqa
                r.extra['read2_error'] = f'{type(e).__name__}: {e}'
    except Exception as e:  # noqa
        r.read_error = f'{type(e).__name__}: {e}'
    return r


def run_real(case) -> RealRun:
    r = RealRun()
    try:
        return _run_real(case, r)
    finally:
        if 'path' in r.extra:
            import os
            try:
                os.unlink(r.extra['path'])
            except OSError:
                pass


# ----------------------------------------------------------------------------------------
# request line for the Lean driver
# ----------------------------------------------------------------------------------------
SPACE = '%'       # a blank inside a unit expression, on the request line (decoded by the driver)


def _u(unit, fW, fR, name=None):
    eu = eff_unit(name, unit) if name else unit
    a = fW.get(eu, 1.0)
    b = fR.get(eu, 1.0)
    return f"{unit.replace(' ', SPACE) if unit is not None else '-'} {cm.fr(a)} {cm.fr(b)}"


def _arr_tokens(a):
    head = f"{a['dt']} {len(a['shape'])} " + ' '.join(str(s) for s in a['shape'])
    if a['dt'] == 'f':
        body = ' '.join(cm.fr(x) for x in a['data'])
    else:
        body = ' '.join(str(x) for x in a['data'])
    return (head.strip() + ' ' + body).strip()


def _box_tokens(b):
    return ' '.join(cm.fr(x) for row in b['vects'] for x in row) + ' ' + ' '.join(cm.fr(x) for x in b['origin'])


def _obj_line(case, r):
    toks = ['obj', _box_tokens(case['box']), str(case['natoms'])] + [cm.fr(x) for x in case['pos']]
    for op, fac in zip(case['ops'], r.extra['facs']):       # the operations that were started
        o = op['op']
        toks.append(o)
        if o in ('c2r', 'r2c'):
            toks += [cm.fr(x) for x in op['p']]
        elif o == 'setv':
            toks += [cm.fr(x) for row in op['m'] for x in row]
        elif o == 'seto':
            toks += [cm.fr(x) for x in op['o']]
        elif o in ('bread', 'sysdump'):
            u = op['unit']
            toks += [op['via'], _u(u, {u: fac[0]}, {u: fac[1]})]
            if o == 'bread':
                toks.append(_box_tokens(op['box']))
    return ' '.join(toks)


def request_line(case, r: RealRun) -> str:
    k, via = case['kind'], case['via']
    if k == 'obj':
        return _obj_line(case, r)
    if k == 'uc':
        return f"uc {via} {_u(case['unit'], r.fW, r.fR)} {_arr_tokens(case['arr'])}"
    if k == 'box':
        return f"box {via} {_u(case['unit'], r.fW, r.fR)} {_box_tokens(case['box'])}"
    props = ' '.join(f"{p['name']} {_u(p['unit'], r.fW, r.fR, p['name'])} {_arr_tokens(p)}"
                     for p in case.get('props', []))
    if k == 'atoms':
        line = f"atoms {via} {case['natoms']} {len(case['props'])} {props}"
        if case.get('sel') is not None:
            line += f" sel {len(case['sel'])} " + ' '.join(f"{e['name']} {_u(e['unit'], r.fW, r.fR, e['name'])}"
                                                           for e in case['sel'])
        return line.strip()
    if k == 'sys':
        symbols, ms = r.extra['symbols'], r.extra['masses']      # the System's state (padded with None)
        syms = ' '.join('-' if s is None else s for s in symbols)
        masses = ' '.join('-' if m is None else cm.fr(m) for m in ms)
        pbc = ' '.join('1' if b else '0' for b in case['pbc'])
        line = (f"sys {via} {_u(case['box_unit'], r.fW, r.fR)} {_box_tokens(case['box'])} {pbc} "
                f"{len(symbols)} {syms} {len(ms)} {masses} {case['natoms']} "
                f"{len(case['props'])} {props}").replace('  ', ' ')
        if case.get('sel') is not None:
            line += f" sel {len(case['sel'])} " + ' '.join(f"{e['name']} {_u(e['unit'], r.fW, r.fR, e['name'])}"
                                                           for e in case['sel'])
        return line.strip()
    if k == 'ec':
        mk = r.extra.get('muK')
        mk = '- -' if mk is None or not all(x == x and abs(x) != float('inf') for x in mk) else f'{cm.fr(mk[0])} {cm.fr(mk[1])}'
        return (f"ec {via} {_u(case['unit'], r.fW, r.fR)} {case['cs']} {mk} " + ' '.join(cm.fr(x) for x in r.extra['C']))
    raise ValueError(k)


# ----------------------------------------------------------------------------------------
# comparison of real objects with the driver's JSON reply
# ----------------------------------------------------------------------------------------
class Pairs(list):
    """ordered key/value pairs of a JSON object of the driver."""


def parse_reply(line):
    return json.loads(line, object_pairs_hook=Pairs)


def _plain(v):
    import numpy as np
    if isinstance(v, np.ndarray) and v.ndim == 0:
        return v.item()
    if isinstance(v, np.generic):
        return v.item()
    return v


def same_tree(real, model, tol, path='', loose=None, out=None):
    """real: DataModelDict/list/scalar; model: Pairs/list/scalar with floats as '~p/q'.
    tol = (rtol, atol); `loose(path)` gives another tolerance for sub-trees (scaled data)."""
    out = [] if out is None else out
    real = _plain(real)
    if isinstance(model, Pairs):
        if not isinstance(real, dict):
            out.append(f'{path}: implementation has {type(real).__name__}, model has a dictionary')
            return out
        rk, mk = list(real.keys()), [k for k, _ in model]
        if rk != mk:
            out.append(f'{path}: keys {rk} != model keys {mk}')
            return out
        t = tol
        if loose is not None and 'unit' in real and real.get('unit') == 'scaled':
            t = loose
        for k, mv in model:
            same_tree(real[k], mv, t, f'{path}/{k}', loose, out)
        return out
    if isinstance(model, list):
        if not isinstance(real, (list, tuple)):
            out.append(f'{path}: implementation has {type(real).__name__} {real!r}, model has a list of {len(model)}')
            return out
        if len(real) != len(model):
            out.append(f'{path}: list length {len(real)} != model {len(model)}')
            return out
        for i, (a, b) in enumerate(zip(real, model)):
            same_tree(a, b, tol, f'{path}[{i}]', loose, out)
        return out
    same_scalar(real, model, tol, path, out)
    return out


def same_scalar(real, model, tol, path, out):
    real = _plain(real)
    if isinstance(model, str) and model.startswith('~'):
        if isinstance(real, bool) or not isinstance(real, float):
            out.append(f'{path}: implementation has {type(real).__name__} {real!r}, model has the float {model[1:]}')
            return
        m = Fraction(model[1:])
        if real != real or abs(real) == float('inf'):
            out.append(f'{path}: implementation {real!r} != model {float(m)!r}')
        elif abs(Fraction(real) - m) > Fraction(tol[1]) + Fraction(tol[0]) * abs(m):
            out.append(f'{path}: implementation {real!r} != model {float(m)!r}')
        return
    if isinstance(model, bool) or model is None or isinstance(model, (int, str)):
        if type(real) is not type(model) or real != model:
            out.append(f'{path}: implementation {real!r} ({type(real).__name__}) != model {model!r}')
        return
    out.append(f'{path}: unexpected model value {model!r}')


def arr_canon(a):
    import numpy as np
    a = np.asarray(a)
    kind = {'f': 'f', 'i': 'i', 'u': 'i', 'U': 's', 'S': 's'}.get(a.dtype.kind, a.dtype.kind)
    return {'shape': list(a.shape), 'dtype': kind, 'data': a.flatten().tolist()}


def same_arr(real, model, tol, path, out):
    c = arr_canon(real)
    m = dict(model)
    if c['shape'] != m['shape']:
        out.append(f"{path}: shape {c['shape']} != model {m['shape']}")
        return
    if c['dtype'] != m['dtype']:
        out.append(f"{path}: dtype class {c['dtype']} != model {m['dtype']}")
        return
    for i, (a, b) in enumerate(zip(c['data'], m['data'])):
        same_scalar(a, b, tol, f'{path}[{i}]', out)


def same_box(real, model, tol, path, out):
    m = dict(model)
    for key, v in (('avect', real.avect), ('bvect', real.bvect), ('cvect', real.cvect), ('origin', real.origin)):
        for i in range(3):
            same_scalar(float(v[i]), m[key][i], tol, f'{path}.{key}[{i}]', out)


def same_atoms(real, model, tol, loose_names, loose, path, out):
    m = dict(model)
    if real.natoms != m['natoms']:
        out.append(f"{path}: natoms {real.natoms} != model {m['natoms']}")
    names = real.prop()
    mnames = [p[0] for p in m['props']]
    if names != mnames:
        out.append(f'{path}: properties {names} != model {mnames}')
        return
    for name, marr in m['props']:
        same_arr(real.view[name], marr, loose if name in loose_names else tol, f'{path}.{name}', out)


def same_sys(real, model, tol, loose_names, loose, out):
    m = dict(model)
    same_box(real.box, m['box'], tol, 'box', out)
    if [bool(b) for b in real.pbc] != m['pbc'] or real.pbc.dtype.kind != 'b':
        out.append(f"pbc {real.pbc!r} != model {m['pbc']}")
    if list(real.symbols) != m['symbols']:
        out.append(f"symbols {real.symbols!r} != model {m['symbols']}")
    rm = list(real.masses)
    if len(rm) != len(m['masses']):
        out.append(f"masses {rm} != model {m['masses']}")
    else:
        for i, (a, b) in enumerate(zip(rm, m['masses'])):
            same_scalar(a, b, tol, f'masses[{i}]', out)
    same_atoms(real.atoms, m['atoms'], tol, loose_names, loose, 'atoms', out)


TOL0 = 2e-15


def _tol(case):
    """relative tolerance of one case: 2e-15 for value/f and value*f, plus the bound on two correctly rounded
    evaluations of the case's unit expressions that associate the operators differently (write and read side)."""
    ulps = max([unit_ulps(u) for u in _units_of(case)] + [0.0])
    return (TOL0 + 2 * ulps * 2.0 ** -53, 0.0)


def _loose(case):
    b = case.get('box')
    L = 8.0
    if b is not None:
        L = max(abs(x) for row in b['vects'] for x in row) + max(abs(x) for x in b['origin'])
    return (1e-10, 1e-10 * (1 + L))


def _norm_close(real, model, rtol, path, out):
    """real: floats; model: '~p/q' strings.  Norm-wise: |real_i - model_i| <= rtol * max_j |model_j|."""
    real = [float(x) for x in real]
    mod = [Fraction(x[1:]) for x in model]
    if len(real) != len(mod):
        out.append(f'{path}: {len(real)} numbers, model has {len(mod)}')
        return
    scale = max([abs(x) for x in mod] + [Fraction(0)])
    for i, (a, b) in enumerate(zip(real, mod)):
        if a != a or abs(a) == float('inf') or abs(Fraction(a) - b) > Fraction(rtol) * scale:
            out.append(f'{path}[{i}]: implementation {a!r} != model {float(b)!r}')
            return


OBJ_RTOL = 1e-9     # 3x3 inverse of cells with |entries| <= 8 |det| >= 8 (condition < 1e3), norm-wise


def _flat(x):
    return [z for y in x for z in (_flat(y) if isinstance(y, list) else [y])]


def compare_obj(case, r, reply):
    out = []
    if reply.startswith('err:'):
        return [f'model refused the request: {reply}']
    if r.write_error is not None:
        return [f'implementation raised constructing the System/Box objects: {r.write_error}']
    ms = json.loads(reply, object_pairs_hook=Pairs)
    outs = r.extra['outs']
    if len(ms) != len(outs):
        return [f'{len(outs)} operations run, model answered {len(ms)}']
    for i, (op, real, m) in enumerate(zip(case['ops'], outs, ms)):
        tag = f"op {i} ({op['op']})"
        if 'error' in real:
            if m is not None:
                out.append(f"{tag}: implementation raised {real['error']}; model returns a value")
            break
        if m is None:
            out.append(f'{tag}: model refuses; implementation returned a value')
            break
        m = dict(m)
        tol = (TOL0 + 2 * unit_ulps(op.get('unit')) * 2.0 ** -53, 0.0)
        if 'recip' in real:
            _norm_close(_flat(real['recip']), _flat(m['recip']), OBJ_RTOL, f'{tag} reciprocal_vects', out)
        elif 'rel' in real:
            _norm_close(real['rel'], m['rel'], OBJ_RTOL, f'{tag} relative position', out)
        elif 'cart' in real:
            _norm_close(real['cart'], m['cart'], 1e-14, f'{tag} Cartesian position', out)
        elif 'box' in real:
            mb = dict(m['box'])
            for key in ('avect', 'bvect', 'cvect', 'origin'):
                for j in range(3):
                    same_scalar(float(real['box'][key][j]), mb[key][j], tol, f'{tag} {key}[{j}]', out)
        else:
            if m['read'] is None:
                out.append(f'{tag}: model cannot read the system back')
                continue
            s2, ms2 = real['read'], dict(m['read'])
            same_box(s2.box, ms2['box'], tol, f'{tag} read box', out)
            ma = dict(ms2['atoms'])
            mpos = dict(dict((p[0], p[1]) for p in ma['props'])['pos'])
            if list(s2.atoms.pos.shape) != mpos['shape']:
                out.append(f"{tag}: pos shape {list(s2.atoms.pos.shape)} != model {mpos['shape']}")
            else:
                mbx = dict(ms2['box'])
                cell = max(abs(Fraction(x[1:])) for key in ('avect', 'bvect', 'cvect', 'origin') for x in mbx[key])
                got = s2.atoms.pos.flatten().tolist()
                mod = [Fraction(x[1:]) for x in mpos['data']]
                scale = max([abs(x) for x in mod] + [cell])
                for j, (a, b) in enumerate(zip(got, mod)):
                    if abs(Fraction(float(a)) - b) > Fraction(OBJ_RTOL) * scale:
                        out.append(f'{tag}: position {j} read back as {a!r}, model {float(b)!r}')
                        break
        if out:
            break
    return out


def err_line(case, r):
    """request for the value stored with an error (uc cases that carry one and were written)."""
    if case['kind'] != 'uc' or 'emodel' not in r.extra:
        return None
    return request_line(case, r) + ' err ' + ' '.join(cm.fr(x) for x in case['err'])


def compare_err(case, r, reply):
    out = []
    if reply.startswith('err:'):
        return [f'model refused the request: {reply}']
    m = dict(parse_reply(reply))
    tol = _tol(case)
    if m['tree'] is None:
        return ['model refuses to write a value with an error; implementation wrote ' + str(r.extra['emodel'])[:200]]
    same_tree(r.extra['emodel'], m['tree'], tol, 'with error:', None, out)
    if 'eread_error' in r.extra:
        if m['read'] is not None and m['eread'] is not None:
            out.append(f"implementation raised on reading a value with an error ({r.extra['eread_error']}); model reads it")
        return out
    if r.extra.get('evia') is not None:
        same_tree(r.extra['evia'], m['via'], tol, case['via'] + ' with error:', None, out)
    for name, got, mod in (('value', r.extra['eread'][0], m['read']), ('error', r.extra['eread'][1], m['eread'])):
        if mod is None:
            out.append(f'model cannot read the {name} of a value stored with an error')
        else:
            same_arr(got, mod, tol, f'with error: {name}', out)
    return out


def compare(case, r: RealRun, reply):
    """list of differences between the real run and the driver's reply."""
    if case['kind'] == 'obj':
        return compare_obj(case, r, reply)
    out = []
    TOL = TOLW = _tol(case)
    if case['kind'] == 'ec' and 'C' in r.extra:
        # normalized_as averages (and subtracts) constants: absolute error of a few ulp of the largest one
        a = 8 * 2.0 ** -53 * max(abs(x) for x in r.extra['C'])
        fw, fr = abs(r.fW.get(case['unit'], 1.0)), abs(r.fR.get(case['unit'], 1.0) if r.fR else 1.0)
        TOLW, TOL = (TOL[0], a / fw), (TOL[0], a / fw * fr)
    if reply.startswith('err:'):
        return [f'model refused the request: {reply}']
    m = dict(parse_reply(reply))
    k = case['kind']
    if r.write_error is not None:
        if m['tree'] is not None:
            out.append(f'implementation raised on write ({r.write_error}); model writes a tree')
        return out
    if m['tree'] is None:
        return ['model refuses to write; implementation wrote ' + str(r.tree)[:200]]
    loose = _loose(case)
    same_tree(r.tree, m['tree'], TOLW, '', loose, out)
    if r.text_error is not None:
        out.append(f'text encoding raised {r.text_error}')
        return out
    if r.via_tree is not None:
        same_tree(r.via_tree, m['via'], TOLW, case['via'] + ':', loose, out)
    if r.read_error is not None:
        if m['read'] is not None:
            out.append(f'implementation raised on read ({r.read_error}); model reads {str(m["read"])[:200]}')
        return out
    if m['read'] is None:
        out.append('model refuses to read back; implementation read a value')
        return out
    loose_names = {p['name'] for p in (case.get('sel') or case.get('props', []))
                   if eff_unit(p['name'], p['unit']) == 'scaled'} if k == 'sys' else set()
    if k == 'sys':
        # a box-scaled property is read back through the re-read box, whose lengths are the written ones times
        # the box unit's factor ratio: the absolute rounding error scales with it
        loose = (loose[0], loose[1] * max(1.0, float(_ratio(r, case['box_unit']))))
    if k == 'uc':
        same_arr(r.read, m['read'], TOL, 'read', out)
    elif k == 'box':
        same_box(r.read, m['read'], TOL, 'read', out)
    elif k == 'atoms':
        same_atoms(r.read, m['read'], TOL, set(), loose, 'read', out)
    elif k == 'sys':
        same_sys(r.read, m['read'], TOL, loose_names, loose, out)
    else:
        for i, (a, b) in enumerate(zip(r.read.Cij.flatten().tolist(), m['read'])):
            same_scalar(a, b, TOL, f'Cij[{i}]', out)
    return out


def _nontrivial(case):
    return case['via'] != 'tree' or case['w1'] != case['w2'] or any(u is not None for u in _units_of(case))


GENS = [('uc', gen_uc, 6), ('box', gen_box, 2), ('atoms', gen_atoms, 3), ('sys', gen_sys, 6), ('ec', gen_ec, 3),
        ('obj', gen_obj, 3)]


def _cases(rng, n):
    tot = sum(w for _, _, w in GENS)
    for _, g, w in GENS:
        for _ in range(max(1, n * w // tot)):
            yield g(rng)


def _brief(case):
    c = dict(case)
    if 'props' in c:
        c['props'] = [{'name': p['name'], 'unit': p['unit'], 'dt': p['dt'], 'shape': p['shape']} for p in c['props']]
    if 'arr' in c:
        c['arr'] = {'dt': c['arr']['dt'], 'shape': c['arr']['shape']}
    c.pop('C', None)
    return c


def correspond_nest(ctx, n):
    """numpy reshape / flatten / tolist against the model's `unflatten` / `Nest.flatten` (the functions the
    theorem unflatten_flatten is about), on every rank 0-4 and extents 0-4."""
    import numpy as np
    rng = ctx.rng
    lines, reals = [], []
    for _ in range(n):
        rank = rng.choice([0, 1, 1, 2, 2, 3, 3, 4])
        dims = [rng.choice([0, 1, 1, 2, 2, 3, 3, 4]) if rng.random() < 0.9 else 5 for _ in range(rank)]
        size = int(np.prod(dims)) if dims else 1
        data = [cm.dyadic(rng, -8, 8, 3) for _ in range(size)]
        arr = np.array(data, dtype=float).reshape(dims)
        lines.append(('nest %d %s %s' % (rank, ' '.join(map(str, dims)), ' '.join(cm.fr(x) for x in data))).replace('  ', ' ').strip())
        reals.append((dims, arr.tolist(), arr.flatten().tolist()))
    for line, (dims, nested, flat), reply in zip(lines, reals, ctx.driver.ask_many(lines)):
        ctx.stats.case('nest', line, nontrivial=len(dims) >= 2)
        if reply.startswith('err:'):
            ctx.disagree('nest', f'model refused reshape to {dims}: {reply}', {'line': line})
            continue
        m = dict(parse_reply(reply))
        out = []
        same_tree(nested, m['nest'], (0.0, 0.0), 'reshape', None, out)
        same_tree(flat, m['flat'], (0.0, 0.0), 'flatten', None, out)
        if out:
            ctx.disagree('nest', f'numpy reshape{tuple(dims)} vs model unflatten: ' + '; '.join(out[:3]), {'line': line})


def correspond(ctx):
    rng = ctx.rng
    N = ctx.n(700, 12000)
    correspond_nest(ctx, ctx.n(150, 2000))
    runs = []
    try:
        for case in _cases(rng, N):
            r = run_real(case)
            if (case['kind'] == 'ec' and 'C' not in r.extra) or (case['kind'] == 'sys' and 'masses' not in r.extra):
                continue        # the object itself could not be constructed: nothing to serialise
            runs.append((case, r, request_line(case, r), False))
            if err_line(case, r) is not None:
                runs.append((case, r, err_line(case, r), True))
    finally:
        restore_units()
    replies = ctx.driver.ask_many([l for _, _, l, _ in runs])
    cover, cover_ec = {}, {}
    for (case, r, line, witherr), reply in zip(runs, replies):
        if case['kind'] == 'ec' and not witherr:
            key = case['cs'] + (' (crystal in that normal form)' if case['cs'] in EC_INFORM.get(case.get('form'), ()) else '')
            cover_ec[key] = cover_ec.get(key, 0) + 1
        if witherr:
            ctx.stats.case(f"uc+error:{case['via']}", line, nontrivial=True)
            diffs = compare_err(case, r, reply)
            if diffs:
                ctx.disagree(f"uc+error:{case['via']}", f"uc.model(value, unit, error=...) via {case['via']} (write "
                             f"{case['w1']}, read {case['w2']}): " + '; '.join(diffs[:3]),
                             {'case': case, 'line': line, 'diffs': diffs[:10]})
            continue
        kind = f"{case['kind']}:{case['via']}"
        ctx.stats.case(kind, line, nontrivial=_nontrivial(case), sample=_brief(case))
        for u in _units_of(case):
            key = 'None' if u is None else ('scaled' if u == 'scaled' else 'unit')
            cover[key] = cover.get(key, 0) + 1
        if case['w1'] != case['w2']:
            cover['different working units'] = cover.get('different working units', 0) + 1
        diffs = compare(case, r, reply)
        if diffs:
            ctx.disagree(f"{case['kind']}:{case['via']}", f"{case['kind']} via {case['via']} (write {case['w1']}, "
                         f"read {case['w2']}): " + '; '.join(diffs[:3]), {'case': case, 'line': line, 'diffs': diffs[:10]})
    ctx.extra['unit_choices'] = cover
    ctx.extra['ec_crystal_system'] = dict(sorted(cover_ec.items()))


# ----------------------------------------------------------------------------------------
# search: the round-trip clauses on the real code, exact rational expectations
# ----------------------------------------------------------------------------------------
def _expect_close(val, want: Fraction, rtol, atol):
    return abs(Fraction(float(val)) - want) <= Fraction(atol) + Fraction(rtol) * abs(want)


def _check_array(ctx, key, what, case, got, orig, ratio: Fraction, rtol, atol, keep_dtype):
    """got (ndarray read back) must equal orig (spec array) * ratio, same shape (and dtype class)."""
    import numpy as np
    got = np.asarray(got)
    if list(got.shape) != list(orig['shape']):
        ctx.violate(key + ':shape', f"{what}: shape {list(got.shape)} read back, {orig['shape']} written", {'case': case})
        return False
    flat = got.flatten().tolist()
    if orig['dt'] == 's':
        if flat != list(orig['data']):
            ctx.violate(key + ':value', f'{what}: strings {flat[:4]} read back, {orig["data"][:4]} written', {'case': case})
            return False
        return True
    if keep_dtype and orig['dt'] == 'i' and got.dtype.kind not in 'iu':
        ctx.violate(key + ':dtype', f'{what}: integer data read back as {got.dtype}', {'case': case})
        return False
    for i, (g, o) in enumerate(zip(flat, orig['data'])):
        want = Fraction(o) * ratio
        try:
            ok = _expect_close(g, want, rtol, atol)
        except (TypeError, ValueError):
            ok = False
        if not ok:
            ctx.violate(key + ':value', f'{what}: element {i} read back as {g!r}, expected {float(want)!r} '
                        f'(written {o!r}, working-unit ratio {float(ratio)!r})', {'case': case})
            return False
    return True


def _ratio(r: RealRun, unit):
    """physical round trip: value written as x/fW and read as (x/fW)*fR."""
    if unit is None or unit == 'scaled':
        return Fraction(1)
    return Fraction(r.fR[unit]) / Fraction(r.fW[unit])


XML_SINGLETON_KEY = 'uc:xml:length-1-vector-read-as-scalar'


def _xml_singleton(ctx, case, tag):
    """Consequence of the XML codec (assumption 2), compensated by Atoms/System (broadcast to natoms) but
    visible on uc.value_unit alone: a genuine violation of the "array shapes" clause, recorded as an open
    finding in known_findings.json under this key (see DESIGN.md section 7.4)."""
    ctx.violate(XML_SINGLETON_KEY, f'{tag}: shape (1,) written, () read back from XML text', {'case': case})


def _inv3(V):
    (a, b, c), (d, e, f), (g, h, i) = V
    det = a * (e * i - f * h) - b * (d * i - f * g) + c * (d * h - e * g)
    adj = [[e * i - f * h, c * h - b * i, b * f - c * e],
           [f * g - d * i, a * i - c * g, c * d - a * f],
           [d * h - e * g, b * g - a * h, a * e - b * d]]
    return [[x / det for x in row] for row in adj]


def _norm_ok(got, want, rtol, extra=Fraction(0)):
    scale = max([abs(x) for x in want] + [extra])
    for a, b in zip(got, want):
        a = float(a)
        if a != a or abs(a) == float('inf') or abs(Fraction(a) - b) > Fraction(rtol) * scale:
            return False
    return len(list(got)) == len(want)


def oracle_obj(ctx, case, r):
    """the object session against an exact (Fraction) account of the cell, origin and positions: after every
    operation the object must answer as a Box / System freshly constructed from the current values would."""
    F = Fraction
    if r.write_error is not None:
        ctx.violate('obj:create:raises', f'constructing the System/Box objects raised {r.write_error}', {'case': case})
        return False
    V = [[F(x) for x in row] for row in case['box']['vects']]
    o = [F(x) for x in case['box']['origin']]
    pos = [F(x) for x in case['pos']]
    hist = []
    for i, (op, real, fac) in enumerate(zip(case['ops'], r.extra['outs'], r.extra['facs'])):
        name = op['op']
        hist.append(name)
        tag = f"object session (write {case['w1']}, read {case['w2']}), after {' > '.join(hist)}"
        rp = {'case': case, 'failed_op': i}
        if 'error' in real:
            ctx.violate(f'obj:{name}:raises', f"{tag}: raised {real['error']}", rp)
            return False
        ratio = F(fac[1]) / F(fac[0])
        rt = TOL0 + 2 * unit_ulps(op.get('unit')) * 2.0 ** -53
        if name == 'warm':
            inv = _inv3(V)
            want = [inv[c][rw] for rw in range(3) for c in range(3)]        # inv(vects).T, row-major
            if not _norm_ok(_flat(real['recip']), want, OBJ_RTOL):
                ctx.violate('obj:reciprocal', f"{tag}: reciprocal_vects {real['recip']} are not those of the current "
                            f"cell {[[float(x) for x in row] for row in V]}", rp)
                return False
        elif name == 'c2r':
            inv = _inv3(V)
            d = [F(x) - y for x, y in zip(op['p'], o)]
            want = [sum(d[k] * inv[k][c] for k in range(3)) for c in range(3)]
            if not _norm_ok(real['rel'], want, OBJ_RTOL):
                ctx.violate('obj:cartesian-to-relative', f"{tag}: position_cartesian_to_relative({op['p']}) = {real['rel']}, "
                            f"a Box freshly built from the same vects/origin gives {[float(x) for x in want]}", rp)
                return False
        elif name == 'r2c':
            want = [sum(F(op['p'][k]) * V[k][c] for k in range(3)) + o[c] for c in range(3)]
            if not _norm_ok(real['cart'], want, 1e-14, max(abs(x) for x in o)):
                ctx.violate('obj:relative-to-cartesian', f"{tag}: position_relative_to_cartesian({op['p']}) = {real['cart']}, "
                            f"expected {[float(x) for x in want]}", rp)
                return False
        else:
            if name == 'setv':
                V = [[F(x) for x in row] for row in op['m']]
            elif name == 'seto':
                o = [F(x) for x in op['o']]
            elif name == 'bread':
                V = [[F(x) * ratio for x in row] for row in op['box']['vects']]
                o = [F(x) * ratio for x in op['box']['origin']]
            if name == 'sysdump':
                bx = real['read'].box
                gotb = [bx.avect.tolist(), bx.bvect.tolist(), bx.cvect.tolist(), bx.origin.tolist()]
                wantb = [[x * ratio for x in row] for row in V + [o]]
            else:
                b = real['box']
                gotb = [b['avect'], b['bvect'], b['cvect'], b['origin']]
                wantb = V + [o]
            for g, w in zip(_flat(gotb), _flat(wantb)):
                if not _expect_close(g, w, rt, 0):
                    ctx.violate(f'obj:{name}:cell', f'{tag}: cell/origin {gotb}, expected '
                                f'{[[float(x) for x in row] for row in wantb]}', rp)
                    return False
            if name == 'sysdump':
                got = real['read'].atoms.pos
                if list(got.shape) != [case['natoms'], 3]:
                    ctx.violate('obj:sysdump:shape', f'{tag}: positions of shape {list(got.shape)} read back', rp)
                    return False
                want = [x * ratio for x in pos]
                cell = max(abs(x) for x in _flat(wantb))
                if not _norm_ok(got.flatten().tolist(), want, OBJ_RTOL, cell):
                    ctx.violate('obj:sysdump:scaled-positions', f'{tag}: System written with box-scaled positions and read '
                                f'back has Cartesian positions {got.flatten().tolist()}, the object had '
                                f'{[float(x) for x in want]} (in the units read)', rp)
                    return False
    return True


def oracle(ctx, case, r: RealRun):
    """property clauses for one case. Returns True when everything held."""
    if case['kind'] == 'obj':
        return oracle_obj(ctx, case, r)
    import numpy as np
    k, via = case['kind'], case['via']
    tag = f"{k} via {via} (write {case['w1']}, read {case['w2']})"
    if k == 'ec' and case['cs'] not in EC_SYSTEMS and (r.write_error or '').startswith('ValueError: Invalid crystal_system'):
        return True         # the documented refusal of a crystal system normalized_as does not know
    for stage, e in (('write', r.write_error), ('text', r.text_error), ('read', r.read_error)):
        if e is not None:
            ctx.violate(f'{k}:{via}:{stage}-raises', f'{tag}: {stage} raised {e}', {'case': case})
            return False
    ok = True
    rt = _tol(case)[0]
    if k == 'uc':
        u = case['unit']
        arr = case['arr']
        if via == 'xml' and arr['shape'] == [1] and np.asarray(r.read).shape == ():
            # XML has no one-element lists (<value>x</value> is a scalar): uc.model writes no 'shape' for rank 1,
            # so a length-1 vector is read back from XML text as a scalar.  Values are still checked.
            _xml_singleton(ctx, case, tag)
            arr = dict(arr, shape=[])
        ok &= _check_array(ctx, f'uc:{via}', tag, case, r.read, arr, _ratio(r, u), rt, 0,
                           keep_dtype=u is None)
        if 'eread_error' in r.extra:
            ctx.violate(f'uc:{via}:error-raises', f"{tag}: value with error raised {r.extra['eread_error']}", {'case': case})
            ok = False
        elif 'eread' in r.extra:
            ok &= _check_array(ctx, f'uc:{via}:with-error', tag + ' value stored with an error', case, r.extra['eread'][0],
                               arr, _ratio(r, u), rt, 0, keep_dtype=False)
            ok &= _check_array(ctx, f'uc:{via}:error', tag + ' error', case, r.extra['eread'][1],
                               dict(arr, data=case['err']), _ratio(r, u), rt, 0, keep_dtype=False)
        if ok and u not in (None, 'scaled') and case['arr']['dt'] != 's':
            # the physical value (expressed in the stored unit) is the same under both configurations
            phys = np.asarray(r.read, dtype=float).flatten() / r.fR[u]
            for g, o in zip(phys.tolist(), case['arr']['data']):
                if not _expect_close(g, Fraction(o) / Fraction(r.fW[u]), 2 * rt, 0):
                    ctx.violate(f'uc:{via}:physical', f'{tag}: value in {u} is {g!r} after reading, '
                                f'{o / r.fW[u]!r} when written', {'case': case})
                    ok = False
                    break
        return ok
    if k == 'box':
        rb = Fraction(1) if case['unit'] is None else _ratio(r, case['unit'])
        for name, got, orig in (('vects', r.read.vects, case['box']['vects']), ('origin', r.read.origin, [case['box']['origin']])):
            flat = [x for row in orig for x in row]
            ok &= _check_array(ctx, f'box:{via}:{name}', f'{tag} box {name}', case, np.asarray(got).flatten(),
                               {'dt': 'f', 'shape': [len(flat)], 'data': flat}, rb, rt, 0, False)
        return ok
    if k == 'ec':
        rc = _ratio(r, case['unit'])
        cs, form = case['cs'], case.get('form', 'triclinic')
        mx = max(abs(x) for x in r.extra['C']) * float(rc)
        # the averages of normalized_as are exact on the dyadic grid and within a few ulp of the largest constant
        # elsewhere; the 'isotropic' estimates go through the inverse 6x6 array (condition number < 1e3)
        atol = (1e-12 if cs == 'isotropic' else 4 * rt) * mx
        if cs in EC_INFORM.get(form, ()):
            # a crystal already in the normal form of `cs`: the constants come back unchanged
            ok &= _check_array(ctx, f'ec:{via}:{cs}', f"{tag} Cij of a {form} crystal stored as {cs}", case, r.read.Cij,
                               {'dt': 'f', 'shape': [6, 6], 'data': r.extra['C']}, rc, 2 * rt, atol, False)
        if 'existing_error' in r.extra:
            ctx.violate(f'ec:{via}:existing-raises', f"{tag}: reading the model into an existing ElasticConstants raised "
                        f"{r.extra['existing_error']}", {'case': case})
            ok = False
        elif 'existing' in r.extra and (r.extra['existing'][0] != r.read.Cij.flatten().tolist()
                                        or r.extra['existing'][1] != r.extra['fresh_S']):
            ctx.violate(f'ec:{via}:existing', f'{tag}: ec.model(model=...) on an existing object gives Cij/Sij different '
                        f'from ElasticConstants(model=...)', {'case': case})
            ok = False
        if 'read2_error' in r.extra:
            ctx.violate(f'ec:{via}:{cs}:second-raises', f"{tag}: storing the constants read back as {cs} again raised "
                        f"{r.extra['read2_error']}", {'case': case})
            ok = False
        elif ok:
            got = r.read.Cij.flatten().tolist()
            ok &= _check_array(ctx, f'ec:{via}:{cs}:second', f'{tag} Cij read back, stored as {cs} and read again', case,
                               np.array(r.extra['read2']).reshape(6, 6), {'dt': 'f', 'shape': [6, 6], 'data': got},
                               Fraction(1), 2 * rt, atol, False)
        return ok
    atoms = r.read if k == 'atoms' else r.read.atoms
    loose = _loose(case)
    rL = Fraction(1)
    if k == 'sys':
        bu = case['box_unit']
        rL = _ratio(r, bu)
        flatv = [x for row in case['box']['vects'] for x in row]
        ok &= _check_array(ctx, f'sys:{via}:cell', f'{tag} cell', case, r.read.box.vects.flatten(),
                           {'dt': 'f', 'shape': [9], 'data': flatv}, rL, rt, 0, False)
        ok &= _check_array(ctx, f'sys:{via}:origin', f'{tag} origin', case, r.read.box.origin,
                           {'dt': 'f', 'shape': [3], 'data': case['box']['origin']}, rL, rt, 0, False)
        pbc = r.read.pbc
        if pbc.dtype.kind != 'b' or [bool(b) for b in pbc] != case['pbc']:
            ctx.violate(f'sys:{via}:pbc', f"{tag}: pbc {pbc!r} read back, {case['pbc']} written", {'case': case})
            ok = False
        ntypes = max(case['props'][0]['data'])
        want_sym = list(case['symbols']) + [None] * max(0, ntypes - len(case['symbols']))
        if list(r.read.symbols) != want_sym:
            ctx.violate(f'sys:{via}:symbols', f'{tag}: symbols {r.read.symbols!r} read back, {want_sym} written', {'case': case})
            ok = False
        want_m = list(case['masses']) + [None] * max(0, len(want_sym) - len(case['masses']))
        got_m = list(r.read.masses)
        if len(got_m) != len(want_m) or any((a is None) != (b is None) or (a is not None and a != b)
                                            for a, b in zip(got_m, want_m)):
            ctx.violate(f'sys:{via}:masses', f'{tag}: masses {got_m} read back, {want_m} written', {'case': case})
            ok = False
    if atoms.natoms != case['natoms']:
        ctx.violate(f'{k}:{via}:natoms', f"{tag}: natoms {atoms.natoms} read back, {case['natoms']} written", {'case': case})
        return False
    eprops = case['props']
    if case.get('sel') is not None:
        # a selection: atype and pos first (the constructor's defaults when not selected), then the others in order
        byname = {p['name']: p for p in case['props']}
        units = {e['name']: e['unit'] for e in case['sel']}
        n = case['natoms']
        eprops = [dict(byname['atype'], unit=units['atype']) if 'atype' in units else
                  {'name': 'atype', 'unit': None, 'dt': 'i', 'shape': [n], 'data': [1] * n},
                  dict(byname['pos'], unit=units['pos']) if 'pos' in units else
                  {'name': 'pos', 'unit': None, 'dt': 'f', 'shape': [n, 3], 'data': [0.0] * (3 * n), 'default': True}]
        eprops += [dict(byname[e['name']], unit=e['unit']) for e in case['sel'] if e['name'] not in ('atype', 'pos')]
    names = [p['name'] for p in eprops]
    if atoms.prop() != names:
        ctx.violate(f'{k}:{via}:properties', f'{tag}: properties {atoms.prop()} read back, {names} written', {'case': case})
        return False
    for p in eprops:
        eu = None if p.get('default') else eff_unit(p['name'], p['unit'])
        if eu == 'scaled' and k == 'sys':
            ok &= _check_array(ctx, f'sys:{via}:scaled', f"{tag} scaled property {p['name']}", case, atoms.view[p['name']],
                               p, rL, loose[0], loose[1] * max(1.0, float(rL)), False)
        else:
            ok &= _check_array(ctx, f"{k}:{via}:property", f"{tag} property {p['name']} (unit {eu})", case,
                               atoms.view[p['name']], p, _ratio(r, eu), rt, 0, keep_dtype=eu is None)
    return ok


def search(ctx, broken):
    rng = random.Random(ctx.seed * 7919 + 10)
    N = ctx.n(500, 6000) * (3 if broken else 1)
    # first the cases on which model and implementation disagreed
    pending = [d.replay['case'] for d in ctx.disagreements if isinstance(d.replay, dict) and 'case' in d.replay]
    try:
        for case in pending:
            r = run_real(case)
            oracle(ctx, case, r)
        for case in _cases(rng, N):
            r = run_real(case)
            oracle(ctx, case, r)
            ctx.stats.case(f"oracle:{case['kind']}:{case['via']}", json.dumps(case, sort_keys=True, default=str),
                           nontrivial=_nontrivial(case))
    finally:
        restore_units()


def replay(ctx, payload):
    rp = payload.get('replay', {})
    cases = []
    if 'case' in rp:
        cases.append(rp['case'])
    for d in payload.get('disagreements', []) or []:
        if isinstance(d, dict) and 'case' in d:
            cases.append(d['case'])
    if not cases:
        correspond(ctx)
        search(ctx, True)
        return
    try:
        for case in cases:
            r = run_real(case)
            print('replay', json.dumps(_brief(case), default=str))
            print('  write_error', r.write_error, 'text_error', r.text_error, 'read_error', r.read_error)
            if ctx.driver is not None and not (case['kind'] == 'ec' and 'C' not in r.extra) \
                    and not (case['kind'] == 'sys' and 'masses' not in r.extra):
                line = request_line(case, r)
                diffs = compare(case, r, ctx.driver.ask(line))
                if err_line(case, r) is not None:
                    diffs += compare_err(case, r, ctx.driver.ask(err_line(case, r)))
                for d in diffs[:10]:
                    print('  model/implementation:', d)
                if diffs:
                    ctx.disagree(f"{case['kind']}:{case['via']}", '; '.join(diffs[:3]), {'case': case})
            oracle(ctx, case, r)
    finally:
        restore_units()


MANIFEST = {
    'text': 'Lean model of uc.model/uc.value_unit/uc.error_unit (rank 0 / 1 / >=2 with shape, unit key, error=), of the '
            'DataModelDict tree (ordered key->value, append/aslist, XML one-element-list collapse xmlNorm), of the '
            'Box/Atoms/System/ElasticConstants model writers and model= constructors (scaled properties, default '
            'pos->angstrom, symbols/masses padding, near-zero clean-up of the vects/Cij setters), of '
            'ElasticConstants.normalized_as for every crystal system (normForm) and of objects with state (a Box keeps '
            'its reciprocal vectors until the vects setter drops them; a System holds its Box; Box.model(model=) on an '
            'existing object). Theorems (all inputs, any field): reshape(flatten)=id and flatten(reshape)=id for every '
            'shape; value_unit(model(x))=x and error_unit = the stored error for every non-zero factor, through the tree '
            'and through XML text (exact exception: a shape-(1,) vector is read as a scalar); Box, Atoms, System (cell, '
            'origin, pbc, symbols, masses, every property incl. box-scaled ones via rel_cart inverse, det != 0) and '
            'ElasticConstants round trips through tree/JSON and XML text; a crystal in the general normal form of the '
            'requested crystal_system (3 cubic, 5 hexagonal, 7 tetragonal, 7 rhombohedral, 9 orthorhombic, 13 monoclinic '
            'constants) '
            'comes back exactly and the stored representation is stable under re-storing; in every reachable state '
            'of a Box object its conversions are those of its current cell, so an existing Box updated from a model '
            'and a System written with box-scaled positions behave like freshly constructed objects; the object '
            'invariants are established by the setters (cleanVects_idem, cijSet_idem); the stored physical value is '
            'independent of the working units at write vs read time, and under two configurations every number '
            '(value, error, box length, box-scaled property, elastic constant) comes back times the C09 dimension '
            'factor ratio. Tie: differential correspondence of the real writers/readers and of object operation '
            'sequences against the Lean driver over tree, JSON text and XML text under different uc.reset_units '
            'configurations, numpy reshape vs the model; clause oracle on the real code with unit factors of compound '
            'unit expressions evaluated independently of uc.parse and an exact rational account of object sessions.',
    'note': 'Trusted: Lean kernel + propext/Classical.choice/Quot.sound; DataModelDict/xmltodict/json codecs (observed, '
            'not verified: JSON = identity on the tree, XML = xmlNorm); uc.parse factors are parameters (C09), supplied '
            'on each run by an evaluator that shares nothing with uc.parse; the Hill estimates behind '
            "normalized_as('isotropic') are parameters (C11); float rounding bounded by 2e-15 plus the unit "
            "expression's operation count (1e-9 norm-wise for box-scaled data and reciprocal vectors).",
    'technique': 'Lean 4 theorems over a hand-written executable model + differential correspondence + clause oracle',
}
