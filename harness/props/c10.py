"""C10 — JSON/XML data-model round trip (uc.model/value_unit, Box/Atoms/System/ElasticConstants .model)."""
from __future__ import annotations

import json
import random
import re
import unicodedata
from fractions import Fraction

from .. import common as cm

PROP = 'C10'
THEOREMS = [
    # arrays: reshape/flatten are mutually inverse for every shape
    'C10.unflatten_flatten', 'C10.flatten_unflatten_shape',
    # uc.value_unit(uc.model(x)) = x: tree/JSON, nested view, XML text
    'C10.valueUnit_model', 'C10.valueUnit_model_nested', 'C10.valueUnit_model_xml',
    # a value stored with its uncertainty (error=): value_unit and error_unit, one / two configurations
    'C10.errorUnit_model', 'C10.errorUnit_model_two',
    # physical value vs working units at write / read time
    'C10.physical_value_unit_independent', 'C10.physical_value_rescaled',
    # Box
    'C10.box_model_roundtrip', 'C10.box_model_roundtrip_exact', 'C10.box_model_roundtrip_xml',
    'C10.box_setter_roundtrip',
    # Atoms
    'C10.atoms_model_roundtrip', 'C10.atoms_model_roundtrip_xml', 'C10.atoms_model_select',
    # System (scaled properties, symbols, masses, pbc), two configurations
    'C10.system_model_roundtrip', 'C10.system_model_roundtrip_xml', 'C10.system_model_two_units',
    # System.model with a selection of the properties (any subset / order / units after atype, pos): writing a
    # selection = writing the System that holds just the selected properties; round trip tree and XML; admissibility
    'C10.systemModel_select', 'C10.system_model_select', 'C10.system_model_select_xml', 'C10.select_wf',
    # the call forms of the unit arguments (prop_unit dictionary / prop_name + unit lists / the unit list alone,
    # aligned with the object's own property order / prop_name alone / nothing): what each resolves to, that the
    # forms describing the same properties and units write the same tree, the round trip through the bare unit list,
    # the documented refusals (prop_unit with prop_name / unit; lists of different lengths)
    'C10.resolveCall_lists', 'C10.resolveCall_unit_alone', 'C10.resolveCall_names_alone', 'C10.resolveCall_default',
    'C10.resolveCall_refuses', 'C10.resolveCall_refuses_length',
    'C10.atoms_model_call_forms', 'C10.system_model_call_forms', 'C10.system_model_unit_list_roundtrip',
    # ElasticConstants
    'C10.elastic_model_roundtrip', 'C10.elastic_model_roundtrip_exact', 'C10.elastic_model_roundtrip_xml',
    'C10.elastic_model_two', 'C10.elastic_setter_roundtrip',
    # normalized_as inside the model: crystals in the normal form of the requested crystal system come back exactly
    'C10.normalized_fixes_normal_form', 'C10.elastic_model_normal_form', 'C10.elastic_model_normal_form_two',
    'C10.elastic_model_second_generation',
    # objects with state (a Box keeps its reciprocal vectors; a System holds its Box): any history = fresh object
    'C10.box_object_conversions', 'C10.box_object_read_model', 'C10.sysobj_model_fresh', 'C10.sysobj_model_roundtrip',
    'C10.sysobj_edit_model_fresh',
    # the object invariants assumed above are established by the setters
    'C10.cleanVects_idem', 'C10.cijSet_idem',
    # counts: the array read back from a long value list is decided by all entries in any cut into blocks (integer
    # blocks -> integer array of both; a non-integer anywhere in the tail -> not an integer array; numeric blocks ->
    # float array of both; string blocks -> every string whole)
    'C10.value_list_blocks_int', 'C10.value_list_tail_decides', 'C10.value_list_blocks_num', 'C10.value_list_blocks_str',
    # round 5, source tie (Proofs/C10_Source.lean over Generated/ModelSource.lean, regenerated from /repo on every run):
    # normalized_as as generated Lean expressions = the model's normForm; keys written (order, guards, packing by rank)
    # by the model on ALL inputs = what the source's stores say; readers depend on exactly the keys the source looks
    # up; writer keys = reader keys; defaults, pass-through keywords, setter tolerances
    'C10.gen_normForm_eq_model', 'C10.normForm_length',
    'C10.gen_ucModel_keys_eq_model', 'C10.gen_ucModelE_keys_eq_model', 'C10.gen_error_pack_eq_value_pack',
    'C10.gen_ucModel_pack_eq_model', 'C10.gen_valueUnit_reads_only', 'C10.gen_uc_writer_keys_sub_reader_keys',
    'C10.gen_uc_writer_keys_sub_valueUnit_reads',
    'C10.gen_box_writer_keys_eq_reader_keys', 'C10.gen_boxModel_keys_eq_model', 'C10.gen_boxRead_reads_only',
    'C10.gen_setter_atol_eq_model',
    'C10.gen_atoms_writer_keys_eq_reader_keys', 'C10.gen_propModel_keys_eq_model', 'C10.gen_atomsModel_keys_eq_model',
    'C10.gen_atoms_default_unit_eq_model', 'C10.gen_atoms_first_eq_model',
    'C10.gen_systemModel_keys_eq_model', 'C10.gen_system_writer_keys_eq_reader_keys', 'C10.gen_system_scaled_eq_model',
    'C10.gen_ec_writer_keys_eq_reader_keys', 'C10.gen_ecModel_keys_eq_model', 'C10.gen_norm_branches',
    # round 5, end to end: dump -> text -> load at the API level (systemDumpLoad / atomsDumpLoad), every encoding x
    # every call form, composed from the per-function theorems; the encoding step refuses exactly the other names
    'C10.encode_refuses_iff', 'C10.system_dump_load_end_to_end', 'C10.atoms_dump_load_end_to_end',
    'C10.system_dump_load_refuses_format',
    # round 5: float arrays of any size incl. empty ones; the exact statement of the empty-array exception; the writers
    # are injective (equal trees => equal content); the option handling of dump (dumpEncoding) = the generated chains
    'C10.valueUnit_model_float', 'C10.valueUnit_model_empty', 'C10.system_model_injective', 'C10.value_model_injective',
    'C10.gen_dumpEncoding_eq_model', 'C10.dumpEncoding_spec', 'C10.dumpEncoding_explicit', 'C10.dumpEncoding_encodes',
    # round 5: the other API-level round trips through every encoding; the readers of Atoms / System / ElasticConstants
    # depend on exactly the keys the source looks up
    'C10.value_dump_load_end_to_end', 'C10.box_dump_load_end_to_end', 'C10.elastic_dump_load_end_to_end',
    'C10.gen_atomsRead_reads_only', 'C10.gen_propRead_reads_only', 'C10.gen_systemRead_reads_only',
    'C10.gen_ecRead_reads_only',
    # round 5: last clause at the API level - dump under one configuration, load under another, every encoding
    'C10.system_dump_load_two_units_end_to_end',
    # round 6 (second extender pass): the two-configuration statements with the unit factors' non-vanishing explicit
    # (statement audit): what is read, EXPRESSED IN THE STORED UNIT under the reading configuration, is what was written
    # expressed in it under the writing one, and the opposite rescaling returns the written numbers
    'C10.inUnit_scaleFn', 'C10.scaleFn_back',
    'C10.errorUnit_model_two_nz', 'C10.elastic_model_two_nz', 'C10.system_model_two_units_nz',
    'C10.system_dump_load_two_units_end_to_end_nz', 'C10.elastic_model_normal_form_two_nz',
    # round 6: the reader of ElasticConstants as the source has it (new format, old C / ij format when that raises):
    # the old-format branch changes nothing on what the writer produces; what it makes of ANY old-format record;
    # source tie of the branch (key expression, keys looked up, ElasticConstants(**c_dict) for every standard keyword
    # set by partial evaluation of __init__ and the constructors = legacyForm)
    'C10.ecReadAny_of_no_legacy_list', 'C10.elastic_model_roundtrip_any', 'C10.elastic_legacy_read',
    'C10.elastic_legacy_read_cubic',
    'C10.gen_legacyKey_eq_model', 'C10.gen_ecLegacy_keys_eq_model', 'C10.gen_legacyForm_eq_model',
    'C10.gen_legacy_branches', 'C10.legacyForm_refuses_count',
    # round 6: formerly pinned by form only, now generated definitions: the argument handling of Atoms.model and the
    # masses guard loop of System.model
    'C10.gen_resolveCall_eq_model', 'C10.gen_massesGuard_eq_model',
    # round 6: DataModelDict.finds / python indexing / load('system_model', key=, index=) inside the model
    'C10.finds_entries', 'C10.load_index', 'C10.load_default', 'C10.gen_load_eq_model',
]
PARTIAL = {
    'length-1 vector through XML text': "uc.value_unit alone reads a shape-(1,) array back from XML text as a "
        "scalar (valueUnit_model_xml states the exact exception, xmlShape); Atoms/System restore it by broadcasting "
        "(atoms_model_roundtrip_xml, system_model_roundtrip_xml are exact)",
    'integer data written with a unit': 'come back as the same numbers in floating point (Data.castU): get_in_units '
        'is a true division; stated in the theorems, not hidden',
    'empty arrays': 'closed in round 5 for what can hold: valueUnit_model_float covers float arrays of every size incl. '
        'the empty ones; valueUnit_model_empty states the exception exactly (an empty integer / string array is read '
        'back as the empty FLOAT array of the same shape: numpy gives an empty list the float dtype); the other value '
        'theorems keep the hypothesis prodNat shape != 0',
    'prop_unit subsets': 'Atoms: atoms_model_select covers every selection / order of properties (reading = '
        'constructing Atoms from the selected converted properties, defaults for a missing atype / pos). System: '
        'system_model_select(_xml) covers every selection that names atype and pos first and then any subset of the '
        'other properties in any order with any admissible units (select_wf); a System selection that leaves atype '
        'or pos out, or does not put them first (the reader then re-orders / fills in constructor defaults and '
        'natypes comes from the default atype), is covered by the tie and the oracle only (driver sys ... sel, 25 % '
        'of the System cases)',
    'values outside the model': 'the Lean arrays hold rationals, integers and strings: boolean properties, NaN, '
        'infinities and the sign of zero are checked by the clause oracle on the real code only (bit-for-bit '
        'reproduction when no unit is involved), float32 input with a unit is not generated (numpy keeps float32 '
        'against a python float factor: float32 arithmetic, overflow beyond 3e38)',
    'side-effect clauses': 'writes do not modify object / arguments / input, two writes and two reads are '
        'independent, reading does not modify the tree: decided on the real code (bitwise snapshots); the model is '
        'functional, so they hold in it by construction (sysobj_model_fresh: writing changes nothing but the kept '
        'reciprocal vectors)',
    'System objects': 'the object model (BoxObj / SysObj, BoxReach) covers the state that matters for this property - '
        'the reciprocal vectors a Box keeps - and the operations vects/origin setters, reciprocal_vects, position '
        'conversions, Box.model(model=), System.model; the other Box.set_* entry points (lengths, hi/los, abc) go '
        'through the same vects setter and are not modelled; Atoms and System have no model= reader on an existing '
        "object (constructors only); ElasticConstants keeps no derived state (observed: model(model=) on a used "
        'object = fresh object)',
    "ElasticConstants 'isotropic'": "normalized_as('isotropic') goes through the Hill estimates shear()/bulk() (inverse "
        '6x6 array, property C11): they are parameters of normForm, so elastic_model_normal_form covers the seven '
        "closed-form systems (cubic, hexagonal, tetragonal, rhombohedral, orthorhombic, monoclinic, triclinic); an isotropic tensor stored as 'isotropic' is checked on the real code only (1e-12)",
    'call forms': 'the argument handling of Atoms.model (prop_unit dictionary / prop_name + unit lists / unit list alone '
        '/ prop_name alone / nothing; refusals) is inside the model (resolveCall) and the tie; the containers the '
        'arguments arrive in (tuple, numpy array, OrderedDict), positional vs keyword order and the containers of '
        'symbols / masses / pbc are exercised on the real code only (the model sees the resolved lists)',
    'working-unit configurations': "uc.reset_units itself is property C09's model (C09.resetScales); here a "
        'configuration is the factor function fac, and the harness supplies the factors from its own unit table (SI '
        'value and dimension per unit name, base factors from the SI values of the chosen working units), for random '
        "working units from numericalunits' five base units as drawn",
    'text codecs': "DataModelDict's JSON/XML codecs are not modelled character by character: JSON is taken as the "
        'identity on the tree, XML as xmlNorm (one-element-list collapse); both observed on every correspondence case',
}

RULE = ('seeded systems (1-7 atoms, 1-3 types, lower-triangular cells with every sign pattern of the diagonal, '
        'axis-permuted, all-nonzero of either handedness, rotated (non-dyadic entries, 1e-17 leftovers of a quarter '
        'turn), cells with negligible (1e-17, 1e-12 relative) and small (1e-7) entries, all on a common magnitude '
        '2^k, k in 0, +-10, +-40, +-100, +-300; non-zero origin, random pbc, missing/extra/non-ASCII symbols, missing '
        'masses, masses handed over as np.float32 / np.int64 / int; atoms on cell faces / edges / corners, 1e-9 .. '
        '1e-4 (relative) off them and far outside; int/float/str/bool per-atom properties of rank 1-3 incl. per-atom '
        'shapes (1,), (1,1), (3,1), natoms = 1; values: dyadic grid, uniform floats, signed zero / denormal / 1e+-300 '
        '/ NaN / infinities (no unit: bit-for-bit), integers beyond 2^53, strings with blanks / unicode / tabs / line '
        'breaks / quotes / markup (and, for tree / JSON, empty, blank-padded and number look-alike strings); property '
        'names incl. short ones that are substrings of reserved names, names equal to keys of the written tree, names '
        'with a blank / non-ASCII letter; every array handed over C-contiguous, Fortran-ordered, as a strided view, '
        'read-only, as a python list or as float32 / int32), '
        "every unit choice per property: None, 'scaled' for (n,3) data, simple units, random "
        "compound unit expressions (every order of '*' and '/', parentheses, powers incl. negative and fractional, "
        'number literals, blanks) and dimension-preserving templates with a cancelling factor on either side '
        "(L/X*X, X*L/X, X/(X/L), eV/GPa/L^2, ... for lengths; eV/L^3, nN/L/L, P/X*X, ... for pressures); uc.model on "
        'values of rank 0-4, a quarter of them stored with error=; Box; Atoms (30 % with a random selection of the '
        'properties in random order); ElasticConstants generated in the general normal form of every crystal system '
        '(isotropic, cubic, hexagonal, 6- and 7-constant tetragonal, 6- and 7-constant rhombohedral, orthorhombic, '
        'monoclinic, triclinic; Cij= or named constants; magnitudes 2^0, 2^+-20, 2^+-40, 2^+-100) and stored as every '
        'crystal_system argument incl. monoclinic and unknown names (60 % one in '
        'whose normal form the crystal already is); object sessions: one System holding one Box through 3-8 '
        'operations out of reciprocal_vects, position conversions, vects/origin setters, in-place edits of positions, '
        'Box.model(model=) into the existing object, Box dumps and System dumps with box-scaled positions, each dump '
        'under either configuration; Atoms / System cases with a SECOND dump of the same object after in-place edits '
        '(and a replaced cell), written under the configuration it was read under (to the same file when the first '
        'went to a file); every case written under one uc.reset_units '
        'configuration (six, one of them numericalunits\' random units) and read under another, through the '
        'DataModelDict tree, its JSON text and its XML text; systems also dumped to file paths (fresh, existing and '
        'longer, reused), text file objects, StringIO, tempfile wrappers, loaded from paths, byte streams (the same '
        "stream twice) and text, with the format name in lower/upper/title case, with indent 0/1/4, loaded from "
        'multi-entry records with key=/index=, with the reader options symbols= / pbc= / masses=; every write done '
        'twice (first result overwritten by the caller) and every read done twice (first result overwritten), object / '
        'arguments / input / tree compared bitwise before and after; 14 documented refusals; distinct = distinct '
        'canonical request line; non-trivial = a unit conversion, a reshape, a scaled '
        'property, a text encoding or object state is involved. Round 3: working-unit configurations with named time '
        'units (ps / fs / ns), a derived length or mass, a single keyword, two random draws, and generated keyword sets '
        "(1-4 of length / mass / time / energy / charge, never over-determined); storage units spelled in the literal SI "
        "base units (m/s, kg*m/s^2, kg/(m*s^2), A*s, K, eV/K, C/m^2 ...), with s / kg / m / C / K as cancelling factor, "
        "and the non-ASCII name Å; unit factors from the harness's own unit table (never from numericalunits' derived "
        'units); every call form of the unit arguments for Atoms.model / System.model / dump (prop_unit dictionary, '
        'prop_name + unit lists, the unit list alone, prop_name alone, nothing; keyword or positional; lists, tuples, '
        'numpy arrays, OrderedDict); falsy-but-valid values (masses of exactly 0.0 in every pattern with None, '
        "all-zero / all-False / empty-string properties, whole-number floats, pbc all False / all True, '' symbols, an "
        'uncertainty of exactly zero, masses= override with 0.0); symbols / masses / pbc handed over as lists, tuples, '
        'arrays, 0/1 integers; systems nested at different depths of a record (System(model=record), load(key=, index=)); '
        'elastic constants with negligible leftovers in the empty slots and a hair (1e-6 .. 1e-11 relative, 1e-7 of the '
        'largest constant) off a higher symmetry. Round 4: LARGE cases in compact form - long values with 1023 .. 131073 '
        'stored numbers (powers of two and round numbers, one below / at / one above; vectors, (n,3), (n,2), (3,n), (n,3,3), '
        '(n,1); floats, running identifiers, 64-bit tags beyond 2^53 with the extremes of int64 at the ends, booleans, '
        'strings; tail columns whose class shows only in the last quarter), in every search run one System of 2^15 + 1 '
        'and one of 2^16 + 1 atoms (the tie: 20001 / 30001 / 20481 / 21846 atoms) with identifier / tag / integer (n,3) / '
        'boolean / (n,1) columns and always one box-scaled column, through tree, JSON and XML; per-atom property names '
        'taken from the methods, read-only attributes, constructor arguments, private slots and special names of Atoms / '
        'System (50 names, created through atoms.view[name]), with the clause that what is read back hides no attribute '
        'of its class behind an instance attribute')
ASSUMPTIONS = [
    "the conversion factor of a unit string under a working-unit configuration is a scalar parameter fac(u) != 0 "
    "(uc.parse is property C09's subject; on every run the factors handed to the model are evaluated by the harness's "
    "own recursive-descent evaluator with the standard precedence over the live numericalunits values, never by "
    "uc.parse); the factor of one unit string under two configurations differs by a "
    "ratio r, and units of the same dimension share that ratio (hypothesis of physical_value_unit_independent)",
    "DataModelDict's JSON codec is lossless on the tree and its XML codec is lossless up to the collapse of "
    "one-element lists (modelled by xmlNorm) for strings that are non-empty, carry no surrounding whitespace and "
    "do not read as numbers/true/false; both are exercised by the correspondence run on every case",
    'DataModelDict.find(key) returns the unique sub-tree with that key (keys of the written models are unique)',
    "ElasticConstants.normalized_as is inside the model (normForm) for every crystal system whose constants are "
    "averages of the entries; for 'isotropic' the two Hill estimates shear(), bulk() (inverse 6x6 array, property "
    "C11's subject) are parameters taken from the implementation",
    'IEEE rounding of value/f and value*f is bounded by 2e-15 relative; of the 3x3 inverse used for scaled '
    'positions by 1e-10 on the generated cells (|entries| <= 8, |det| >= 8)',
]
TRUSTED = ['DataModelDict / xmltodict / json text codecs (observed on every case, not verified)',
           'numpy reshape/flatten/tolist/broadcast_to',
           'the ast translator of harness/props/c10.py (restricted statement forms, refuses anything else; what it '
           'matches form-for-form without a Lean statement is listed in docs/C10.md, round 5)']

# ----------------------------------------------------------------------------------------
# working-unit configurations and unit strings
# ----------------------------------------------------------------------------------------
DEFAULT_CFG = dict(length='angstrom', mass='amu', energy='eV', charge='e')
CONFIGS = {
    'default': DEFAULT_CFG,
    'SI': dict(length='m', mass='kg', time='s', charge='C'),
    'nm-g-ps': dict(length='nm', mass='g', time='ps', charge='e'),
    'metal-J': dict(length='angstrom', time='ps', energy='J', charge='C'),
    'cm-eV': dict(length='cm', mass='amu', energy='eV', charge='e'),
    'random': dict(seed=20240928),      # numericalunits' random working units: all five base units non-trivial
    'random2': dict(seed=7),            # (a second draw: what one random configuration leaves behind must not survive)
    # named time units next to a derived length / a derived mass / nothing derived; a single keyword
    'amu-fs-eV': dict(mass='amu', time='fs', energy='eV', charge='e'),          # length derived
    'um-ns-kJ': dict(length='um', time='ns', energy='kJ'),                      # mass derived, charge left in SI
    'pm-kg-fs': dict(length='pm', mass='kg', time='fs', charge='C'),
    'time-ps': dict(time='ps'),
    'energy-eV': dict(energy='eV'),                                             # mass derived from the energy alone
}
# working units a generated configuration ('cfg:length=nm,time=fs,...': up to four keywords, never over-determined) may name
CFG_POOL = {'length': ['angstrom', 'nm', 'm', 'cm', 'pm', 'um', 'Å'], 'mass': ['amu', 'g', 'kg'],
            'time': ['ps', 's', 'fs', 'ns'], 'energy': ['eV', 'J', 'mJ', 'kJ'], 'charge': ['e', 'C']}
UNITS = {
    'length': ['angstrom', 'nm', 'm', 'cm', 'pm', 'Å'],
    'pressure': ['GPa', 'eV/angstrom^3', 'MPa', 'bar', 'kg/(m*s^2)', 'Pa'],
    'energy': ['eV', 'J', 'mJ/mol', 'kg*m^2/s^2'],
    'force': ['eV/angstrom', 'nN', 'kg*m/s^2'],
    'charge': ['e', 'C', 'A*s'],
    'mass': ['amu', 'g', 'kg'],
    'time': ['ps', 's', 'fs'],
    'velocity': ['angstrom/ps', 'm/s', 'nm/fs'],
    'area*': ['angstrom^2', 'nm*nm'],
    'temperature': ['K', 'mK', 'eV/K', 'K/ps', 'kJ/mol/K', 'J/(kg*K)', 'K^2', 'K*nm'],
    'misc': ['THz', 'C/m^2', 'V/m', 'kg/m^3'],
}
ALL_UNITS = [u for us in UNITS.values() for u in us]

# ---- the harness's own unit table: SI value and dimension exponents (length, mass, time, charge, temperature) of every
#      unit name it uses, written down here from the definitions (SI prefixes, CODATA 2022 exact / recommended values) -
#      nothing is read from atomman, and the base factors of a working-unit configuration come from plain arithmetic
#      on these numbers (own_base), so an internally inconsistent table built by uc.reset_units is visible.
SI_UNITS = {
    'm': (1.0, (1, 0, 0, 0, 0)), 'cm': (1e-2, (1, 0, 0, 0, 0)), 'um': (1e-6, (1, 0, 0, 0, 0)),
    'nm': (1e-9, (1, 0, 0, 0, 0)), 'pm': (1e-12, (1, 0, 0, 0, 0)), 'angstrom': (1e-10, (1, 0, 0, 0, 0)),
    'Å': (1e-10, (1, 0, 0, 0, 0)),
    'kg': (1.0, (0, 1, 0, 0, 0)), 'g': (1e-3, (0, 1, 0, 0, 0)), 'amu': (1.66053906892e-27, (0, 1, 0, 0, 0)),
    's': (1.0, (0, 0, 1, 0, 0)), 'ns': (1e-9, (0, 0, 1, 0, 0)), 'ps': (1e-12, (0, 0, 1, 0, 0)),
    'fs': (1e-15, (0, 0, 1, 0, 0)),
    'Hz': (1.0, (0, 0, -1, 0, 0)), 'THz': (1e12, (0, 0, -1, 0, 0)),
    'C': (1.0, (0, 0, 0, 1, 0)), 'e': (1.602176634e-19, (0, 0, 0, 1, 0)), 'A': (1.0, (0, 0, -1, 1, 0)),
    'K': (1.0, (0, 0, 0, 0, 1)), 'mK': (1e-3, (0, 0, 0, 0, 1)),
    'J': (1.0, (2, 1, -2, 0, 0)), 'mJ': (1e-3, (2, 1, -2, 0, 0)), 'kJ': (1e3, (2, 1, -2, 0, 0)),
    'eV': (1.602176634e-19, (2, 1, -2, 0, 0)),
    'N': (1.0, (1, 1, -2, 0, 0)), 'nN': (1e-9, (1, 1, -2, 0, 0)),
    'Pa': (1.0, (-1, 1, -2, 0, 0)), 'MPa': (1e6, (-1, 1, -2, 0, 0)), 'GPa': (1e9, (-1, 1, -2, 0, 0)),
    'bar': (1e5, (-1, 1, -2, 0, 0)),
    'V': (1.0, (2, 1, -2, -1, 0)),
    'mol': (6.02214076e23, (0, 0, 0, 0, 0)),
}
# roundings (in units of 2^-53, relative) between this table's value of a name and numericalunits' chain of derived
# units for it: at most 5 base factors with a power each + the SI value here, at most 8 products / quotients there,
# a square root and its operand when a base unit is derived from the energy
NAME_ULPS = 24.0


def cfg_spec(name):
    """keyword arguments of uc.reset_units for a configuration name ('cfg:key=unit,...' = a generated one)."""
    if name.startswith('cfg:'):
        return dict(kv.split('=') for kv in name[4:].split(','))
    return CONFIGS[name]


def own_base(spec):
    """(m, kg, s, C, K) in working units of a keyword configuration, from the SI values of the chosen units alone:
    a chosen unit has the value 1; what is not chosen stays SI; an energy unit fixes the first of mass, time, length
    that is not chosen (J = kg m^2 / s^2)."""
    m = 1.0 / SI_UNITS[spec['length']][0] if 'length' in spec else 1.0
    kg = 1.0 / SI_UNITS[spec['mass']][0] if 'mass' in spec else 1.0
    s = 1.0 / SI_UNITS[spec['time']][0] if 'time' in spec else 1.0
    C = 1.0 / SI_UNITS[spec['charge']][0] if 'charge' in spec else 1.0
    if 'energy' in spec:
        J = 1.0 / SI_UNITS[spec['energy']][0]
        if 'mass' not in spec:
            kg = J * s ** 2 / m ** 2
        elif 'time' not in spec:
            s = (kg * m ** 2 / J) ** 0.5
        elif 'length' not in spec:
            m = (J * s ** 2 / kg) ** 0.5
        else:
            raise ValueError(f'over-determined working units {spec}')
    return (m, kg, s, C, 1.0)


_BASE = {'now': None}        # base factors of the configuration set last (set_cfg)


def _uc():
    import atomman.unitconvert as uc
    return uc


def set_cfg(name):
    spec = cfg_spec(name)
    _uc().reset_units(**spec)
    if 'seed' in spec:
        # numericalunits' random units (third party): the five base units as drawn; everything else derived here
        import numericalunits as nu
        _BASE['now'] = (float(nu.m), float(nu.kg), float(nu.s), float(nu.C), float(nu.K))
    else:
        _BASE['now'] = own_base(spec)


def restore_units():
    _uc().reset_units(**DEFAULT_CFG)
    _BASE['now'] = own_base(DEFAULT_CFG)


def own_name(name, base):
    """value of the unit `name` in the working units with the base factors `base`."""
    v, dim = SI_UNITS[name]
    for b, p in zip(base, dim):
        if p:
            v *= b ** p
    return v


# ----------------------------------------------------------------------------------------
# case generation (JSON-able specs; every random choice from the given rng)
# ----------------------------------------------------------------------------------------
WORDS = ['a', 'bb', 'Fe', 'core', 'x1', 'A-b', 'q_r', 'site', 'Zz']
# strings every codec must carry (DataModelDict's XML text codec included: observed): blanks inside, unicode, tabs,
# line breaks, quotes, markup characters, long strings
WORDS_ANY = ['a b', 'é', 'α-site', 'x\ty', 'q"uote', "it's", 'a<b&c>d', 'long' * 10, 'line\nbreak', 'back\\slash',
             ']]>', '#', '{', '<', 'two  blanks']
# strings only the tree and its JSON text carry (the XML text codec strips surrounding blanks, reads '' as None and
# number / boolean look-alikes as numbers / booleans: assumption 2)
WORDS_JSON = ['', ' lead', 'trail ', '12', 'true', 'nan', '1e5', 'None', '-0.0', 'inf']
SPECIAL_FLOATS = [-0.0, 0.0, 1e300, -1e300, 1e-300, 5e-324, 1.7976931348623157e308, 2.2250738585072014e-308,
                  float('nan'), float('inf'), float('-inf'), 0.1 + 0.2, 1 / 3]
BIG_INTS = [2 ** 53 + 1, -(2 ** 53) - 1, 2 ** 62 + 3, -(2 ** 62) - 5, 2 ** 63 - 1, -(2 ** 63), 10 ** 18 + 7]
# how an array is handed to atomman (same numbers, another memory layout / container / dtype)
FORMS = ['c', 'c', 'c', 'fortran', 'strided', 'readonly', 'list', 'narrow']


def _gen_arr(rng, lead, dt=None, trailing=None, bits=3, via='tree', scale=0):
    """spec of one array.  dt: f(loat) i(nt) s(tring) b(ool).  `flavour` records a special value class:
    'special' (signed zero, denormal / huge magnitudes, NaN, infinities - exact reproduction expected, no unit),
    'big' (integers beyond 2**53), 'wild' (strings with blanks / unicode / markup).  `scale`: every float is
    multiplied by 2**scale (exact)."""
    dt = dt or rng.choice('fffffiiissb')
    if trailing is None:
        trailing = rng.choice([[], [], [], [3], [3], [2], [3, 3], [2, 2], [2, 3], [1], [1, 3], [1, 1], [3, 1]])
    shape = list(lead) + list(trailing)
    n = 1
    for s in shape:
        n *= s
    flavour = None
    if rng.random() < 0.07:
        # falsy but valid: every element 0 / 0.0 / False / '' (the empty string survives the tree and JSON only)
        flavour = 'zero'
        if dt == 's' and via == 'xml':
            dt = 'f'
        data = [{'f': 0.0, 'i': 0, 'b': False, 's': ''}[dt]] * n
    elif dt == 'f':
        r = rng.random()
        if r < 0.08:
            flavour = 'special'
            data = [rng.choice(SPECIAL_FLOATS) for _ in range(n)]
        elif r < 0.16:
            # float data whose values all happen to be whole numbers (charges +-1.0, 2.0: must stay float)
            flavour = 'integral'
            data = [float(rng.randint(-6, 6)) * 2.0 ** scale for _ in range(n)]
        else:
            data = [(cm.dyadic(rng, -8, 8, bits) if rng.random() < 0.7 else rng.uniform(-10, 10)) * 2.0 ** scale
                    for _ in range(n)]
    elif dt == 'i':
        if rng.random() < 0.12:
            flavour = 'big'
            data = [rng.choice(BIG_INTS) if rng.random() < 0.7 else rng.randint(-5, 9) for _ in range(n)]
        else:
            data = [rng.randint(-5, 9) for _ in range(n)]
    elif dt == 'b':
        data = [rng.random() < 0.5 for _ in range(n)]
    else:
        r = rng.random()
        if r < 0.3:
            flavour = 'wild'
            pool = WORDS + WORDS_ANY + (WORDS_JSON if via != 'xml' else [])
            data = [rng.choice(pool) for _ in range(n)]
        else:
            data = [rng.choice(WORDS) for _ in range(n)]
    a = {'dt': dt, 'shape': shape, 'data': data, 'form': rng.choice(FORMS)}
    if flavour:
        a['flavour'] = flavour
    if a['form'] == 'narrow':
        # float32 / int32 input: only values both types hold exactly
        if dt == 'f' and flavour in ('zero', 'integral') and scale == 0:
            pass
        elif dt == 'i' and flavour == 'zero':
            pass
        elif dt == 'f' and flavour is None and scale == 0:
            a['data'] = [cm.dyadic(rng, -8, 8, bits) for _ in range(n)]
        elif dt != 'i' or flavour is not None:
            a['form'] = 'c'
    return a


def _pick_unit(rng, arr, allow_scaled=True):
    if arr['dt'] in 'sb' or arr.get('flavour') == 'special':
        return None         # strings / booleans carry no unit; special floats must come back bit for bit
    r = rng.random()
    if allow_scaled and arr['shape'] and arr['shape'][-1] == 3 and len(arr['shape']) >= 2 and r < 0.3 \
            and arr.get('flavour') != 'big':
        return 'scaled'
    if r < 0.45:
        return None
    if r < 0.7:
        return rng.choice(ALL_UNITS)
    return gen_unit_expr(rng)


SCALES = [0] * 12 + [10, -10, 40, -40, 100, -100, 300, -300]     # exponents of two: lengths, positions, constants


def _gen_box(rng, scale=0):
    """cell + origin.  Lower-triangular with every sign pattern of the diagonal, axis-permuted, all-nonzero of
    either handedness, rotated (entries no longer dyadic; a quarter turn leaves 1e-17-sized entries behind), with
    negligible (1e-17, 1e-12 relative: the vects setter zeroes them) or merely small (1e-7 relative: kept) entries;
    all entries times 2**scale."""
    lx, ly, lz = (rng.randint(16, 64) / 8 for _ in range(3))
    xy, xz, yz = (rng.choice([0.0, 0.0, cm.dyadic(rng, -2, 2, 3)]) for _ in range(3))
    if rng.random() < 0.25:
        lx, ly, lz = (x * rng.choice([1.0, -1.0]) for x in (lx, ly, lz))
    vects = [[lx, 0.0, 0.0], [xy, ly, 0.0], [xz, yz, lz]]
    r = rng.random()
    if r < 0.3:      # general orientation: a signed permutation of the axes
        perm = rng.choice([[1, 2, 0], [2, 0, 1], [0, 2, 1]])
        sg = [rng.choice([1.0, -1.0]) for _ in range(3)]
        vects = [[sg[j] * v[perm[j]] for j in range(3)] for v in vects]
    elif r < 0.45:    # no zero entry, either handedness: |entries| <= 8, 8 <= |det|, nothing negligible
        for _ in range(200):
            m = [[cm.dyadic(rng, -8, 8, 2) for _ in range(3)] for _ in range(3)]
            (a, b, c), (d, e, f), (g, h, i) = m
            det = a * (e * i - f * h) - b * (d * i - f * g) + c * (d * h - e * g)
            if abs(det) >= 8 and all(abs(x) >= 0.25 for row in m for x in row):
                vects = m
                break
    elif r < 0.6:     # rotated about a coordinate axis (float arithmetic as a user would do it)
        import math
        ang = rng.choice([math.pi / 2, math.pi / 2, math.pi, math.pi / 6, math.pi / 4, rng.uniform(0, 6.28)])
        c, sn = math.cos(ang), math.sin(ang)
        ax = rng.randrange(3)
        i, j = [(1, 2), (2, 0), (0, 1)][ax]
        out = []
        for v in vects:
            w = list(v)
            w[i], w[j] = c * v[i] - sn * v[j], sn * v[i] + c * v[j]
            out.append(w)
        vects = out
    elif r < 0.7:     # negligible / small entries in the empty slots
        big = max(abs(x) for row in vects for x in row)
        for row in vects:
            for j in range(3):
                if row[j] == 0.0 and rng.random() < 0.5:
                    row[j] = rng.choice([1e-17, -3e-17, 2e-12, 1e-7, -1e-7]) * big
    origin = [0.0, 0.0, 0.0] if rng.random() < 0.25 else [cm.dyadic(rng, -4, 4, 2) for _ in range(3)]
    k = 2.0 ** scale
    return {'vects': [[x * k for x in row] for row in vects], 'origin': [x * k for x in origin]}


def clean_cell(vects):
    """what a Box holds after its vects setter (documented clean-up): entries with |x| <= 1e-9 * max|entry| are 0."""
    big = max(abs(Fraction(x)) for row in vects for x in row)
    return [[Fraction(0) if abs(Fraction(x)) <= Fraction(1, 10 ** 9) * big else Fraction(x) for x in row] for row in vects]


def clean_cij(C):
    """what an ElasticConstants object holds after its Cij setter (documented clean-up): entries with
    |x| <= 1e-9 * (largest entry) are 0."""
    big = max(Fraction(x) for row in C for x in row)
    return [[0.0 if abs(Fraction(x)) <= Fraction(1, 10 ** 9) * big else x for x in row] for row in C]


def _gen_cfg(rng):
    """a configuration name: one of CONFIGS or a generated keyword set (1-4 of length / mass / time / energy / charge
    with units from CFG_POOL; with an energy unit at most two of length, mass, time, so that nothing is given twice)."""
    if rng.random() < 0.65:
        return rng.choice(list(CONFIGS) + ['random', 'random2'])
    keys = rng.sample(list(CFG_POOL), rng.randint(1, 4))
    if 'energy' in keys and all(k in keys for k in ('length', 'mass', 'time')):
        keys.remove(rng.choice(['length', 'mass', 'time']))
    return 'cfg:' + ','.join(f'{k}={rng.choice(CFG_POOL[k])}' for k in CFG_POOL if k in keys)


def _gen_cfgs(rng):
    w1 = _gen_cfg(rng)
    w2 = w1 if rng.random() < 0.3 else _gen_cfg(rng)
    return w1, w2


def _cfg_table(name):
    """name -> value table of a configuration from the harness's own unit table (keyword configurations only)."""
    spec = cfg_spec(name)
    if 'seed' in spec:
        return None
    base = own_base(spec)
    return {n: own_name(n, base) for n in SI_UNITS}


def _fit_cfgs(case):
    """keep value / factor and value * factor inside the double range: a generated configuration under which a unit
    of the case has a factor outside 1e-120 .. 1e120 is replaced by a fixed one (the unit expressions were generated
    against those, see _sane)."""
    for w in ('w1', 'w2'):
        tab = _cfg_table(case[w])
        if tab is None or not case[w].startswith('cfg:'):
            continue
        for u in _units_of(case):
            if u is None or u == 'scaled':
                continue
            try:
                v = abs(eval_ast(unit_ast(u), tab.__getitem__)[0])
            except (OverflowError, ZeroDivisionError):
                v = 0.0
            if not (1e-120 < v < 1e120):
                case[w] = 'nm-g-ps' if w == 'w1' else 'default'
                break
    return case


# numbers of stored values at which a fast path / block-wise evaluation / packed key could switch on: powers of two
# and round numbers, one below, at and one above
COUNTS = [1023, 1025, 2049, 4095, 4096, 4097, 8193, 9999, 10001, 16383, 16385, 20000, 20001, 32767, 32769, 50001,
          65535, 65536, 65537, 100001, 131073]
# numbers of atoms: one above a power of two (n = k * block + 1 for every power-of-two block up to n - 1, and beyond
# every threshold below it), one above a round number (the same for decimal blocks), in between
NATOMS_A = [32769, 20001, 30001, 20481, 21846]      # (21846 atoms: 65538 coordinates)
NATOMS_B = [65537, 70001, 66000]


def _count_shape(rng, count):
    """a shape with about `count` elements (never fewer): a long vector, (n, 3) / (n, 2) / (3, n) / (n, 3, 3) /
    (n, 1) arrays."""
    k = rng.choice([0, 0, 0, 1, 2, 3, 4, 5])
    if k == 0:
        return [count]
    if k == 1:
        return [-(-count // 3), 3]
    if k == 2:
        return [-(-count // 2), 2]
    if k == 3:
        return [3, -(-count // 3)]
    if k == 4:
        return [-(-count // 9), 3, 3]
    return [count, 1]


def gen_uc(rng, count=None):
    rank = rng.choice([0, 0, 1, 1, 2, 2, 3, 4])
    shape = [rng.choice([1, 2, 3, 4]) for _ in range(rank)]
    via = rng.choice(['tree', 'json', 'xml'])
    scale = rng.choice(SCALES)
    if count is not None:
        # a LONG value: dtype class and every element must come back whatever the number of stored values
        shape = _count_shape(rng, count)
        arr = _gen_arr(rng, shape, trailing=[], dt=rng.choice('fiiiibbs'), via=via, scale=scale)
        if arr['form'] == 'narrow':
            arr['form'] = 'c'
        if arr['dt'] in 'sif' and arr.get('flavour') in (None, 'integral') and rng.random() < 0.3:
            arr = dict(_tail_column(rng, len(arr['data']), arr['dt']), shape=shape)
        elif arr['dt'] == 'i' and arr.get('flavour') is None and rng.random() < 0.5:
            # identifiers: 1 .. n, or 64-bit tags beyond 2^53 (the extremes of int64 at the ends and in the middle)
            n = len(arr['data'])
            if rng.random() < 0.5:
                arr['data'] = list(range(1, n + 1))
            else:
                arr['flavour'] = 'big'
                arr['data'] = [(1 << 60) + i for i in range(n)]
                for at, v in zip((0, n // 2, n - 1), rng.sample(BIG_INTS, 3)):
                    arr['data'][at] = v
    else:
        arr = _gen_arr(rng, shape, trailing=[], dt=rng.choice('fffffiisb'), via=via, scale=scale)
    unit = _pick_unit(rng, arr, allow_scaled=False)
    if unit is not None and (abs(scale) > 100 or (arr['form'] == 'narrow' and arr['dt'] == 'f')):
        # keep value / factor inside the double range; float32 input divided by a unit factor is float32 arithmetic
        # (numpy keeps the array's type against a python float: 1e-7 relative, overflow beyond 3e38) - not modelled
        unit = None
    if arr['dt'] in 'fi' and arr.get('flavour') != 'special' and rng.random() < 0.08:
        unit = 'scaled'
    w1, w2 = _gen_cfgs(rng)
    case = {'kind': 'uc', 'via': via, 'w1': w1, 'w2': w2, 'unit': unit, 'arr': arr}
    if arr['dt'] == 'f' and arr.get('flavour') is None and arr['form'] != 'narrow' and rng.random() < 0.25:
        # uc.model(value, unit, error=...): an uncertainty of the same shape, stored next to the value
        case['err'] = [cm.dyadic(rng, 0, 2, 4) * 2.0 ** scale for _ in arr['data']]
        if rng.random() < 0.2:
            case['err'] = [0.0 for _ in arr['data']]        # an uncertainty of exactly zero is a value, not "no error"
        case['err_form'] = rng.choice(FORMS[:-1])
    if count is None:
        # smallest sizes: EMPTY float arrays of rank 1-3 (an extent of 0 anywhere), through the tree and its JSON text
        # (XML has no empty lists; an empty integer / string array is typed float by numpy: PARTIAL 'empty arrays').
        # A generator of its own: the main stream stays what it was.
        rx = random.Random('c10-empty %r' % ((case['arr']['data'][:4], case['w1'], case['via']),))
        if rx.random() < 0.04:
            shp = rx.choice([[0], [0], [0, 3], [2, 0], [0, 3, 3], [1, 0], [0, 1]])
            # (a nested python list cannot say (0, 3): [] is what (0,) looks like too)
            forms = ['c', 'fortran', 'readonly'] + (['list'] if shp[0] != 0 or len(shp) == 1 else [])
            case['arr'] = {'dt': 'f', 'shape': shp, 'data': [], 'form': rx.choice(forms), 'flavour': 'empty'}
            case['via'] = 'tree' if case['via'] == 'xml' else case['via']
            case.pop('err', None)
            case.pop('err_form', None)
            if case['unit'] == 'scaled':
                case['unit'] = None
    return case


def _len_unit(rng):
    return gen_dim_unit(rng, 'length') if rng.random() < 0.45 else rng.choice(UNITS['length'] + [None])


def gen_box(rng):
    w1, w2 = _gen_cfgs(rng)
    return {'kind': 'box', 'via': rng.choice(['tree', 'json', 'xml']), 'w1': w1, 'w2': w2,
            'unit': _len_unit(rng), 'box': _gen_box(rng)}


NAMES = ['charge', 'tag', 'n', 'stress', 'vel', 'disp', 'label', 'T', 'spin']
# short names that are substrings of reserved ones, names equal to keys of the written tree, names with a blank /
# non-ASCII letter ('natoms', 'model', 'prop', 'view' are attributes / constructor arguments of Atoms: not property names)
NAMES_ODD = ['p', 'os', 'po', 's', 'a', 'typ', 'x y', 'é', 'shape', 'unit', 'value', 'box', 'atoms', 'name', 'data',
             'property', 'scaled', 'avect', 'origin', 'atom-type-symbol', 'natom', 'error', 'atomic-system']
# names that the classes themselves use: methods, read-only attributes and constructor arguments of Atoms, methods and
# attributes of System, private / special attribute names.  A per-atom property may carry any of them (the property
# table is a dictionary: atoms.view[name] = values); what is read back must hold it in the table and must still be a
# working object (the method / attribute of that name is the class's, not the column).  None of them can be handed
# to Atoms(**kwargs) safely (constructor arguments, or C06's subject): they are created through atoms.view[name].
NAMES_CLASS = ['df', 'extend', 'prop_atype', 'model', 'prop', 'natoms', 'natypes', 'atypes', 'view', 'safecopy', 'kwargs',
               'self', 'box', 'pbc', 'symbols', 'masses', 'composition', 'dump', 'wrap', 'scale', 'unscale', 'dvect', 'dmag',
               'r0', 'rotate', 'supersize', 'normalize', 'neighborlist', 'box_set', 'atoms_prop', 'atoms_df', 'atoms_ix',
               'atoms_extend', 'load', '_Atoms__view', '_Atoms__natoms', '_Atoms__dir', '__dict__', '__class__', '__len__',
               '__getitem__', '__init__', '__doc__', 'PropertyDict', 'keys', 'values', 'items', 'copy', 'shape', 'dtype']


def _big_columns(rng, natoms):
    """the columns large atomistic systems carry: running identifiers, 64-bit tags beyond 2^53, integer image flags
    (n, 3), boolean masks, integer counts - stored without a unit, so dtype class and every value come back."""
    cols = []
    ids = list(range(1, natoms + 1))
    if rng.random() < 0.5:
        rng.shuffle(ids)
    cols.append({'name': 'atom_id', 'unit': None, 'dt': 'i', 'shape': [natoms], 'data': ids, 'form': rng.choice(['c', 'list', 'readonly'])})
    tag = [(1 << 60) + 7 * i for i in range(natoms)]
    for at, v in zip((0, natoms // 2, natoms - 1), rng.sample(BIG_INTS, 3)):
        tag[at] = v
    cols.append({'name': 'tag', 'unit': None, 'dt': 'i', 'shape': [natoms], 'data': tag, 'form': 'c', 'flavour': 'big'})
    cols.append({'name': 'image', 'unit': None, 'dt': 'i', 'shape': [natoms, 3],
                 'data': [rng.randint(-2, 2) for _ in range(3 * natoms)], 'form': rng.choice(['c', 'fortran', 'strided', 'narrow'])})
    cols.append({'name': 'fixed', 'unit': None, 'dt': 'b', 'shape': [natoms],
                 'data': [rng.random() < 0.5 for _ in range(natoms)], 'form': rng.choice(['c', 'list'])})
    cols.append({'name': 'nbonds', 'unit': None, 'dt': 'i', 'shape': [natoms, 1],
                 'data': [rng.randint(0, 12) for _ in range(natoms)], 'form': 'c'})
    cols.append(dict(_tail_column(rng, natoms, rng.choice('sif')), name='site'))
    rng.shuffle(cols)
    return cols[:rng.randint(2, 6)]


def _tail_column(rng, n, dt):
    """a long column whose class shows only late: a uniform head (short strings / small non-negative integers / whole
    numbers) and, in the last quarter and at the very end, a longer string / a negative and a 41-bit integer / a
    fraction - whatever is inferred from the head alone (string width, integer width, "these are integers") is wrong
    for the tail."""
    late = sorted({n - 1, n - 2 - rng.randrange(max(1, n // 4))} & set(range(n)))
    if dt == 's':
        data = [rng.choice(['a', 'bb', 'Fe']) for _ in range(n)]
        odd = ['interstitial-site', 'a-much-longer-label-than-any-before']
    elif dt == 'i':
        data = [rng.randint(0, 9) for _ in range(n)]
        odd = [-3, (1 << 40) + 5]
    else:
        data = [float(rng.randint(0, 9)) for _ in range(n)]
        odd = [0.5, -1234567.890625]
    for at, v in zip(late, odd):
        data[at] = v
    return {'unit': None, 'dt': dt, 'shape': [n], 'data': data, 'form': 'c', 'flavour': 'tail'}


def _gen_props(rng, natoms, ntypes, via='tree', scale=0, box=None, big=False):
    atype = [rng.randint(1, ntypes) for _ in range(natoms)]
    atype[rng.randrange(natoms)] = ntypes
    pos = _gen_arr(rng, [natoms], dt='f' if rng.random() < 0.9 else 'i', trailing=[3], via=via, scale=scale)
    if pos.get('flavour') not in (None, 'zero', 'integral'):
        pos = _gen_arr(rng, [natoms], dt='f', trailing=[3], via=via, scale=scale)
        pos['data'] = [cm.dyadic(rng, -8, 8, 3) * 2.0 ** scale for _ in pos['data']]
        pos.pop('flavour', None)
        pos['form'] = 'c'
    if box is not None and pos['dt'] == 'f' and rng.random() < 0.3:
        # atoms on cell faces / edges / corners and a hair inside or outside them (relative coordinates 0, 1,
        # +-1e-9, 1 +- 1e-9, 1e-7, 1e-4), far outside the cell: origin + rel . vects in double arithmetic
        for i in range(natoms):
            if rng.random() < 0.6:
                rel = [rng.choice([0.0, 1.0, 1e-9, -1e-9, 1 - 1e-9, 1 + 1e-9, 1e-7, 1 - 1e-4, 0.5, -7.25, 12.5])
                       for _ in range(3)]
                for c in range(3):
                    pos['data'][3 * i + c] = box['origin'][c] + sum(rel[k] * box['vects'][k][c] for k in range(3))
        pos.pop('flavour', None)
        pos['form'] = 'c' if pos['form'] == 'narrow' else pos['form']
    lu = [None, 'scaled', 'scaled', 'angstrom', 'nm', 'm', gen_dim_unit(rng, 'length'), gen_dim_unit(rng, 'length')]
    if pos['form'] == 'narrow' and pos['dt'] == 'f':
        lu = lu[1:3]                        # (float32 positions: box-scaled only, see gen_uc)
    props = [{'name': 'atype', 'unit': None, 'dt': 'i', 'shape': [natoms], 'data': atype,
              'form': rng.choice(['c', 'c', 'list', 'narrow', 'readonly'])},
             dict(pos, name='pos', unit=rng.choice(lu if abs(scale) <= 100 else lu[:3]))]
    names = list(NAMES)
    rng.shuffle(names)
    names = names[:rng.randint(0, 2 if big else 4)]
    if rng.random() < 0.3:
        names.insert(rng.randint(0, len(names)), rng.choice(NAMES_ODD))
    # (dimensions added in later rounds draw from a generator derived from the case so far: the main stream, and with
    # it every case of the earlier rounds, stays what it was)
    rx = random.Random('c10-names %r %r' % (names, atype[:8]))
    extra = []
    if rx.random() < 0.3:
        extra = [nm for nm in rx.sample(NAMES_CLASS, rx.choice([1, 1, 2, 3])) if nm not in names]
    for name in names + extra:
        g = rng if name in names else rx
        arr = _gen_arr(g, [natoms], via=via, scale=scale)
        unit = _pick_unit(g, arr)
        if unit not in (None, 'scaled') and (abs(scale) > 100 or (arr['form'] == 'narrow' and arr['dt'] == 'f')):
            unit = None
        props.append(dict(arr, name=name, unit=unit))
    if big:
        for c in _big_columns(rng, natoms):
            props.insert(rng.randint(2, len(props)), c)
    if extra and rx.random() < 0.6:
        # anywhere in the table, not only at its end
        tail = props[2:]
        rx.shuffle(tail)
        props[2:] = tail
    return props


def _gen_again(rng, props, box=True):
    """a second dump of the SAME object: a few elements of its property arrays are overwritten in place (through
    the array the object hands out), optionally its box is replaced through the setters, then it is written under
    the configuration it was read under and read under the one it was written under."""
    edits = []
    for p in props:
        if p['name'] == 'atype' or p['dt'] in 'sb' or p.get('form') in ('readonly', 'list', 'narrow') \
                or p.get('flavour') in ('special', 'big', 'wild'):
            continue
        if rng.random() < 0.6:
            n = 1
            for x in p['shape']:
                n *= x
            for _ in range(rng.randint(1, 2)):
                v = float(rng.randint(-40, 40)) / 8 if p['dt'] == 'f' else rng.randint(-9, 9)
                edits.append({'name': p['name'], 'at': rng.randrange(n), 'value': v})
    again = {'edits': edits}
    if box and rng.random() < 0.4:
        again['setv'] = _gen_box(rng)['vects']
    return again


def apply_again(case):
    """the case that describes the object after the in-place edits of case['again'], written under w2 / read under w1."""
    c2 = {k: v for k, v in case.items() if k not in ('again', 'props', 'box')}
    c2['w1'], c2['w2'] = case['w2'], case['w1']
    props = [dict(p, data=list(p['data'])) for p in case['props']]
    k = 2.0 ** case.get('scale', 0)
    for e in case['again']['edits']:
        for p in props:
            if p['name'] == e['name']:
                p['data'][e['at']] = e['value'] * k if p['dt'] == 'f' else e['value']
    c2['props'] = props
    if 'box' in case:
        c2['box'] = dict(case['box'])
        if 'setv' in case['again']:
            c2['box']['vects'] = [[x * k for x in row] for row in case['again']['setv']]
    c2['second_of'] = {k: v for k, v in case.items()}
    c2['record'] = None
    c2['override'] = None
    c2['prefill'] = False
    return c2


# containers the arguments arrive in: prop_name / unit as lists, tuples or numpy arrays, prop_unit as a dict or an
# OrderedDict; symbols / masses / pbc of a System as lists, tuples or arrays (pbc also as 0 / 1 integers)
ARGFORMS = ['list', 'list', 'tuple', 'ndarray', 'odict']
CONTAINERS = ['list', 'list', 'tuple', 'ndarray', 'ints']


CALLS = ['prop_unit', 'prop_unit', 'lists', 'lists', 'units', 'units', 'names', 'default']


def _gen_call(rng, props, sel):
    """how the properties / units are handed to Atoms.model / System.model / dump: prop_unit dictionary, prop_name and
    unit lists, the unit list ALONE (aligned with the object's own property order), the prop_name list alone, neither.
    The last two say nothing about units: every unit of the case is None then (pos: the documented default angstrom).
    With a selection the bare unit list / nothing at all is not a way to say it."""
    call = rng.choice(CALLS)
    if sel is not None and call in ('units', 'default'):
        call = rng.choice(['prop_unit', 'lists', 'names'])
    if call in ('names', 'default'):
        if any(p['name'] == 'pos' and p.get('form') == 'narrow' and p['dt'] == 'f' for p in props):
            return rng.choice(['prop_unit', 'lists'] if sel is not None else ['prop_unit', 'lists', 'units'])
        for p in props:
            p['unit'] = None
        for e in sel or []:
            e['unit'] = None
    return call


def gen_atoms(rng, natoms=None):
    big = natoms is not None
    natoms = natoms or rng.randint(1, 6)
    ntypes = rng.randint(1, 3)
    w1, w2 = _gen_cfgs(rng)
    via = rng.choice(['tree', 'json', 'xml'])
    props = _gen_props(rng, natoms, ntypes, via, big=big)
    for p in props:
        if p['unit'] == 'scaled' and rng.random() < 0.5 and not (p['form'] == 'narrow' and p['dt'] == 'f'):
            p['unit'] = 'nm'        # Atoms.model alone treats 'scaled' as factor 1
    case = {'kind': 'atoms', 'via': via, 'w1': w1, 'w2': w2, 'natoms': natoms, 'props': props}
    if rng.random() < 0.3:
        # Atoms.model(prop_unit=...) with a selection of the properties in another order (atype / pos may be left
        # out: the reader then fills in the constructor's defaults)
        sel = [p for p in props if rng.random() < 0.7]
        rng.shuffle(sel)
        case['sel'] = [{'name': p['name'], 'unit': p['unit']} for p in sel]
    elif rng.random() < 0.4:
        case['again'] = _gen_again(rng, props, box=False)
    case['call'] = _gen_call(rng, props, case.get('sel'))
    case['positional'] = rng.random() < 0.3
    case['argform'] = rng.choice(ARGFORMS)
    return case


SYMBOLS = ['Al', 'Cu', 'Fe', 'Ni-1', None, None, 'α-Fe', 'Al 1']


def gen_sys(rng, natoms=None):
    big = natoms is not None
    natoms = natoms or rng.randint(1, 7)
    ntypes = rng.randint(1, 3)
    w1, w2 = _gen_cfgs(rng)
    via = rng.choice(['tree', 'json', 'xml'])
    scale = rng.choice(SCALES)
    box = _gen_box(rng, scale)
    props = _gen_props(rng, natoms, ntypes, via, scale, box, big=big)
    nsym = rng.choice([0, ntypes, ntypes, ntypes, ntypes + 1, max(0, ntypes - 1)])
    symbols = [rng.choice(SYMBOLS) for _ in range(nsym)]
    natS = max(nsym, ntypes)
    if symbols and via != 'xml' and rng.random() < 0.08:
        symbols[rng.randrange(nsym)] = ''            # (an empty symbol survives the tree and JSON, not XML text)
    mode = rng.choice(['none', 'all', 'some', 'short', 'zero', 'zero'])
    if mode == 'zero':
        # a mass of exactly 0.0 (massless shell / ghost site) is a value, not a missing mass: every pattern of
        # 0.0 with None, alone, and next to a non-zero mass
        masses = [rng.choice([0.0, 0.0, None]) for _ in range(natS)]
        masses[rng.randrange(natS)] = 0.0
        if natS > 1 and rng.random() < 0.3:
            masses[rng.choice([i for i in range(natS)])] = rng.randint(8, 800) / 8
            if 0.0 not in masses:
                masses[0 if masses[0] is None else -1] = 0.0
    elif mode == 'none':
        masses = []
    elif mode == 'all':
        masses = [rng.randint(8, 800) / 8 for _ in range(natS)]
    elif mode == 'some':
        masses = [rng.choice([None, rng.uniform(1, 200)]) for _ in range(natS)]
    else:
        masses = [rng.uniform(1, 200) for _ in range(rng.randint(0, natS))]
    # masses handed over as numpy scalars / python ints (the object stores floats)
    mass_form = rng.choice([None, None, None, 'f32', 'i64', 'int'])
    if mode == 'zero':
        if mass_form in ('i64', 'int'):
            masses = [None if m is None else float(int(m)) for m in masses]
    elif mass_form == 'f32':
        masses = [None if m is None else rng.randint(8, 800) / 8 for m in masses]
    elif mass_form in ('i64', 'int'):
        masses = [None if m is None else float(rng.randint(1, 240)) for m in masses]
    sel = None
    if rng.random() < 0.25:
        # System.model / dump with a selection of the properties in another order (atype / pos possibly left out)
        chosen = [p for p in props if rng.random() < 0.7]
        rng.shuffle(chosen)
        sel = [{'name': p['name'], 'unit': p['unit']} for p in chosen]
    io = rng.choice(['str', 'str', 'str', 'path', 'path', 'fileobj', 'stringio', 'tmpfile'])
    if io == 'tmpfile' and via == 'xml':
        io = 'stringio'             # xmltodict refuses tempfile's wrapper object (third party): JSON only
    case = {'kind': 'sys', 'via': via, 'w1': w1, 'w2': w2, 'sel': sel, 'scale': scale,
            'box': box, 'box_unit': _len_unit(rng) if abs(scale) <= 100 else None,
            # (all three False - a cluster - and all three True included)
            'pbc': rng.choice([[False] * 3, [True] * 3] + [[rng.random() < 0.6 for _ in range(3)]] * 5), 'symbols': symbols, 'masses': masses, 'mass_form': mass_form,
            'natoms': natoms, 'props': props,
            'call': _gen_call(rng, props, sel), 'positional': rng.random() < 0.3, 'argform': rng.choice(ARGFORMS),
            'cont': rng.choice(CONTAINERS),
            'io': io,
            # the target file exists already and is longer than what is written now
            'prefill': io == 'path' and rng.random() < 0.5,
            'fmtcase': rng.choice([None, None, None, 'upper', 'title']), 'indent': rng.choice([None, None, None, 0, 1, 4]),
            # the system as one of several entries of a larger record: load(..., key=, index=)
            # ('deep': the entries with that key sit at different depths of the record, the written one innermost)
            'record': rng.choice([None, None, None, {'key': 'atomic-system', 'index': 1}, {'key': 'final-system', 'index': 0},
                                  {'key': 'relaxed-system', 'index': 2}, {'key': 'atomic-system', 'index': 0, 'deep': 2},
                                  {'key': 'atomic-system', 'index': 1, 'deep': 1}]),
            'override': None}
    if rng.random() < 0.2:
        # documented reader options: symbols= of load / System(model=), pbc= and masses= of System(model=)
        nt = max(len(symbols), ntypes)
        what = rng.choice(['symbols', 'symbols', 'pbc', 'masses'])
        if what == 'symbols':
            val = [rng.choice(['Cu', 'Au', 'Pt', 'W']) for _ in range(nt)]
            case['override'] = {'symbols': val[0] if nt == 1 and rng.random() < 0.5 else val}
        elif what == 'pbc':
            # (all three False - a cluster - is a valid, falsy value)
            case['override'] = {'pbc': [False] * 3 if rng.random() < 0.4 else [rng.random() < 0.5 for _ in range(3)]}
        else:
            case['override'] = {'masses': [rng.choice([0.0, rng.randint(8, 800) / 8]) for _ in range(nt)]}
    if sel is None and rng.random() < 0.35:
        case['again'] = _gen_again(rng, props)
    return case


# 'monoclinic' is a crystal system of normalized_as since repo fix 877d779 (13 constants kept, the rest zeroed)
EC_SYSTEMS = ['triclinic', 'isotropic', 'cubic', 'hexagonal', 'tetragonal', 'rhombohedral', 'orthorhombic', 'monoclinic']
# the crystal systems in whose normal form a tensor of the given form already is (normalized_as must not change it)
EC_INFORM = {
    'isotropic': {'isotropic', 'cubic', 'hexagonal', 'tetragonal', 'rhombohedral', 'orthorhombic', 'monoclinic', 'triclinic'},
    'cubic': {'cubic', 'tetragonal', 'orthorhombic', 'monoclinic', 'triclinic'},
    'hexagonal': {'hexagonal', 'tetragonal', 'rhombohedral', 'orthorhombic', 'monoclinic', 'triclinic'},
    'tetragonal6': {'tetragonal', 'orthorhombic', 'monoclinic', 'triclinic'},
    'tetragonal7': {'tetragonal', 'triclinic'},
    'rhombohedral6': {'rhombohedral', 'triclinic'},
    'rhombohedral7': {'rhombohedral', 'triclinic'},
    'orthorhombic': {'orthorhombic', 'monoclinic', 'triclinic'},
    'monoclinic': {'monoclinic', 'triclinic'},
    'triclinic': {'triclinic'},
}
EC_KEYS = {
    'isotropic': ['C11', 'C12'], 'cubic': ['C11', 'C12', 'C44'], 'hexagonal': ['C11', 'C33', 'C12', 'C13', 'C44'],
    'tetragonal6': ['C11', 'C33', 'C12', 'C13', 'C44', 'C66'], 'tetragonal7': ['C11', 'C33', 'C12', 'C13', 'C44', 'C66', 'C16'],
    'rhombohedral6': ['C11', 'C33', 'C12', 'C13', 'C14', 'C44'],
    'rhombohedral7': ['C11', 'C33', 'C12', 'C13', 'C14', 'C15', 'C44'],
    'orthorhombic': ['C11', 'C22', 'C33', 'C12', 'C13', 'C23', 'C44', 'C55', 'C66'],
    'monoclinic': ['C11', 'C12', 'C13', 'C15', 'C22', 'C23', 'C25', 'C33', 'C35', 'C44', 'C46', 'C55', 'C66'],
    'triclinic': ['C%d%d' % (i, j) for i in range(1, 7) for j in range(i, 7)],
}


def ec_form_matrix(form, k):
    """the 6x6 array of a crystal in the general normal form of `form` (Nye's tables), written out here from the
    named constants `k` - not through atomman's constructors."""
    g = lambda n: k.get(n, 0.0)    # noqa: E731
    C = [[0.0] * 6 for _ in range(6)]

    def put(i, j, v):
        C[i - 1][j - 1] = v
        C[j - 1][i - 1] = v
    if form == 'triclinic':
        for i in range(1, 7):
            for j in range(i, 7):
                put(i, j, g('C%d%d' % (i, j)))
        return C
    if form in ('isotropic', 'cubic'):
        c44 = (g('C11') - g('C12')) / 2 if form == 'isotropic' else g('C44')
        for i in (1, 2, 3):
            put(i, i, g('C11'))
            put(i + 3, i + 3, c44)
        for i, j in ((1, 2), (1, 3), (2, 3)):
            put(i, j, g('C12'))
        return C
    if form in ('orthorhombic', 'monoclinic'):
        for n in EC_KEYS[form]:
            put(int(n[1]), int(n[2]), g(n))
        return C
    # hexagonal / tetragonal / rhombohedral families: C22 = C11, C23 = C13, C55 = C44
    put(1, 1, g('C11')); put(2, 2, g('C11')); put(3, 3, g('C33'))   # noqa: E702
    put(1, 2, g('C12')); put(1, 3, g('C13')); put(2, 3, g('C13'))   # noqa: E702
    put(4, 4, g('C44')); put(5, 5, g('C44'))                        # noqa: E702
    put(6, 6, g('C66') if form.startswith('tetragonal') else (g('C11') - g('C12')) / 2)
    if form == 'tetragonal7':
        put(1, 6, g('C16')); put(2, 6, -g('C16'))                   # noqa: E702
    if form.startswith('rhombohedral'):
        put(1, 4, g('C14')); put(2, 4, -g('C14')); put(5, 6, g('C14'))   # noqa: E702
        put(1, 5, g('C15')); put(2, 5, -g('C15')); put(4, 6, -g('C15'))  # noqa: E702
    return C


def gen_ec(rng):
    """elastic constants in the general normal form of every crystal system (7-constant tetragonal and
    rhombohedral, monoclinic, triclinic included), stored as every crystal_system."""
    form = rng.choice(list(EC_INFORM))
    exact = rng.random() < 0.7
    # magnitudes: the setter's clean-up and symmetry test must be relative (small-number unit systems)
    scale = rng.choice([1.0, 12.5, 0.25]) * 2.0 ** rng.choice([0, 0, 0, 0, 20, -20, 40, -40, 100, -100])

    def num(lo, hi, signed=False):
        x = rng.randint(int(lo * 4), int(hi * 4)) / 4 if exact else rng.uniform(lo, hi)
        if signed and rng.random() < 0.5:
            x = -x
        return x * scale
    k = {}
    for n in EC_KEYS[form]:
        i, j = int(n[1]), int(n[2])
        if i == j:
            k[n] = num(100, 225) if i <= 3 else num(10, 75)
        elif j <= 3:
            k[n] = num(25, 75)
        else:
            k[n] = num(2, 25, signed=True)        # never zero: C14, C15, C16, C25, C35, C46 ...
    if form == 'isotropic':
        k['C11'] = k['C12'] + 2 * num(10, 75)
    r = rng.random()
    C = ec_form_matrix(form, k)
    kw = k if (rng.random() < 0.3 and form != 'isotropic') else None
    perturb = None
    big = max(abs(x) for row in C for x in row)
    r2 = rng.random()
    if kw is None and r2 < 0.12:
        # leftovers of a rotation / an average in the empty slots: negligible against the largest constant (the Cij
        # setter zeroes what is below 1e-9 of it; the expectation stays the normal form, within its tolerance)
        perturb = 'negligible'
        for i in range(6):
            for j in range(i + 1, 6):
                if C[i][j] == 0.0 and rng.random() < 0.5:
                    C[i][j] = C[j][i] = rng.choice([1e-17, -1e-17, -3e-17, 2e-13]) * big
    elif kw is None and r2 < 0.3:
        # constants a hair off a higher symmetry: small but significant entries (1e-7, 1e-5 of the largest constant,
        # either sign) in the empty slots and / or one constant changed by 1e-6 .. 1e-11 relative - the tensor is
        # triclinic now, and every one of its 21 constants has to come back
        perturb = 'near'
        for i in range(6):
            for j in range(i + 1, 6):
                if C[i][j] == 0.0 and rng.random() < 0.3:
                    C[i][j] = C[j][i] = rng.choice([1e-7, -1e-7, 1e-5, -2e-6]) * big
        for _ in range(rng.randint(1, 2)):
            i, j = rng.randrange(6), rng.randrange(6)
            if C[i][j] != 0.0:
                C[i][j] = C[j][i] = C[i][j] * (1 + rng.choice([1e-6, -1e-8, 3e-11, -1e-6]))
        form = 'triclinic'
    inform = sorted(EC_INFORM[form])
    cs = rng.choice(inform) if r < 0.6 else (rng.choice(EC_SYSTEMS) if r < 0.97 else rng.choice(['Monoclinic', 'cubics']))
    w1, w2 = _gen_cfgs(rng)
    return {'kind': 'ec', 'via': rng.choice(['tree', 'json', 'xml']), 'w1': w1, 'w2': w2, 'form': form,
            'kw': kw, 'C': C, 'perturb': perturb,
            'unit': gen_dim_unit(rng, 'pressure') if rng.random() < 0.4 else rng.choice(UNITS['pressure'] + [None]),
            'cs': cs}


def gen_obj(rng):
    """one System object holding one Box object, driven through a sequence of operations: conversions that make
    the box keep its reciprocal vectors, setter calls, Box.model(model=...) reads into the existing object,
    in-place edits of the positions, Box dumps and System dumps with box-scaled positions.  A dump marked `swap`
    is written under the second configuration and read under the first (state kept per object or per module must
    not survive a change of working units)."""
    natoms = rng.randint(1, 4)
    pos = [cm.dyadic(rng, -8, 8, 3) for _ in range(3 * natoms)]
    ops = []
    for _ in range(rng.randint(3, 8)):
        o = rng.choice(['warm', 'warm', 'c2r', 'c2r', 'c2r', 'r2c', 'setv', 'seto', 'bread', 'bread', 'bread',
                        'sysdump', 'sysdump', 'sysdump', 'sysdump', 'setp', 'setp', 'bdump', 'bdump'])
        swap = rng.random() < 0.4
        if o in ('c2r', 'r2c'):
            ops.append({'op': o, 'p': [cm.dyadic(rng, -8, 8, 3) for _ in range(3)]})
        elif o == 'setv':
            ops.append({'op': o, 'm': _gen_box(rng)['vects']})
        elif o == 'seto':
            ops.append({'op': o, 'o': [cm.dyadic(rng, -4, 4, 2) for _ in range(3)]})
        elif o == 'setp':
            ops.append({'op': o, 'at': rng.randrange(3 * natoms), 'v': cm.dyadic(rng, -8, 8, 3)})
        elif o == 'bread':
            ops.append({'op': o, 'via': rng.choice(['tree', 'json', 'xml']), 'unit': _len_unit(rng), 'box': _gen_box(rng),
                        'swap': swap})
        elif o in ('sysdump', 'bdump'):
            ops.append({'op': o, 'via': rng.choice(['tree', 'json', 'xml']), 'unit': _len_unit(rng), 'swap': swap})
        else:
            ops.append({'op': o})
    w1, w2 = _gen_cfgs(rng)
    return {'kind': 'obj', 'via': 'obj', 'w1': w1, 'w2': w2, 'box': _gen_box(rng), 'natoms': natoms, 'pos': pos, 'ops': ops}


def gen_refusal(rng):
    """calls the documentation refuses (the refusal must happen at this call, with this exception class)."""
    natoms = rng.choice([2, 4, 5])      # (not 3: a (3,) array is a single position to the box conversions)
    which = rng.choice(['lists-length', 'lists-length', 'prop_unit+prop_name', 'prop_unit+unit', 'scaled-not-3',
                        'string-with-unit', 'unknown-property', 'model+atoms', 'model+box', 'atoms-model+natoms',
                        'load-key', 'load-index', 'value-unit-shape', 'uc-string-with-unit', 'atoms-lists-length'])
    return {'kind': 'refuse', 'via': rng.choice(['json', 'xml']), 'w1': 'default', 'w2': 'default', 'which': which,
            'natoms': natoms, 'short': rng.randint(1, 2), 'index': rng.randint(1, 4)}


# ----------------------------------------------------------------------------------------
# running a case on the real code
# ----------------------------------------------------------------------------------------
_NPDT = {'f': float, 'i': int, 's': str, 'b': bool}


def _nparr(a, form=None):
    """the array of a spec, handed over in the spec's `form`: C-contiguous, Fortran-ordered, a strided view of a
    larger buffer, read-only, a (nested) python list, or float32 / int32."""
    import numpy as np
    arr = np.array(a['data'], dtype=_NPDT[a['dt']]).reshape(a['shape'])
    form = form or a.get('form', 'c')
    if form == 'fortran' and arr.ndim >= 2:
        arr = np.asfortranarray(arr)
    elif form == 'strided' and arr.ndim >= 1 and arr.size:
        big = np.zeros(arr.shape[:-1] + (2 * arr.shape[-1],), dtype=arr.dtype)
        big[..., ::2] = arr
        big[..., 1::2] = arr[..., ::-1]
        arr = big[..., ::2]
    elif form == 'readonly':
        arr.flags.writeable = False
    elif form == 'list':
        arr = arr.tolist()
    elif form == 'narrow':
        arr = arr.astype({'f': np.float32, 'i': np.int32}.get(a['dt'], arr.dtype))
    return arr


def _mk_box(b):
    import atomman as am
    return am.Box(avect=b['vects'][0], bvect=b['vects'][1], cvect=b['vects'][2], origin=b['origin'])


def _mk_atoms(case):
    """the Atoms object of a case.  Ordinary names go to the constructor as keywords (or, for a case marked
    create = 'view', into the property table one by one); names the classes use themselves (NAMES_CLASS) always go
    through atoms.view[name] = values, in the order of the case."""
    import atomman as am
    kw, later = {}, []
    by_view = case.get('create') == 'view'
    for p in case['props']:
        if p['name'] in ('atype', 'pos') or not (later or by_view or p['name'] in NAMES_CLASS):
            kw[p['name']] = _nparr(p)
        else:
            later.append(p)         # (and everything after it: the order of the table is the order of the case)
    a = am.Atoms(**kw)
    for p in later:
        a.view[p['name']] = _nparr(p)
    return a


def _pnames(a):
    """names of the property table of an Atoms object, in order (= atoms.prop(); read from the table itself so that
    an object whose `prop` method was overwritten can still be described)."""
    return list(a.view.keys())


def _shadowed(a):
    """attributes of the class (methods, properties) that the instance hides behind an instance attribute: a working
    Atoms object has none."""
    try:
        inst = vars(a)
    except TypeError:
        return ['__dict__']
    return sorted(k for k in inst if hasattr(type(a), k))


def _mass_in(m, form):
    import numpy as np
    if m is None or form is None:
        return m
    return {'f32': np.float32, 'i64': lambda x: np.int64(int(x)), 'int': int}[form](m)


def _mk_sys(case):
    import atomman as am
    import numpy as np
    masses = [_mass_in(m, case.get('mass_form')) for m in case['masses']]
    symbols, pbc = case['symbols'], case['pbc']
    cont = case.get('cont', 'list')
    if cont == 'tuple':
        masses, symbols, pbc = tuple(masses), tuple(symbols), tuple(pbc)
    elif cont == 'ints':
        pbc = [int(b) for b in pbc]
    elif cont == 'ndarray':
        pbc = np.array(pbc)
        if masses and None not in masses:
            masses = np.array(masses)
        if symbols and None not in symbols:
            symbols = np.array(symbols)
    return am.System(atoms=_mk_atoms(case), box=_mk_box(case['box']), pbc=pbc,
                     symbols=symbols if len(symbols) else None,
                     masses=masses if len(masses) else None)


def _mk_ec(case):
    import atomman as am
    import numpy as np
    if case.get('kw') is not None:
        return am.ElasticConstants(**case['kw'])
    return am.ElasticConstants(Cij=np.array(case['C']))


def eff_unit(name, unit):
    return 'angstrom' if (name == 'pos' and unit is None) else unit


def _units_of(case):
    k = case['kind']
    if k == 'refuse':
        return []
    if k == 'obj':
        return [op['unit'] for op in case['ops'] if 'unit' in op]
    if k in ('uc', 'box', 'ec'):
        return [case['unit']]
    if case.get('sel') is not None:
        return [eff_unit(e['name'], e['unit']) for e in case['sel']] + ([case['box_unit']] if k == 'sys' else [])
    us = [eff_unit(p['name'], p['unit']) for p in case['props']]
    if k == 'sys':
        us.append(case['box_unit'])
    return us


# ---- unit expressions: an evaluator that shares nothing with uc.parse ------------------------------------
#   expr    := power (('*' | '/') power)*        left to right, '*' and '/' of equal precedence
#   power   := primary ('^' number)?             binds tighter than '*' '/'
#   primary := NAME | number | '(' expr ')'
_TOK = re.compile(r'\s*(?:([^\W\d]\w*)|(-?(?:[0-9]+\.?[0-9]*|\.[0-9]+))|([*/^()]))')


def unit_ast(u):
    """abstract syntax of a unit expression with the standard precedence (see grammar above)."""
    toks, i = [], 0
    u = u.rstrip()
    while i < len(u):
        m = _TOK.match(u, i)
        if m is None:
            raise ValueError(f'unit expression outside the harness grammar: {u!r}')
        toks.append(('name', m.group(1)) if m.group(1) else ('num', m.group(2)) if m.group(2) else ('op', m.group(3)))
        i = m.end()
    pos = [0]

    def peek():
        return toks[pos[0]] if pos[0] < len(toks) else (None, None)

    def primary():
        k, v = peek()
        pos[0] += 1
        if k == 'name':
            return ('name', v)
        if k == 'num':
            return ('num', float(v))
        if (k, v) == ('op', '('):
            e = expr()
            if peek() != ('op', ')'):
                raise ValueError(f'unbalanced parentheses in {u!r}')
            pos[0] += 1
            return e
        raise ValueError(f'unit expression outside the harness grammar: {u!r}')

    def power():
        b = primary()
        if peek() == ('op', '^'):
            pos[0] += 1
            k, v = peek()
            if k != 'num':
                raise ValueError(f'exponent is not a number in {u!r}')
            pos[0] += 1
            return ('pow', b, float(v))
        return b

    def expr():
        e = power()
        while peek() in (('op', '*'), ('op', '/')):
            op = peek()[1]
            pos[0] += 1
            e = ('mul' if op == '*' else 'div', e, power())
        return e

    e = expr()
    if pos[0] != len(toks):
        raise ValueError(f'unit expression outside the harness grammar: {u!r}')
    return e


def eval_ast(e, env):
    """(value, relative rounding bound in units of 2^-53) of the expression over `env(name)`."""
    k = e[0]
    if k == 'name':
        return float(env(e[1])), NAME_ULPS
    if k == 'num':
        return e[1], 0.0
    if k == 'pow':
        b, eb = eval_ast(e[1], env)
        return b ** e[2], abs(e[2]) * eb + 2.0
    a, ea = eval_ast(e[1], env)
    b, eb = eval_ast(e[2], env)
    return (a * b if k == 'mul' else a / b), ea + eb + 1.0


def _live(name):
    """value of a unit name under the *current* working units (those set_cfg set last), from the harness's own table
    and the base factors of the configuration - never from uc.unit / numericalunits' derived units."""
    return own_name(unicodedata.normalize('NFC', name), _BASE['now'])


def own_factor(u):
    """factor of the unit expression `u` under the *current* working units, evaluated here with the standard
    precedence over the harness's own unit table (SI value and dimension of every name; base factors from the SI
    values of the chosen working units, own_base) - independent of uc.parse, uc.unit and of what uc.reset_units left
    in numericalunits, so neither a stale or cached factor, nor a parser that orders the operators differently, nor a
    unit table whose entries do not belong to one system of working units can hide behind the harness measuring
    factors with the same functions."""
    return eval_ast(unit_ast(u), _live)[0]


def unit_ulps(u):
    """bound (in units of 2^-53, relative) on the difference between two correctly rounded evaluations of `u`
    that associate the operators differently."""
    if u is None or u == 'scaled':
        return 0.0
    return eval_ast(unit_ast(u), lambda n: 1.0)[1]


# ---- generation of compound unit expressions -----------------------------------------------------------------
UNIT_NAMES = ['angstrom', 'nm', 'm', 'cm', 'pm', 'GPa', 'MPa', 'bar', 'eV', 'J', 'mJ', 'mol', 'nN', 'e', 'C',
              'amu', 'g', 'kg', 'ps', 's', 'fs', 'ns', 'K', 'Å', 'N', 'Pa', 'A', 'V', 'THz', 'm', 'kg', 's']
_SNAP = {}


def _snapshots():
    """name -> value tables of every fixed keyword configuration (only to keep generated factors in a sane range)."""
    if not _SNAP:
        for c in CONFIGS:
            tab = _cfg_table(c)
            if tab is not None:
                _SNAP[c] = tab
    return _SNAP


def _sane(u):
    for tab in _snapshots().values():
        try:
            v = eval_ast(unit_ast(u), tab.__getitem__)[0]
        except (OverflowError, ZeroDivisionError):
            return False
        if isinstance(v, complex) or not (1e-90 < abs(v) < 1e90):
            return False
    return True


def _sp(rng):
    return ' ' if rng.random() < 0.12 else ''


def _g_primary(rng, depth, names):
    r = rng.random()
    if depth > 0 and r < 0.22:
        return '(' + _g_expr(rng, depth - 1, names) + ')'
    if r < 0.28:
        return rng.choice(['2', '0.5', '10', '1000'])
    return rng.choice(names)


def _g_power(rng, depth, names):
    p = _g_primary(rng, depth, names)
    if rng.random() < 0.3:
        p += '^' + rng.choice(['2', '3', '-1', '-2', '0.5', '1'])
    return p


def _g_expr(rng, depth, names):
    s = _g_power(rng, depth, names)
    for _ in range(rng.choice([0, 1, 1, 2, 2, 3]) if depth < 2 else rng.choice([1, 2, 2, 3, 3, 4])):
        a, b = _sp(rng), _sp(rng)
        s += a + rng.choice('*/') + b + _g_power(rng, depth, names)
    return s


def gen_unit_expr(rng):
    """a random compound unit expression: every order of '*' and '/', parentheses, powers, number literals."""
    for _ in range(50):
        u = _g_expr(rng, 2, UNIT_NAMES)
        if re.search(r'[A-Za-z]', u) and _sane(u):
            return u
    return 'eV/angstrom^3*ps'


def gen_dim_unit(rng, dim):
    """a compound expression of the given dimension ('length' or 'pressure') built from templates in which a
    cancelling factor X appears on either side of the base unit, in every operator order."""
    L = lambda: rng.choice(UNITS['length'])   # noqa: E731
    # (the cancelling factor: prefixed / derived units and the literal SI base units m, kg, s, C, K)
    X = lambda: rng.choice(['ps', 'fs', 'eV', 'amu', 'GPa', 'e', 'nm', 'J', 's', 's', 'kg', 'm', 'C', 'K'])   # noqa: E731
    for _ in range(50):
        x = X()
        if dim == 'length':
            l1, l2 = L(), L()
            u = rng.choice(['{l1}', '{l1}/{x}*{x}', '{x}*{l1}/{x}', '{l1}*{x}/{x}', '{x}/({x}/{l1})', '{l1}^3/{l2}^2',
                            '({l1}*{x})/{x}', '{l1}^2/{l2}', '1/{l1}^-1', '{l1}/{l2}*{l2}', '2*{l1}/2',
                            '{l1}/{x}^2*{x}*{x}', 'eV/GPa/{l1}^2', '(eV/GPa)^0.5/{l1}^0.5', '{l1}/({x}*{x})*{x}^2',
                            '{l1}/s*s', '{l1}*s^-1*s', 'J/N*{l1}/m',
                            '(J*s^2/kg)^0.5*{l1}/m', 'kg*{l1}/kg'])
            u = u.format(l1=l1, l2=l2, x=x, t=rng.choice(['s', 'ps', 'fs', 'ns']))
        else:
            p, l1, l2, l3 = rng.choice(UNITS['pressure'][:1] + ['MPa', 'bar']), L(), L(), L()
            u = rng.choice(['{p}', 'eV/{l1}^3', 'nN/{l1}^2', 'nN/{l1}/{l2}', '{p}/{x}*{x}', 'J/{l1}^2/{l2}',
                            'eV/({l1}*{l2}*{l3})', 'eV/{l1}^3*{x}/{x}', '{x}*{p}/{x}', 'J/m^3*{l1}/{l2}',
                            '({p})', '{p}*({x}/{x})', 'nN*{l1}/{l2}^3', 'eV/{l1}^2*{l2}^-1',
                            'kg/({l1}*s^2)', 'kg/{l1}/s^2', 'kg*m/s^2/{l1}^2', 'N/{l1}/{l2}', 'g/({l1}*ps^2)',
                            'amu/{l1}/fs^2', 'kg*{l1}^-1*s^-2', 'J/{l1}^3', 'C*V/{l1}^3'])
            u = u.format(p=p, l1=l1, l2=l2, l3=l3, x=x)
        if rng.random() < 0.1:
            u = u.replace('*', ' * ').replace('/', ' / ')
        if _sane(u):
            return u
    return 'angstrom' if dim == 'length' else 'GPa'


def _factors(case):
    out = {}
    for u in _units_of(case):
        if u is not None and u != 'scaled':
            out[u] = own_factor(u)
    return out


def _to_text(model, via, wrap):
    from DataModelDict import DataModelDict as DM
    if via == 'tree':
        return model
    m = DM([('x', model)]) if wrap else model
    return m.json() if via == 'json' else m.xml()


def _reparse(text, wrap):
    from DataModelDict import DataModelDict as DM
    t = DM(text)
    return t['x'] if wrap else t


class RealRun:
    """What the real code produced for one case: written tree, tree after the text codec, read-back."""
    def __init__(self):
        self.tree = None
        self.via_tree = None
        self.read = None
        self.write_error = None
        self.text_error = None
        self.read_error = None
        self.fW = {}
        self.fR = {}
        self.extra = {}
        self.side = []          # (key, message): side effects / aliasing observed around the calls
        self.again = None       # (case2, RealRun) of the second dump of the same object


def _box_out(box):
    return {'box': {'avect': box.avect.tolist(), 'bvect': box.bvect.tolist(), 'cvect': box.cvect.tolist(),
                    'origin': box.origin.tolist()}}


def _bits(a):
    """bitwise snapshot of an array-like (dtype, shape, bytes / items)."""
    import numpy as np
    a = np.asarray(a)
    return (str(a.dtype), a.shape, a.tobytes() if a.dtype.kind != 'O' else tuple(a.flatten().tolist()))


def _snap_box(b):
    return (_bits(b.vects), _bits(b.origin))


def _snap_atoms(a):
    return (a.natoms, tuple((k, _bits(a.view[k])) for k in _pnames(a)))


def _snap_sys(s):
    return (_snap_box(s.box), _snap_atoms(s.atoms), _bits(s.pbc), tuple(s.symbols), tuple(s.masses))


def _tree_text(t):
    """the content of a DataModelDict tree as text (for before / after comparisons)."""
    return json.dumps(t, default=str)


def _scribble_tree(t):
    """overwrite everything reachable in a returned tree (lists in place)."""
    if isinstance(t, dict):
        for k in list(t.keys()):
            if isinstance(t[k], (dict, list)):
                _scribble_tree(t[k])
            else:
                t[k] = 'scribbled'
    elif isinstance(t, list):
        for i in range(len(t)):
            if isinstance(t[i], (dict, list)):
                _scribble_tree(t[i])
            else:
                t[i] = 977
        t.append('scribbled')


def _scribble_sys(s):
    """use a System that was read as a caller would: move atoms, change the cell (in place where possible)."""
    for k in _pnames(s.atoms):
        a = s.atoms.view[k]
        if a.flags.writeable and a.dtype.kind in 'fiu' and k != 'atype':
            a[...] = 99
    try:
        s.box.vects = [[10.5, 0, 0], [0, 11.5, 0], [0, 0, 12.5]]
        s.box.origin = [7, 7, 7]
        s.pbc[...] = [False, True, False]
    except Exception:  # noqa
        pass


def _scribble_atoms(a):
    for k in _pnames(a):
        v = a.view[k]
        if v.flags.writeable and v.dtype.kind in 'fiu' and k != 'atype':
            v[...] = 99


def _run_obj(case, r) -> RealRun:
    """an object session on the real code.  r.extra['outs'][i] is what operation i returned ({'error': ...} when
    it raised: the session stops there), r.extra['facs'][i] the harness-evaluated unit factors (write, read)."""
    import atomman as am
    import numpy as np
    n = case['natoms']
    set_cfg(case['w1'])
    outs, facs = [], []
    r.extra['outs'], r.extra['facs'] = outs, facs
    try:
        system = am.System(atoms=am.Atoms(pos=np.array(case['pos'], dtype=float).reshape(n, 3)), box=_mk_box(case['box']))
    except Exception as e:  # noqa
        r.write_error = f'{type(e).__name__}: {e}'
        return r
    for op in case['ops']:
        o, u = op['op'], op.get('unit')
        wa, wb = (case['w2'], case['w1']) if op.get('swap') else (case['w1'], case['w2'])
        fac = (1.0, 1.0)
        if u is not None:
            set_cfg(wa)
            fw = own_factor(u)
            set_cfg(wb)
            fac = (fw, own_factor(u))
        facs.append(fac)
        box = system.box
        try:
            if o == 'warm':
                out = {'recip': box.reciprocal_vects.tolist()}
            elif o == 'c2r':
                out = {'rel': box.position_cartesian_to_relative(np.array(op['p'])).tolist()}
            elif o == 'r2c':
                out = {'cart': box.position_relative_to_cartesian(np.array(op['p'])).tolist()}
            elif o == 'setv':
                box.vects = op['m']
                out = _box_out(box)
            elif o == 'seto':
                box.origin = op['o']
                out = _box_out(box)
            elif o == 'setp':
                system.atoms.pos[op['at'] // 3, op['at'] % 3] = op['v']        # in place, through the live array
                out = {'pos': system.atoms.pos.flatten().tolist()}
            elif o == 'bread':
                set_cfg(wa)
                text = _to_text(_mk_box(op['box']).model(length_unit=u), op['via'], False)
                set_cfg(wb)
                box.model(model=text)           # read into the existing object
                out = _box_out(box)
            elif o == 'bdump':
                set_cfg(wa)
                text = _to_text(box.model(length_unit=u), op['via'], False)
                set_cfg(wb)
                out = _box_out(am.Box(model=text))
            else:
                set_cfg(wa)
                kw = dict(box_unit=u, prop_unit={'atype': None, 'pos': 'scaled'})
                text = system.model(**kw) if op['via'] == 'tree' else system.dump('system_model', format=op['via'], **kw)
                set_cfg(wb)
                out = {'read': am.System(model=text) if op['via'] == 'tree' else am.load('system_model', text)}
            outs.append(out)
        except Exception as e:  # noqa
            outs.append({'error': f'{type(e).__name__}: {e}'})
            break
    return r


def _edit_in_place(atoms, case):
    """the in-place edits of case['again'] through the arrays the object hands out."""
    import numpy as np
    k = 2.0 ** case.get('scale', 0)
    dts = {p['name']: p['dt'] for p in case['props']}
    for e in case['again']['edits']:
        a = atoms.view[e['name']]
        a[np.unravel_index(e['at'], a.shape)] = e['value'] * k if dts[e['name']] == 'f' else e['value']


def _prop_kw(case, r=None):
    """keyword arguments that select the properties / units of a System or Atoms model call, in the call form of the
    case: prop_unit dictionary, prop_name + unit lists, the unit list alone (object's own property order), the
    prop_name list alone (no units), nothing."""
    chosen = case['sel'] if case.get('sel') is not None else case['props']
    names = [p['name'] for p in chosen]
    units = [p['unit'] for p in chosen]
    call = case.get('call', 'prop_unit')
    if case.get('sel') is not None and call in ('default', 'units'):
        call = 'prop_unit'
    if call in ('default', 'names') and not all(u is None for u in units):
        call = 'prop_unit'
    form = case.get('argform', 'list')

    def seq(x, obj=False):
        if form == 'tuple':
            return tuple(x)
        if form == 'ndarray':
            import numpy as np
            return np.array(x, dtype=object) if obj else np.array(x)
        return list(x)
    if call == 'default':
        return {}
    if call == 'names':
        return dict(prop_name=seq(names))
    if call == 'units':
        return dict(unit=seq(units, True))
    if call == 'lists':
        return dict(prop_name=seq(names), unit=seq(units, True))
    if form == 'odict':
        from collections import OrderedDict
        return dict(prop_unit=OrderedDict(zip(names, units)))
    return dict(prop_unit=dict(zip(names, units)))


def _model_call(obj, case, kw, **first):
    """obj.model(...) with the arguments by keyword or, for a case marked `positional`, in the documented positional
    order: System.model(box_unit, prop_name, unit, prop_unit), Atoms.model(prop_name, unit, prop_unit)."""
    if not case.get('positional'):
        return obj.model(**first, **kw)
    return obj.model(*first.values(), kw.get('prop_name'), kw.get('unit'), kw.get('prop_unit'))


def _kw_copy(kw):
    import copy
    return {k: copy.copy(v) for k, v in kw.items()}


def _kw_same(a, b):
    """the arguments are what they were (same containers, same entries in the same order)."""
    if list(a) != list(b):
        return False
    for k in a:
        if type(a[k]) is not type(b[k]) or list(a[k].items() if isinstance(a[k], dict) else a[k]) != \
                list(b[k].items() if isinstance(b[k], dict) else b[k]):
            return False
    return True


def _sys_roundtrip(case, s, r, path=None):
    """one dump of the System object `s` under w1 and one read under w2, with the checks around the calls: the
    object and the arguments are not modified by writing, two writes agree and share nothing, reading does not
    modify the tree, two reads give independent objects."""
    import atomman as am
    import os
    import io as _io
    import tempfile
    from DataModelDict import DataModelDict as DM
    via = case['via']
    set_cfg(case['w1'])
    r.fW = _factors(case)
    try:
        r.extra['symbols'] = list(s.symbols)
        r.extra['masses'] = list(s.masses)
        r.extra['cell'] = s.box.vects.flatten().tolist() + s.box.origin.tolist()
        before = _snap_sys(s)
        fmtkw = _prop_kw(case, r)
        kw0 = _kw_copy(fmtkw)
        if via == 'tree':
            first = _model_call(s, case, fmtkw, box_unit=case['box_unit'])
            kept = _tree_text(first)
            _scribble_tree(first)                   # a returned tree belongs to the caller
            model = _model_call(s, case, fmtkw, box_unit=case['box_unit'])
            if _tree_text(model) != kept:
                r.side.append(('write-twice', 'System.model() called twice (the first tree overwritten by the caller in '
                               'between) returns different trees'))
        else:
            model = s.dump('system_model', box_unit=case['box_unit'], **fmtkw)
        if not _kw_same(fmtkw, kw0):
            r.side.append(('arguments-modified', f'System.model / dump changed the arguments it was given: {kw0} -> {fmtkw}'))
            fmtkw = _kw_copy(kw0)
        if _snap_sys(s) != before:
            r.side.append(('write-modifies-object', 'System.model / dump changed the System object (bitwise comparison of '
                           'cell, origin, pbc, symbols, masses and every per-atom property before / after)'))
    except Exception as e:  # noqa
        r.write_error = f'{type(e).__name__}: {e}'
        return
    r.tree = model
    # the format name in the spelling of the case ('json', 'JSON', 'Xml', ...) and an optional indentation
    fmt = {'upper': via.upper(), 'title': via.title()}.get(case.get('fmtcase'), via)
    if case.get('indent') is not None:
        fmtkw = dict(fmtkw, indent=case['indent'])
    io = case.get('io', 'str')
    try:
        text = None
        if via == 'tree':
            text = model
        elif io in ('path', 'fileobj'):
            # dump(f=...) : format taken from the file extension (path) or given (file object)
            if path is None:
                fd, path = tempfile.mkstemp(suffix='.' + (fmt if io == 'path' else via), prefix='c10_')
                os.close(fd)
                if case.get('prefill'):
                    # the file exists and is longer than the new content
                    with open(path, 'w', encoding='UTF-8') as fp:
                        fp.write(am.System(atoms=am.Atoms(atype=[1] * 40, pos=[[0.5, 0.25, 0.125]] * 40),
                                           symbols=['Zr']).dump('system_model', format=via, indent=2) + '\n' * 50)
            r.extra['path'] = path
            if io == 'path':
                s.dump('system_model', f=path, box_unit=case['box_unit'], **fmtkw)   # format from the extension
            else:
                with open(path, 'w', encoding='UTF-8') as fp:
                    s.dump('system_model', f=fp, format=fmt, box_unit=case['box_unit'], **fmtkw)
            with open(path, encoding='UTF-8') as fp:
                text = fp.read()
        elif io == 'stringio':
            fp = _io.StringIO()
            s.dump('system_model', f=fp, format=fmt, box_unit=case['box_unit'], **fmtkw)
            text = fp.getvalue()
        elif io == 'tmpfile':
            with tempfile.NamedTemporaryFile('w+', suffix='.' + via, encoding='UTF-8') as fp:
                s.dump('system_model', f=fp, format=fmt, box_unit=case['box_unit'], **fmtkw)
                fp.flush()
                fp.seek(0)
                text = fp.read()
        else:
            text = s.dump('system_model', format=fmt, box_unit=case['box_unit'], **fmtkw)
            if s.dump('system_model', format=fmt, box_unit=case['box_unit'], **fmtkw) != text:
                r.side.append(('write-twice', 'System.dump called twice returns different text'))
        r.extra['text'] = text if isinstance(text, str) else None
        if _snap_sys(s) != before:
            r.side.append(('write-modifies-object', 'System.dump changed the System object (bitwise comparison before / after)'))
    except Exception as e:  # noqa
        r.text_error = f'{type(e).__name__}: {e}'
        return
    set_cfg(case['w2'])
    r.fR = _factors(case)
    ov = case.get('override') or {}
    try:
        if via != 'tree':
            r.via_tree = _reparse(text, False)

        def read_once():
            if via == 'tree':
                if 'symbols' in ov and case['natoms'] % 2 == 0:
                    return am.load('system_model', text, **ov)       # load takes a tree too
                return am.System(model=text, **ov)
            if 'pbc' in ov or 'masses' in ov:
                return am.System(model=text, **ov)
            if io == 'path':
                return am.load('system_model', r.extra['path'], **ov)
            if io == 'fileobj':
                with open(r.extra['path'], 'rb') as fp:      # DataModelDict wants file objects in bytes mode
                    one = am.load('system_model', fp, **ov)
                    fp.seek(0)                               # the same stream handed over a second time
                    _scribble_sys(one)
                    return am.load('system_model', fp, **ov)
            rec = case.get('record')
            if rec is None:
                return am.load('system_model', text, **ov)
            # the written system sits at position `index` among entries with the key `key`; the other
            # entries are a different (default) system
            decoy = am.System().model()['atomic-system']
            mine = DM(text)['atomic-system']
            if rec.get('deep'):
                # entries with the key at different depths (document order = index): `index` decoys first, the
                # written system `deep` levels further in
                inner = DM([(rec['key'], mine)])
                for lvl in range(rec['deep']):
                    inner = DM([('id', 'level-%d' % lvl), ('stage', inner)])
                record = DM([('calculation', DM([('id', 'c10')] + [('run-%d' % i, DM([(rec['key'], decoy)]))
                                                                      for i in range(rec['index'])] + [('final', inner)]))])
                rtext = record.json() if via == 'json' else record.xml()
                if rec['index'] == 0 and case['natoms'] % 2 == 0 and not ov:
                    return am.System(model=rtext)       # the constructor finds the (only) system wherever it sits
                return am.load('system_model', rtext, key=rec['key'], index=rec['index'], **ov)
            entries = [decoy] * rec['index'] + [mine] + [decoy]
            record = DM([('calculation', DM([('id', 'c10'), (rec['key'], entries)]))])
            rtext = record.json() if via == 'json' else record.xml()
            return am.load('system_model', rtext, key=rec['key'], index=rec['index'], **ov)

        kept = _tree_text(text) if via == 'tree' else None
        one = read_once()
        _scribble_sys(one)                      # what was read belongs to the caller
        if via == 'tree' and _tree_text(text) != kept:
            r.side.append(('read-modifies-tree', 'System(model=tree) / load changed the tree it was given (or what it '
                           'returned shares memory with it)'))
            r.extra['tree_after_read'] = _tree_text(text)
        r.read = read_once()                    # a second, independent read of the same content
    except Exception as e:  # noqa
        r.read_error = f'{type(e).__name__}: {e}'


def _run_sys(case, r):
    set_cfg(case['w1'])
    try:
        s = _mk_sys(case)
    except Exception as e:  # noqa
        r.write_error = f'{type(e).__name__}: {e}'
        return r
    _sys_roundtrip(case, s, r)
    if case.get('again') is not None and not (r.write_error or r.text_error or r.read_error):
        case2, r2 = apply_again(case), RealRun()
        r.again = (case2, r2)
        try:
            _edit_in_place(s.atoms, case)
            if 'setv' in case['again']:
                s.box.vects = case2['box']['vects']
        except Exception as e:  # noqa
            r2.write_error = f'in-place edit raised {type(e).__name__}: {e}'
            return r
        _sys_roundtrip(case2, s, r2, path=r.extra.get('path'))      # a file that was written and loaded before
    return r


def _atoms_roundtrip(case, a, r):
    import atomman as am
    via = case['via']
    set_cfg(case['w1'])
    r.fW = _factors(case)
    try:
        before = _snap_atoms(a)
        pu = _prop_kw(case)
        pu0 = _kw_copy(pu)
        first = _model_call(a, case, pu)
        kept = _tree_text(first)
        _scribble_tree(first)
        model = _model_call(a, case, _kw_copy(pu0))
        if _tree_text(model) != kept:
            r.side.append(('write-twice', 'Atoms.model() called twice (the first tree overwritten by the caller in between) '
                           'returns different trees'))
        if not _kw_same(pu, pu0):
            r.side.append(('arguments-modified', f'Atoms.model changed the arguments it was given: {pu0} -> {pu}'))
        if _snap_atoms(a) != before:
            r.side.append(('write-modifies-object', 'Atoms.model changed the Atoms object (bitwise comparison of every '
                           'property before / after)'))
    except Exception as e:  # noqa
        r.write_error = f'{type(e).__name__}: {e}'
        return
    r.tree = model
    try:
        text = _to_text(model, via, False)
        r.extra['text'] = text if isinstance(text, str) else None
    except Exception as e:  # noqa
        r.text_error = f'{type(e).__name__}: {e}'
        return
    set_cfg(case['w2'])
    r.fR = _factors(case)
    try:
        if via != 'tree':
            r.via_tree = _reparse(text, False)
        kept = _tree_text(text) if via == 'tree' else None
        one = am.Atoms(model=text)
        _scribble_atoms(one)
        if via == 'tree' and _tree_text(text) != kept:
            r.side.append(('read-modifies-tree', 'Atoms(model=tree) changed the tree it was given (or what it returned '
                           'shares memory with it)'))
        r.read = am.Atoms(model=text)
    except Exception as e:  # noqa
        r.read_error = f'{type(e).__name__}: {e}'


def _run_atoms(case, r):
    set_cfg(case['w1'])
    try:
        a = _mk_atoms(case)
    except Exception as e:  # noqa
        r.write_error = f'{type(e).__name__}: {e}'
        return r
    _atoms_roundtrip(case, a, r)
    if case.get('again') is not None and not (r.write_error or r.text_error or r.read_error):
        case2, r2 = apply_again(case), RealRun()
        r.again = (case2, r2)
        try:
            _edit_in_place(a, case)
        except Exception as e:  # noqa
            r2.write_error = f'in-place edit raised {type(e).__name__}: {e}'
            return r
        _atoms_roundtrip(case2, a, r2)
    return r


def _run_refusal(case, r):
    """r.extra['raised'] = class name of what the refused call raised (None: it returned), r.extra['expect']."""
    import atomman as am
    import numpy as np
    from DataModelDict import DataModelDict as DM
    uc = _uc()
    set_cfg('default')
    n, w = case['natoms'], case['which']
    s = am.System(atoms=am.Atoms(atype=[1] * n, pos=np.arange(3.0 * n).reshape(n, 3) / 4, charge=np.arange(float(n)),
                                 lab=np.array(['w%d' % i for i in range(n)])), symbols=['Al'])
    text = s.dump('system_model', format=case['via'])
    names = ['atype', 'pos', 'charge']
    calls = {
        'lists-length': (ValueError, lambda: s.dump('system_model', format=case['via'], prop_name=names,
                                                    unit=[None, 'nm', 'e'][:case['short']])),
        'atoms-lists-length': (ValueError, lambda: s.atoms.model(prop_name=names, unit=[None, 'nm', 'e', 'e', None][:3 + case['short']])),
        'prop_unit+prop_name': (ValueError, lambda: s.model(prop_unit={'atype': None}, prop_name=['atype'])),
        'prop_unit+unit': (ValueError, lambda: s.atoms.model(prop_unit={'atype': None}, unit=[None])),
        'scaled-not-3': (ValueError, lambda: s.model(prop_unit={'atype': None, 'charge': 'scaled'})),
        'string-with-unit': (TypeError, lambda: s.model(prop_unit={'lab': 'nm'})),
        'unknown-property': (KeyError, lambda: s.model(prop_unit={'atype': None, 'nope': None})),
        'model+atoms': (ValueError, lambda: am.System(model=text, atoms=am.Atoms())),
        'model+box': (ValueError, lambda: am.System(model=text, box=am.Box())),
        'atoms-model+natoms': (ValueError, lambda: am.Atoms(model=text, natoms=n)),
        'load-key': (KeyError, lambda: am.load('system_model', text, key='final-system')),
        'load-index': (IndexError, lambda: am.load('system_model', text, index=case['index'])),
        'value-unit-shape': (ValueError, lambda: uc.value_unit(DM([('value', list(range(n + 3))), ('shape', [n, 2])]))),
        'uc-string-with-unit': (TypeError, lambda: uc.model(np.array(['a', 'b']), 'nm')),
    }
    exc, call = calls[w]
    r.extra['expect'] = exc.__name__
    try:
        out = call()
        r.extra['raised'] = None
        r.extra['returned'] = str(out)[:300]
    except Exception as e:  # noqa
        r.extra['raised'] = type(e).__name__
        r.extra['ok'] = isinstance(e, exc)
        r.extra['message'] = str(e)[:200]
    return r


def _run_real(case, r) -> RealRun:
    """write under configuration w1, encode, read under w2.  Leaves w2 active: callers restore."""
    if case['kind'] == 'obj':
        return _run_obj(case, r)
    if case['kind'] == 'sys':
        return _run_sys(case, r)
    if case['kind'] == 'atoms':
        return _run_atoms(case, r)
    if case['kind'] == 'refuse':
        return _run_refusal(case, r)
    import atomman as am
    import numpy as np
    uc = _uc()
    k, via = case['kind'], case['via']
    set_cfg(case['w1'])
    r.fW = _factors(case)
    wrap = k == 'uc'
    try:
        if k == 'uc':
            form = {'python': 'list', 'fview': 'fortran', 'ndarray': 'c'}.get(case.get('form'), None)   # (older replay files)
            value = _nparr(case['arr'], form)
            keep = _bits(value)
            first = uc.model(value, case['unit'])
            kept = _tree_text(first)
            _scribble_tree(first)
            model = uc.model(value, case['unit'])
            if _tree_text(model) != kept:
                r.side.append(('write-twice', 'uc.model called twice on the same value (the first tree overwritten by the '
                               'caller in between) returns different trees'))
            if case.get('err') is not None:
                err = _nparr({'dt': 'f', 'shape': case['arr']['shape'], 'data': case['err']}, case.get('err_form', form))
                keep_e = _bits(err)
                r.extra['emodel'] = uc.model(value, case['unit'], error=err)
                if _bits(err) != keep_e:
                    r.side.append(('input-modified', 'uc.model(value, unit, error=e) changed the array e it was given'))
            if _bits(value) != keep:
                r.side.append(('input-modified', 'uc.model changed the value it was given'))
        elif k == 'box':
            box = _mk_box(case['box'])
            r.extra['cell'] = box.vects.flatten().tolist() + box.origin.tolist()
            before = _snap_box(box)
            first = box.model(length_unit=case['unit'])
            kept = _tree_text(first)
            _scribble_tree(first)
            model = box.model(length_unit=case['unit'])
            if _tree_text(model) != kept:
                r.side.append(('write-twice', 'Box.model() called twice (the first tree overwritten by the caller in between) '
                               'returns different trees'))
            if _snap_box(box) != before:
                r.side.append(('write-modifies-object', 'Box.model changed the Box object'))
        else:
            ec = _mk_ec(case)
            r.extra['C'] = ec.Cij.flatten().tolist()
            try:        # Hill estimates (need the inverse 6x6 array): parameters of the model's 'isotropic' branch
                r.extra['muK'] = (float(ec.shear()), float(ec.bulk()))
            except Exception:  # noqa
                r.extra['muK'] = None
            model = ec.model(unit=case['unit'], crystal_system=case['cs'])
            if ec.Cij.flatten().tolist() != r.extra['C']:
                r.side.append(('write-modifies-object', 'ElasticConstants.model changed the object'))
    except Exception as e:  # noqa
        r.write_error = f'{type(e).__name__}: {e}'
        return r
    r.tree = model
    try:
        text = _to_text(model, via, wrap)
        r.extra['text'] = text if isinstance(text, str) else None
    except Exception as e:  # noqa
        r.text_error = f'{type(e).__name__}: {e}'
        return r
    set_cfg(case['w2'])
    r.fR = _factors(case)
    try:
        if via != 'tree':
            r.via_tree = _reparse(text, wrap)
        kept = _tree_text(text) if via == 'tree' else None
        if k == 'uc':
            one = uc.value_unit(text if via == 'tree' else r.via_tree)
            if isinstance(one, np.ndarray) and one.ndim and one.flags.writeable and one.dtype.kind in 'fiu':
                one[...] = 99
            r.read = uc.value_unit(text if via == 'tree' else r.via_tree)
            if 'emodel' in r.extra:
                try:
                    et = r.extra['emodel'] if via == 'tree' else _reparse(_to_text(r.extra['emodel'], via, True), True)
                    r.extra['evia'] = None if via == 'tree' else et
                    r.extra['eread'] = (uc.value_unit(et), uc.error_unit(et))
                except Exception as e:  # noqa
                    r.extra['eread_error'] = f'{type(e).__name__}: {e}'
        elif k == 'box':
            one = am.Box(model=text)
            one.vects = [[10.5, 0, 0], [0, 11.5, 0], [0, 0, 12.5]]
            r.read = am.Box(model=text)
            # the same Box object written again under the reading configuration, read under the writing one
            try:
                t2 = _to_text(box.model(length_unit=case['unit']), via, False)
                set_cfg(case['w1'])
                r.extra['swapped'] = am.Box(model=t2)
                set_cfg(case['w2'])
            except Exception as e:  # noqa
                r.extra['swapped_error'] = f'{type(e).__name__}: {e}'
        else:
            r.read = am.ElasticConstants(model=text)
            # the same model read into an *existing* object that was used before (compliances, 3x3x3x3 form)
            try:
                old = am.ElasticConstants(C11=3.0, C12=1.0, C44=0.5)
                old.Sij, old.Cijkl      # noqa: B018
                old.model(model=text)
                r.extra['existing'] = (old.Cij.flatten().tolist(), old.Sij.flatten().tolist())
                r.extra['fresh_S'] = r.read.Sij.flatten().tolist()
            except Exception as e:  # noqa
                r.extra['existing_error'] = f'{type(e).__name__}: {e}'
            # second generation: what was read is in the normal form of `cs`, so storing it again the same way
            # (under the reading configuration) must reproduce it
            try:
                m2 = r.read.model(unit=case['unit'], crystal_system=case['cs'])
                r.extra['read2'] = am.ElasticConstants(model=_to_text(m2, via, False)).Cij.flatten().tolist()
            except Exception as e:  # noqa
                r.extra['read2_error'] = f'{type(e).__name__}: {e}'
        if via == 'tree' and _tree_text(text) != kept:
            r.side.append(('read-modifies-tree', 'reading changed the tree it was given (or what it returned shares '
                           'memory with it)'))
    except Exception as e:  # noqa
        r.read_error = f'{type(e).__name__}: {e}'
    return r


def run_real(case) -> RealRun:
    r = RealRun()
    try:
        return _run_real(case, r)
    finally:
        if 'path' in r.extra:
            import os
            try:
                os.unlink(r.extra['path'])
            except OSError:
                pass


def generations(case, r):
    """(case, run) of the dump(s) of one object: the first, and the second after in-place edits if there was one."""
    yield case, r
    if r.again is not None:
        yield r.again


# ----------------------------------------------------------------------------------------
# request line for the Lean driver
# ----------------------------------------------------------------------------------------
SPACE = '%'       # a blank inside a unit expression, on the request line (decoded by the driver)
_PLAIN = re.compile(r'^[A-Za-z0-9_.+-]*[A-Za-z_][A-Za-z0-9_.+-]*$')


def wire(sv):
    """a string (per-atom value, property name, symbol) as one token of the request line: the model treats strings
    as opaque, so anything that is not a plain word travels as '=' + hex of its UTF-8 bytes (decoded again when
    the reply is compared)."""
    sv = str(sv)
    if _PLAIN.match(sv) and sv not in ('sel', 'err', '-'):
        return sv
    return '=' + sv.encode('utf-8').hex()


def unwire(sv):
    if isinstance(sv, str) and sv.startswith('=') and re.fullmatch(r'=([0-9a-f]{2})*', sv):
        return bytes.fromhex(sv[1:]).decode('utf-8')
    return sv


def in_model(case):
    """can the Lean model express the case?  Its arrays hold rationals, integers and strings: booleans, NaN,
    infinities and the sign of zero are outside (those cases go through the clause oracle only)."""
    def ok(a):
        return a['dt'] != 'b' and a.get('flavour') != 'special'
    if case['kind'] == 'uc':
        return ok(case['arr'])
    if case['kind'] in ('atoms', 'sys'):
        return all(ok(p) for p in case['props'])
    return case['kind'] != 'refuse'


def _u(unit, fW, fR, name=None):
    eu = eff_unit(name, unit) if name else unit
    a = fW.get(eu, 1.0)
    b = fR.get(eu, 1.0)
    return f"{unit.replace(' ', SPACE) if unit is not None else '-'} {cm.fr(a)} {cm.fr(b)}"


def _arr_tokens(a):
    head = f"{a['dt']} {len(a['shape'])} " + ' '.join(str(s) for s in a['shape'])
    if a['dt'] == 'f':
        body = ' '.join(cm.fr(x) for x in a['data'])
    elif a['dt'] == 's':
        body = ' '.join(wire(x) for x in a['data'])
    else:
        body = ' '.join(str(x) for x in a['data'])
    return (head.strip() + ' ' + body).strip()


def _box_tokens(b, cell=None):
    """the 12 numbers of a Box object.  `cell`: what the constructed object holds (its vects setter has zeroed
    negligible entries); without it the documented clean-up is applied here."""
    if cell is not None:
        return ' '.join(cm.fr(x) for x in cell)
    return ' '.join(cm.fr(x) for row in clean_cell(b['vects']) for x in row) + ' ' + ' '.join(cm.fr(x) for x in b['origin'])


def _obj_line(case, r):
    toks = ['obj', ' '.join(cm.fr(x) for row in case['box']['vects'] for x in row) + ' ' + ' '.join(cm.fr(x) for x in case['box']['origin']),
            str(case['natoms'])] + [cm.fr(x) for x in case['pos']]
    for op, fac in zip(case['ops'], r.extra['facs']):       # the operations that were started
        o = op['op']
        toks.append(o)
        if o in ('c2r', 'r2c'):
            toks += [cm.fr(x) for x in op['p']]
        elif o == 'setv':
            toks += [cm.fr(x) for row in op['m'] for x in row]
        elif o == 'seto':
            toks += [cm.fr(x) for x in op['o']]
        elif o == 'setp':
            toks += [str(op['at']), cm.fr(op['v'])]
        elif o in ('bread', 'sysdump', 'bdump'):
            u = op['unit']
            toks += [op['via'], _u(u, {u: fac[0]}, {u: fac[1]})]
            if o == 'bread':
                toks.append(' '.join(cm.fr(x) for row in op['box']['vects'] for x in row) + ' '
                            + ' '.join(cm.fr(x) for x in op['box']['origin']))
    return ' '.join(toks)


def _args_tokens(case, r):
    """the arguments of the model call in the form they were given (the driver resolves them with `resolveCall`):
    pn := - | <k> <name>*;  un := - | <k> unit*;  pu := - | <k> {<name> unit}*."""
    kw = _prop_kw(case)
    chosen = case['sel'] if case.get('sel') is not None else case['props']
    own = [p['name'] for p in chosen]
    pn = kw.get('prop_name')
    un = kw.get('unit')
    pu = kw.get('prop_unit')
    toks = ['args']
    toks.append('-' if pn is None else f"{len(pn)} " + ' '.join(wire(n) for n in pn))
    toks.append('-' if un is None else f"{len(un)} " + ' '.join(_u(u, r.fW, r.fR, n) for n, u in zip(own if pn is None else pn, un)))
    toks.append('-' if pu is None else f"{len(pu)} " + ' '.join(f"{wire(n)} {_u(u, r.fW, r.fR, n)}" for n, u in pu.items()))
    return ' ' + ' '.join(toks).replace('  ', ' ')


def _sel_tokens(case, r):
    if 'call' in case:
        return _args_tokens(case, r)
    if case.get('sel') is not None:
        return f" sel {len(case['sel'])} " + ' '.join(f"{wire(e['name'])} {_u(e['unit'], r.fW, r.fR, e['name'])}"
                                                      for e in case['sel'])
    return ''


def request_line(case, r: RealRun) -> str:
    k, via = case['kind'], case['via']
    if k == 'obj':
        return _obj_line(case, r)
    if k == 'uc':
        return f"uc {via} {_u(case['unit'], r.fW, r.fR)} {_arr_tokens(case['arr'])}"
    if k == 'box':
        return f"box {via} {_u(case['unit'], r.fW, r.fR)} {_box_tokens(case['box'], r.extra.get('cell'))}"
    props = ' '.join(f"{wire(p['name'])} {_u(p['unit'], r.fW, r.fR, p['name'])} {_arr_tokens(p)}"
                     for p in case.get('props', []))
    if k == 'atoms':
        line = f"atoms {via} {case['natoms']} {len(case['props'])} {props}".rstrip() + _sel_tokens(case, r)
        return line.strip()
    if k == 'sys':
        symbols, ms = r.extra['symbols'], r.extra['masses']      # the System's state (padded with None)
        syms = ' '.join('-' if s is None else wire(s) for s in symbols)
        masses = ' '.join('-' if m is None else cm.fr(m) for m in ms)
        pbc = ' '.join('1' if b else '0' for b in case['pbc'])
        line = (f"sys {via} {_u(case['box_unit'], r.fW, r.fR)} {_box_tokens(case['box'], r.extra.get('cell'))} {pbc} "
                f"{len(symbols)} {syms} {len(ms)} {masses} {case['natoms']} "
                f"{len(case['props'])} {props}").replace('  ', ' ').rstrip() + _sel_tokens(case, r)
        return line.strip()
    if k == 'ec':
        mk = r.extra.get('muK')
        mk = '- -' if mk is None or not all(x == x and abs(x) != float('inf') for x in mk) else f'{cm.fr(mk[0])} {cm.fr(mk[1])}'
        return (f"ec {via} {_u(case['unit'], r.fW, r.fR)} {case['cs']} {mk} " + ' '.join(cm.fr(x) for x in r.extra['C']))
    raise ValueError(k)


# ----------------------------------------------------------------------------------------
# comparison of real objects with the driver's JSON reply
# ----------------------------------------------------------------------------------------
class Pairs(list):
    """ordered key/value pairs of a JSON object of the driver."""


def parse_reply(line):
    return json.loads(line, object_pairs_hook=Pairs)


def _plain(v):
    import numpy as np
    if isinstance(v, np.ndarray) and v.ndim == 0:
        return v.item()
    if isinstance(v, np.generic):
        return v.item()
    return v


def same_tree(real, model, tol, path='', loose=None, out=None):
    """real: DataModelDict/list/scalar; model: Pairs/list/scalar with floats as '~p/q'.
    tol = (rtol, atol); `loose(path)` gives another tolerance for sub-trees (scaled data)."""
    out = [] if out is None else out
    real = _plain(real)
    if isinstance(model, Pairs):
        if not isinstance(real, dict):
            out.append(f'{path}: implementation has {type(real).__name__}, model has a dictionary')
            return out
        rk, mk = list(real.keys()), [k for k, _ in model]
        if rk != mk:
            out.append(f'{path}: keys {rk} != model keys {mk}')
            return out
        t = tol
        if loose is not None and 'unit' in real and real.get('unit') == 'scaled':
            t = loose
        for k, mv in model:
            same_tree(real[k], mv, t, f'{path}/{k}', loose, out)
        return out
    if isinstance(model, list):
        if not isinstance(real, (list, tuple)):
            out.append(f'{path}: implementation has {type(real).__name__} {real!r}, model has a list of {len(model)}')
            return out
        if len(real) != len(model):
            out.append(f'{path}: list length {len(real)} != model {len(model)}')
            return out
        for i, (a, b) in enumerate(zip(real, model)):
            same_tree(a, b, tol, f'{path}[{i}]', loose, out)
        return out
    same_scalar(real, model, tol, path, out)
    return out


def same_scalar(real, model, tol, path, out):
    real = _plain(real)
    if isinstance(model, str) and model.startswith('~'):
        if isinstance(real, bool) or not isinstance(real, float):
            out.append(f'{path}: implementation has {type(real).__name__} {real!r}, model has the float {model[1:]}')
            return
        m = Fraction(model[1:])
        if real != real or abs(real) == float('inf'):
            out.append(f'{path}: implementation {real!r} != model {float(m)!r}')
        elif abs(Fraction(real) - m) > Fraction(tol[1]) + Fraction(tol[0]) * abs(m):
            out.append(f'{path}: implementation {real!r} != model {float(m)!r}')
        return
    if isinstance(model, bool) or model is None or isinstance(model, (int, str)):
        model = unwire(model)
        if type(real) is not type(model) or real != model:
            out.append(f'{path}: implementation {real!r} ({type(real).__name__}) != model {model!r}')
        return
    out.append(f'{path}: unexpected model value {model!r}')


def arr_canon(a):
    import numpy as np
    a = np.asarray(a)
    kind = {'f': 'f', 'i': 'i', 'u': 'i', 'U': 's', 'S': 's'}.get(a.dtype.kind, a.dtype.kind)
    return {'shape': list(a.shape), 'dtype': kind, 'data': a.flatten().tolist()}


def same_arr(real, model, tol, path, out):
    c = arr_canon(real)
    m = dict(model)
    if c['shape'] != m['shape']:
        out.append(f"{path}: shape {c['shape']} != model {m['shape']}")
        return
    if c['dtype'] != m['dtype']:
        out.append(f"{path}: dtype class {c['dtype']} != model {m['dtype']}")
        return
    for i, (a, b) in enumerate(zip(c['data'], m['data'])):
        same_scalar(a, b, tol, f'{path}[{i}]', out)


def same_box(real, model, tol, path, out):
    m = dict(model)
    for key, v in (('avect', real.avect), ('bvect', real.bvect), ('cvect', real.cvect), ('origin', real.origin)):
        for i in range(3):
            same_scalar(float(v[i]), m[key][i], tol, f'{path}.{key}[{i}]', out)


def same_atoms(real, model, tol, loose_names, loose, path, out):
    m = dict(model)
    if real.natoms != m['natoms']:
        out.append(f"{path}: natoms {real.natoms} != model {m['natoms']}")
    names = _pnames(real)
    mnames = [unwire(p[0]) for p in m['props']]
    if names != mnames:
        out.append(f'{path}: properties {names} != model {mnames}')
        return
    for name, marr in m['props']:
        name = unwire(name)
        same_arr(real.view[name], marr, loose if name in loose_names else tol, f'{path}.{name}', out)


def same_sys(real, model, tol, loose_names, loose, out):
    m = dict(model)
    same_box(real.box, m['box'], tol, 'box', out)
    if [bool(b) for b in real.pbc] != m['pbc'] or real.pbc.dtype.kind != 'b':
        out.append(f"pbc {real.pbc!r} != model {m['pbc']}")
    if list(real.symbols) != [unwire(x) for x in m['symbols']]:
        out.append(f"symbols {real.symbols!r} != model {[unwire(x) for x in m['symbols']]}")
    rm = list(real.masses)
    if len(rm) != len(m['masses']):
        out.append(f"masses {rm} != model {m['masses']}")
    else:
        for i, (a, b) in enumerate(zip(rm, m['masses'])):
            same_scalar(a, b, tol, f'masses[{i}]', out)
    same_atoms(real.atoms, m['atoms'], tol, loose_names, loose, 'atoms', out)


TOL0 = 2e-15


def _tol(case):
    """relative tolerance of one case: 2e-15 for value/f and value*f, plus the bound on two correctly rounded
    evaluations of the case's unit expressions that associate the operators differently (write and read side)."""
    ulps = max([unit_ulps(u) for u in _units_of(case)] + [0.0])
    return (TOL0 + 2 * ulps * 2.0 ** -53, 0.0)


def _lengths(case):
    """(L, P): largest length of the cell (edge component + origin component) and largest component of a
    property of the case that is stored box-scaled."""
    b = case.get('box')
    L = 8.0 * 2.0 ** case.get('scale', 0)
    if b is not None:
        L = max(abs(x) for row in b['vects'] for x in row) + max(abs(x) for x in b['origin'])
    P = 0.0
    units = {e['name']: e['unit'] for e in (case.get('sel') or case.get('props', []))}
    for p in case.get('props', []):
        if p['name'] in units and eff_unit(p['name'], units[p['name']]) == 'scaled' and p['dt'] in 'fi':
            P = max([P] + [abs(float(x)) for x in p['data']])      # (only what is stored box-scaled)
    return L, P


def _loose(case):
    """(rtol, atol) for box-scaled data read back (lengths): the 3x3 inverse of cells with condition number < 1e3
    (|entries| <= 8 s, |det| >= 8 s^3 for a common scale s) loses at most 1e-10 relative to the largest length
    involved - cell edge, origin or position; nothing absolute: the bound scales with the case."""
    L, P = _lengths(case)
    return (1e-10, 1e-10 * (L + P))


def _loose_rel(case):
    """the same bound for the relative coordinates stored in the tree (dimensionless: lengths over the cell size)."""
    L, P = _lengths(case)
    return (1e-10, 1e-10 * (L + P) / L)


def _norm_close(real, model, rtol, path, out):
    """real: floats; model: '~p/q' strings.  Norm-wise: |real_i - model_i| <= rtol * max_j |model_j|."""
    real = [float(x) for x in real]
    mod = [Fraction(x[1:]) for x in model]
    if len(real) != len(mod):
        out.append(f'{path}: {len(real)} numbers, model has {len(mod)}')
        return
    scale = max([abs(x) for x in mod] + [Fraction(0)])
    for i, (a, b) in enumerate(zip(real, mod)):
        if a != a or abs(a) == float('inf') or abs(Fraction(a) - b) > Fraction(rtol) * scale:
            out.append(f'{path}[{i}]: implementation {a!r} != model {float(b)!r}')
            return


OBJ_RTOL = 1e-9     # 3x3 inverse of cells with |entries| <= 8 |det| >= 8 (condition < 1e3), norm-wise


def _flat(x):
    return [z for y in x for z in (_flat(y) if isinstance(y, list) else [y])]


def compare_obj(case, r, reply):
    out = []
    if reply.startswith('err:'):
        return [f'model refused the request: {reply}']
    if r.write_error is not None:
        return [f'implementation raised constructing the System/Box objects: {r.write_error}']
    ms = json.loads(reply, object_pairs_hook=Pairs)
    outs = r.extra['outs']
    if len(ms) != len(outs):
        return [f'{len(outs)} operations run, model answered {len(ms)}']
    for i, (op, real, m) in enumerate(zip(case['ops'], outs, ms)):
        tag = f"op {i} ({op['op']})"
        if 'error' in real:
            if m is not None:
                out.append(f"{tag}: implementation raised {real['error']}; model returns a value")
            break
        if m is None:
            out.append(f'{tag}: model refuses; implementation returned a value')
            break
        m = dict(m)
        tol = (TOL0 + 2 * unit_ulps(op.get('unit')) * 2.0 ** -53, 0.0)
        if 'recip' in real:
            _norm_close(_flat(real['recip']), _flat(m['recip']), OBJ_RTOL, f'{tag} reciprocal_vects', out)
        elif 'rel' in real:
            _norm_close(real['rel'], m['rel'], OBJ_RTOL, f'{tag} relative position', out)
        elif 'cart' in real:
            _norm_close(real['cart'], m['cart'], 1e-14, f'{tag} Cartesian position', out)
        elif 'pos' in real:
            _norm_close(real['pos'], m['pos'], 0.0, f'{tag} positions', out)
        elif 'box' in real:
            mb = dict(m['box'])
            for key in ('avect', 'bvect', 'cvect', 'origin'):
                for j in range(3):
                    same_scalar(float(real['box'][key][j]), mb[key][j], tol, f'{tag} {key}[{j}]', out)
        else:
            if m['read'] is None:
                out.append(f'{tag}: model cannot read the system back')
                continue
            s2, ms2 = real['read'], dict(m['read'])
            same_box(s2.box, ms2['box'], tol, f'{tag} read box', out)
            ma = dict(ms2['atoms'])
            mpos = dict(dict((p[0], p[1]) for p in ma['props'])['pos'])
            if list(s2.atoms.pos.shape) != mpos['shape']:
                out.append(f"{tag}: pos shape {list(s2.atoms.pos.shape)} != model {mpos['shape']}")
            else:
                mbx = dict(ms2['box'])
                cell = max(abs(Fraction(x[1:])) for key in ('avect', 'bvect', 'cvect', 'origin') for x in mbx[key])
                got = s2.atoms.pos.flatten().tolist()
                mod = [Fraction(x[1:]) for x in mpos['data']]
                scale = max([abs(x) for x in mod] + [cell])
                for j, (a, b) in enumerate(zip(got, mod)):
                    if abs(Fraction(float(a)) - b) > Fraction(OBJ_RTOL) * scale:
                        out.append(f'{tag}: position {j} read back as {a!r}, model {float(b)!r}')
                        break
        if out:
            break
    return out


def err_line(case, r):
    """request for the value stored with an error (uc cases that carry one and were written)."""
    if case['kind'] != 'uc' or 'emodel' not in r.extra:
        return None
    return request_line(case, r) + ' err ' + ' '.join(cm.fr(x) for x in case['err'])


def compare_err(case, r, reply):
    out = []
    if reply.startswith('err:'):
        return [f'model refused the request: {reply}']
    m = dict(parse_reply(reply))
    tol = _tol(case)
    if m['tree'] is None:
        return ['model refuses to write a value with an error; implementation wrote ' + str(r.extra['emodel'])[:200]]
    same_tree(r.extra['emodel'], m['tree'], tol, 'with error:', None, out)
    if 'eread_error' in r.extra:
        if m['read'] is not None and m['eread'] is not None:
            out.append(f"implementation raised on reading a value with an error ({r.extra['eread_error']}); model reads it")
        return out
    if r.extra.get('evia') is not None:
        same_tree(r.extra['evia'], m['via'], tol, case['via'] + ' with error:', None, out)
    for name, got, mod in (('value', r.extra['eread'][0], m['read']), ('error', r.extra['eread'][1], m['eread'])):
        if mod is None:
            out.append(f'model cannot read the {name} of a value stored with an error')
        else:
            same_arr(got, mod, tol, f'with error: {name}', out)
    return out


def compare(case, r: RealRun, reply):
    """list of differences between the real run and the driver's reply."""
    if case['kind'] == 'obj':
        return compare_obj(case, r, reply)
    out = []
    TOL = TOLW = _tol(case)
    if case['kind'] == 'ec' and 'C' in r.extra:
        # normalized_as averages (and subtracts) constants: absolute error of a few ulp of the largest one
        a = 8 * 2.0 ** -53 * max(abs(x) for x in r.extra['C'])
        fw, fr = abs(r.fW.get(case['unit'], 1.0)), abs(r.fR.get(case['unit'], 1.0) if r.fR else 1.0)
        TOLW, TOL = (TOL[0], a / fw), (TOL[0], a / fw * fr)
    if reply.startswith('err:'):
        return [f'model refused the request: {reply}']
    m = dict(parse_reply(reply))
    k = case['kind']
    if r.write_error is not None:
        if m['tree'] is not None:
            out.append(f'implementation raised on write ({r.write_error}); model writes a tree')
        return out
    if m['tree'] is None:
        return ['model refuses to write; implementation wrote ' + str(r.tree)[:200]]
    loose = _loose(case)
    loose_rel = _loose_rel(case)
    same_tree(r.tree, m['tree'], TOLW, '', loose_rel, out)
    if r.text_error is not None:
        out.append(f'text encoding raised {r.text_error}')
        return out
    if r.via_tree is not None:
        same_tree(r.via_tree, m['via'], TOLW, case['via'] + ':', loose_rel, out)
    if r.read_error is not None:
        if m['read'] is not None:
            out.append(f'implementation raised on read ({r.read_error}); model reads {str(m["read"])[:200]}')
        return out
    if m['read'] is None:
        out.append('model refuses to read back; implementation read a value')
        return out
    loose_names = {p['name'] for p in (case.get('sel') or case.get('props', []))
                   if eff_unit(p['name'], p['unit']) == 'scaled'} if k == 'sys' else set()
    if k == 'sys':
        # a box-scaled property is read back through the re-read box, whose lengths are the written ones times
        # the box unit's factor ratio: the absolute rounding error scales with it
        loose = (loose[0], loose[1] * float(_ratio(r, case['box_unit'])))
        ov = case.get('override')
        if ov:
            # documented reader options: what is given at the call replaces what the record says
            mr = dict(m['read'])
            if 'symbols' in ov:
                mr['symbols'] = [ov['symbols']] if isinstance(ov['symbols'], str) else list(ov['symbols'])
            if 'pbc' in ov:
                mr['pbc'] = list(ov['pbc'])
            if 'masses' in ov:
                mr['masses'] = ['~' + cm.fr(x) for x in ov['masses']]
            m['read'] = Pairs(mr.items())
    if k == 'uc':
        same_arr(r.read, m['read'], TOL, 'read', out)
    elif k == 'box':
        same_box(r.read, m['read'], TOL, 'read', out)
    elif k == 'atoms':
        same_atoms(r.read, m['read'], TOL, set(), loose, 'read', out)
    elif k == 'sys':
        same_sys(r.read, m['read'], TOL, loose_names, loose, out)
    else:
        for i, (a, b) in enumerate(zip(r.read.Cij.flatten().tolist(), m['read'])):
            same_scalar(a, b, TOL, f'Cij[{i}]', out)
    return out


def _nontrivial(case):
    return case['via'] != 'tree' or case['w1'] != case['w2'] or any(u is not None for u in _units_of(case))


GENS = [('uc', gen_uc, 6), ('box', gen_box, 2), ('atoms', gen_atoms, 3), ('sys', gen_sys, 6), ('ec', gen_ec, 3),
        ('obj', gen_obj, 3), ('refuse', gen_refusal, 1)]


def _cases(rng, n):
    tot = sum(w for _, _, w in GENS)
    for _, g, w in GENS:
        for _ in range(max(1, n * w // tot)):
            yield _fit_cfgs(g(rng))


def gen_big(rng, of, n):
    """a LARGE case in compact form (what a replay file stores): the kind of object, the number of atoms / of stored
    values and the seed its content is generated from."""
    return {'kind': 'big', 'of': of, 'n': n, 'seed': rng.randrange(2 ** 31)}


def expand_big(spec):
    """the ordinary case a compact large case stands for."""
    rng = random.Random(spec['seed'])
    if spec['of'] == 'uc':
        case = gen_uc(rng, count=spec['n'])
    elif spec['of'] == 'atoms':
        case = gen_atoms(rng, natoms=spec['n'])
    else:
        case = gen_sys(rng, natoms=spec['n'])
        if case['via'] == 'xml' and spec['n'] > 40000:
            # xmltodict needs a second per 100 000 numbers and pass: one dump, no second generation, no surrounding
            # record, at most 8 numbers per atom
            case['record'] = None
            case.pop('again', None)
            case['io'] = 'stringio' if case['io'] == 'str' else case['io']
            width, keep = 0, []
            for q in case['props']:
                w = 1
                for x in q['shape'][1:]:
                    w *= x
                if q['name'] in ('atype', 'pos') or width + w <= 4:
                    keep.append(q)
                    width += w if q['name'] not in ('atype', 'pos') else 0
            names = [q['name'] for q in keep]
            case['props'] = keep
            if case.get('sel') is not None:
                case['sel'] = [e for e in case['sel'] if e['name'] in names]
    if spec['of'] == 'sys' and 'scaled' not in [q['unit'] for q in (case['sel'] if case.get('sel') is not None else case['props'])]:
        # a large system always stores something box-scaled (the positions, if nothing else)
        for q in case['props'] + (case.get('sel') or []):
            if q['name'] == 'pos':
                q['unit'] = 'scaled'
        if case.get('sel') is not None and 'pos' not in [e['name'] for e in case['sel']]:
            case['sel'].insert(0, {'name': 'pos', 'unit': 'scaled'})
        if case['call'] in ('names', 'default'):
            case['call'] = 'prop_unit'
    case['compact'] = dict(spec)
    return _fit_cfgs(case)


def _full(case):
    return expand_big(case) if case.get('kind') == 'big' else case


def _big_cases(rng, thorough, tie=False):
    """the large cases of one run: long values around the COUNTS; systems of 2^15 + 1 and (search only, not in the
    tie) 2^16 + 1 atoms; in the tie one of 20 001 / 30 001 atoms; more of each in the thorough tier."""
    k = 3 if thorough else 1
    out = [gen_big(rng, 'uc', c) for c in rng.sample(COUNTS, (3 if tie else 5) * k)]
    if tie:
        out += [gen_big(rng, rng.choice(['sys', 'sys', 'atoms']), n) for n in rng.sample(NATOMS_A[1:], k)]
    else:
        out += [gen_big(rng, 'sys', NATOMS_A[0])] + [gen_big(rng, rng.choice(['sys', 'atoms']), rng.choice(NATOMS_A)) for _ in range(k - 1)]
    if not tie or thorough:
        out += [gen_big(rng, 'sys', n) for n in NATOMS_B[:k]]
    return out


def _root(case):
    """the generated case a (second-generation) case belongs to: what a replay file stores (a large case in its
    compact form)."""
    case = case.get('second_of', case)
    return case.get('compact', case)


def _classes(case, cover):
    """which input classes of the cross-cutting list a case exercises (counted into the evidence)."""
    def hit(k):
        cover[k] = cover.get(k, 0) + 1
    arrs = [case['arr']] if case['kind'] == 'uc' else case.get('props', [])
    for a in arrs:
        if a.get('flavour'):
            hit('values: ' + a['flavour'])
        if a['dt'] == 'b':
            hit('values: bool')
        if a.get('form', 'c') != 'c':
            hit('array form: ' + a['form'])
        if a.get('name') in NAMES_ODD:
            hit('property name: reserved / short / non-ASCII')
        if a.get('name') in NAMES_CLASS:
            hit('property name: method / attribute of Atoms or System')
    if 'compact' in case:
        n = case['compact']['n']
        if case['kind'] == 'uc':
            hit('size: long value of %d+ stored numbers' % (1 << (n.bit_length() - 1)))
        else:
            hit('size: %s of about %s atoms' % (case['kind'], '21 000' if n in NATOMS_A else '70 000'))
    if case.get('natoms') == 1 and any(len(a['shape']) >= 2 for a in arrs):
        hit('natoms = 1 with vector / tensor properties')
    if case.get('scale'):
        hit('magnitude 2^%+d' % case['scale'])
    for k in ('again', 'override', 'prefill', 'mass_form', 'record'):
        if case.get(k):
            hit(k if k != 'again' else 'second dump of the same object after in-place edits')
    if case['kind'] == 'sys' and case['via'] != 'tree':
        hit('output: ' + case.get('io', 'str'))
    if case['kind'] == 'refuse':
        hit('refusal: ' + case['which'])
    if case['kind'] in ('atoms', 'sys'):
        hit('arguments as: ' + case.get('argform', 'list'))
        if case.get('cont'):
            hit('symbols / masses / pbc as: ' + case['cont'])
        hit('call form: ' + case.get('call', 'prop_unit') + (' (positional)' if case.get('positional') and case['via'] == 'tree' else ''))
    if case['kind'] == 'sys':
        if any(m == 0.0 for m in case['masses'] if m is not None):
            hit('masses: exact 0.0 (' + ('with None' if None in case['masses'] else 'no None') + ')')
        if not any(case['pbc']):
            hit('pbc: all False')
        if '' in case['symbols']:
            hit("symbols: ''")
        if (case.get('record') or {}).get('deep'):
            hit('record: system nested %d levels deep' % case['record']['deep'])
    if case['kind'] == 'ec' and case.get('perturb'):
        hit('elastic constants: ' + case['perturb'] + ' entries')
    for w in {case['w1'], case['w2']}:
        spec = cfg_spec(w)
        if 'time' in spec and spec['time'] != 's':
            hit('working units: named time unit')
        if w.startswith('cfg:'):
            hit('working units: generated keyword set')
    for u in _units_of(case):
        if u not in (None, 'scaled'):
            if re.search(r'(?<![A-Za-z])(m|kg|s|C|K)(?![A-Za-z])', u):
                hit('storage unit: literal SI base unit')
            if not u.isascii():
                hit('storage unit: non-ASCII name')


def _brief(case):
    c = dict(case)
    if 'props' in c:
        c['props'] = [{'name': p['name'], 'unit': p['unit'], 'dt': p['dt'], 'shape': p['shape']} for p in c['props']]
    if 'arr' in c:
        c['arr'] = {'dt': c['arr']['dt'], 'shape': c['arr']['shape']}
    c.pop('C', None)
    c.pop('second_of', None)
    return c


def correspond_nest(ctx, n):
    """numpy reshape / flatten / tolist against the model's `unflatten` / `Nest.flatten` (the functions the
    theorem unflatten_flatten is about), on every rank 0-4 and extents 0-4."""
    import numpy as np
    rng = ctx.rng
    lines, reals = [], []
    for _ in range(n):
        rank = rng.choice([0, 1, 1, 2, 2, 3, 3, 4])
        dims = [rng.choice([0, 1, 1, 2, 2, 3, 3, 4]) if rng.random() < 0.9 else 5 for _ in range(rank)]
        size = int(np.prod(dims)) if dims else 1
        data = [cm.dyadic(rng, -8, 8, 3) for _ in range(size)]
        arr = np.array(data, dtype=float).reshape(dims)
        lines.append(('nest %d %s %s' % (rank, ' '.join(map(str, dims)), ' '.join(cm.fr(x) for x in data))).replace('  ', ' ').strip())
        reals.append((dims, arr.tolist(), arr.flatten().tolist()))
    for line, (dims, nested, flat), reply in zip(lines, reals, ctx.driver.ask_many(lines)):
        ctx.stats.case('nest', line, nontrivial=len(dims) >= 2)
        if reply.startswith('err:'):
            ctx.disagree('nest', f'model refused reshape to {dims}: {reply}', {'line': line})
            continue
        m = dict(parse_reply(reply))
        out = []
        same_tree(nested, m['nest'], (0.0, 0.0), 'reshape', None, out)
        same_tree(flat, m['flat'], (0.0, 0.0), 'flatten', None, out)
        if out:
            ctx.disagree('nest', f'numpy reshape{tuple(dims)} vs model unflatten: ' + '; '.join(out[:3]), {'line': line})


FMT_NAMES = ['json', 'JSON', 'Json', 'jSoN', 'xml', 'XML', 'Xml', 'xmL', 'yaml', 'txt', 'js', 'jsonx', 'xmls', 'x', '',
             'json ', 'model', 'dat']


def correspond_fmt(ctx, n):
    """the option handling of dump('system_model', f=, format=) against the model's `dumpEncoding`: which encoding
    (the DataModelDict itself / JSON text / XML text / NOTHING) comes out for every spelling of the format name, given
    or left to the extension of the path, for a returned value, a handle and a path."""
    import io
    import os
    import tempfile
    import atomman as am
    from DataModelDict import DataModelDict as DM
    rng = ctx.rng
    s = am.System(atoms=am.Atoms(atype=[1, 2], pos=[[0., 0., 0.], [1., 1.5, 2.]]),
                  box=am.Box(avect=[4., 0., 0.], bvect=[0.5, 3., 0.], cvect=[0., 0., 5.]), symbols=['Al', None])

    def kind(text):
        if text is None or text == '':
            return None
        t = text.lstrip()
        try:
            if t.startswith('{'):
                json.loads(t)
                return 'json'
            if t.startswith('<'):
                DM(t)
                return 'xml'
        except Exception:
            pass
        return 'unreadable: ' + text[:40]
    tok = lambda x: '-' if x is None else ('.' if x == '' else x)
    lines, reals = [], []
    tmp = tempfile.mkdtemp(prefix='c10_fmt_')
    try:
        for i in range(n):
            fm = rng.choice(FMT_NAMES) if rng.random() < 0.6 else None
            tg = rng.choice(['returned', 'handle', 'path'])
            ex = rng.choice(FMT_NAMES) if tg == 'path' else None
            if (fm is not None and ' ' in fm) or (ex is not None and ' ' in ex):
                fm = None if fm is not None and ' ' in fm else fm
                ex = 'json' if ex is not None and ' ' in ex else ex
            try:
                if tg == 'returned':
                    out = s.dump('system_model', format=fm) if fm is not None else s.dump('system_model')
                    got = 'tree' if isinstance(out, DM) else kind(out)
                elif tg == 'handle':
                    h = io.StringIO()
                    s.dump('system_model', f=h, **({'format': fm} if fm is not None else {}))
                    got = kind(h.getvalue())
                else:
                    path = os.path.join(tmp, 'f%d' % i + ('.' + ex if ex else ''))
                    s.dump('system_model', f=path, **({'format': fm} if fm is not None else {}))
                    with open(path, encoding='UTF-8') as fh:
                        got = kind(fh.read())
            except Exception as e:  # an exception of the implementation is an observation
                got = 'raises %s: %s' % (type(e).__name__, str(e)[:60])
            lines.append('fmt %s %s %s' % (tok(fm), tg, tok(ex) if tg == 'path' else '-'))
            reals.append(got)
    finally:
        import shutil
        shutil.rmtree(tmp, ignore_errors=True)
    for line, got, reply in zip(lines, reals, ctx.driver.ask_many(lines)):
        ctx.stats.case('fmt', line, nontrivial=True)
        if reply.startswith('err:'):
            ctx.disagree('fmt', f'model refused {line}: {reply}', {'line': line})
            continue
        want = json.loads(reply)['enc']
        if want != got:
            ctx.disagree('fmt', f"dump('system_model') options [{line}]: implementation produced {got!r}, model "
                                f'dumpEncoding says {want!r}', {'line': line})


# ---- records in the old `C` / `ij` format of ElasticConstants.model (round 6: the `except:` branch of the reader) ----
LEGACY_UNITS = [None, 'GPa', 'GPa', 'eV/angstrom^3', 'MPa', 'J/m^3']
LEGACY_CFGS = ['default', 'SI', 'nm-g-ps', 'metal-J', 'cm-eV']


def gen_legacy(rng):
    """a record as older atomman versions wrote it: one `{stiffness: value-with-unit, ij: 'i j'}` entry per named
    constant of a standard representation, in any order; the stored numbers are multiples of 1/4 times a power of two."""
    form = rng.choice(list(EC_KEYS))
    scale = rng.choice([1.0, 12.5, 0.25]) * 2.0 ** rng.choice([0, 0, 0, 20, -20, 40, -40])
    ents = []
    for n in EC_KEYS[form]:
        i, j = int(n[1]), int(n[2])
        if i == j:
            x = rng.randint(160, 800) / 4
        elif j <= 3:
            x = rng.randint(40, 140) / 4
        else:
            x = rng.randint(4, 32) / 4 * rng.choice([1, -1])
        ents.append([n, x * scale])
    mode = rng.choices(['ok', 'dup', 'missing', 'wrongname', 'short', 'nonpositive', 'extra'], [60, 12, 8, 6, 4, 4, 6])[0]
    if mode == 'dup':
        n, x = rng.choice(ents)
        ents.insert(rng.randrange(len(ents) + 1), [n, x * rng.choice([2.0, 0.5, 1.25])])
    elif mode == 'missing':
        ents.pop(rng.randrange(len(ents)))
    elif mode == 'wrongname':
        ents[rng.randrange(len(ents))][0] = rng.choice(['C99', 'C21', 'C77', 'C65'])
    elif mode == 'extra':
        ents.append([rng.choice(['C99', 'C21', 'C54', 'C77']), 2.0 * scale])
    elif mode == 'nonpositive':
        ents = [[n, -abs(x)] for n, x in ents]
    if mode != 'dup':
        rng.shuffle(ents)
    sep = rng.choice([' ', ' ', ' ', ',', '-'])
    recs = [[n[1] + sep + n[2], x] for n, x in ents]
    if mode == 'short':
        recs[rng.randrange(len(recs))][0] = rng.choice(['12', '1', ''])
    return {'form': form, 'mode': mode, 'entries': recs, 'unit': rng.choice(LEGACY_UNITS),
            'via': rng.choice(['tree', 'json', 'xml']), 'w2': rng.choice(LEGACY_CFGS)}


def _legacy_keys(case):
    """the keyword dictionary the entries stand for (later entries overwrite), or None when a key cannot be formed."""
    d = {}
    for ij, x in case['entries']:
        if len(ij) < 3:
            return None
        d['C' + ij[0] + ij[2]] = x
    return d


def run_legacy(case):
    """the record is put together HERE (plain DataModelDict nodes), read by the real ElasticConstants(model=) under the
    reading configuration.  -> (36 floats or None, error text, reading factor of the unit)"""
    import atomman as am
    from DataModelDict import DataModelDict as DM
    rec = DM()
    rec['elastic-constants'] = DM()
    for ij, x in case['entries']:
        c = DM()
        c['stiffness'] = DM([('value', x)] + ([('unit', case['unit'])] if case['unit'] is not None else []))
        c['ij'] = ij
        rec['elastic-constants'].append('C', c)
    arg = rec if case['via'] == 'tree' else (rec.json() if case['via'] == 'json' else rec.xml())
    set_cfg(case['w2'])
    fR = own_factor(case['unit']) if case['unit'] is not None else 1.0
    try:
        got = [float(v) for v in am.ElasticConstants(model=arg).Cij.flatten()]
        return got, None, fR
    except Exception as e:  # noqa: an exception of the implementation is an observation
        return None, '%s: %s' % (type(e).__name__, str(e)[:80]), fR


def legacy_line(case, fR):
    u = case['unit']
    ents = ' '.join('%s %s' % ((ij.replace(' ', SPACE) or '.'), cm.fr(x)) for ij, x in case['entries'])
    return f"ecl {u.replace(' ', SPACE) if u is not None else '-'} 1/1 {cm.fr(fR)} {len(case['entries'])} {ents}"


def _legacy_standard(case):
    d = _legacy_keys(case)
    return d is not None and any(sorted(d) == sorted(ks) for ks in EC_KEYS.values())


def legacy_diffs(case, got, err, reply):
    if reply.startswith('err:'):
        return [f'model refused the request: {reply}']
    want = json.loads(reply)['read']
    if got is None and want is None:
        return []
    if want is None and not _legacy_standard(case):
        return None        # a keyword set with redundant / alternative constants: outside the model
    if got is None:
        return [f'implementation raised ({err}); model reads {str(want)[:120]}']
    if want is None:
        return [f'model refuses the record; implementation read {got[:6]} ...']
    wf = [float(Fraction(w[1:])) for w in want]
    tol = 1e-12 * max(abs(w) for w in wf)
    bad = [(i, g, w) for i, (g, w) in enumerate(zip(got, wf)) if not abs(g - w) <= tol]
    return [f'Cij[{i // 6},{i % 6}] = {g!r} read, model {w!r}' for i, g, w in bad[:3]]


def correspond_legacy(ctx, n):
    """`ElasticConstants(model=<record in the old C / ij format>)` against the model's `ecReadAny` (op `ecl`)."""
    rng = random.Random(ctx.seed * 7368787 + 29)
    cases, lines, reals = [], [], []
    try:
        for _ in range(n):
            case = gen_legacy(rng)
            if any(ij == '' for ij, _ in case['entries']) and case['via'] == 'xml':
                case['via'] = 'json'     # the XML text codec reads '' back as None (assumption 2)
            got, err, fR = run_legacy(case)
            cases.append(case)
            reals.append((got, err))
            lines.append(legacy_line(case, fR))
    finally:
        restore_units()
    outside = 0
    for case, (got, err), line, reply in zip(cases, reals, lines, ctx.driver.ask_many(lines)):
        diffs = legacy_diffs(case, got, err, reply)
        if diffs is None:
            outside += 1
            continue
        ctx.stats.case(f"ecl:{case['via']}", line, nontrivial=case['mode'] in ('ok', 'dup'), sample=case['form'])
        if diffs:
            ctx.disagree(f"ecl:{case['via']}", f"ElasticConstants(model=<old C/ij record: {case['form']}, {case['mode']}>) via "
                         f"{case['via']} read under {case['w2']}: " + '; '.join(diffs), {'legacy': case, 'line': line})
    ctx.extra['legacy_outside_model'] = outside


def oracle_legacy(ctx, case):
    """clause `legacy record`: a record that names the constants of a standard representation (each once, or the last
    of several entries of a constant) is read as that crystal - every constant in its place in the 6x6 array (written
    out here from Nye's tables, `ec_form_matrix`), times the factor of the stored unit under the reading
    configuration (evaluated here); anything else in the record's `C` list is refused."""
    d = _legacy_keys(case)
    form = None if d is None else next((f for f, ks in EC_KEYS.items() if sorted(ks) == sorted(d)), None)
    got, err, fR = run_legacy(case)
    key = f"ecl:{case['via']}:{case['form']}"
    rp = {'legacy': case}
    if form is None:
        return                     # alternative / redundant keyword sets and malformed records: the tie only
    want = [Fraction(x) * Fraction(fR) for row in ec_form_matrix(form, d) for x in row]
    if max(want) <= 0:
        if got is not None:      # the Cij setter's documented refusal (no positive entry in the 6x6 array)
            ctx.violate(key + ':refusal', f'old-format record whose 6x6 array has no positive entry was read: {got[:3]} ...', rp)
        return
    if got is None:
        ctx.violate(key + ':read-raises', f"old-format record of a {form} crystal ({case['mode']}), unit "
                    f"{case['unit']!r}, via {case['via']}, read under {case['w2']}: {err}", rp)
        return
    tol = Fraction(1, 10 ** 12) * max(abs(w) for w in want)
    for i, (g, w) in enumerate(zip(got, want)):
        if not abs(Fraction(g) - w) <= tol:
            ctx.violate(key, f"old-format record of a {form} crystal ({case['mode']}), unit {case['unit']!r}, via "
                        f"{case['via']}, read under {case['w2']}: Cij[{i // 6},{i % 6}] = {g!r} read back, "
                        f'{float(w)!r} stored', rp)
            return


def search_legacy(ctx, n):
    rng = random.Random(ctx.seed * 2750159 + 31)
    pending = [d.replay['legacy'] for d in ctx.disagreements if isinstance(d.replay, dict) and 'legacy' in d.replay]
    try:
        for case in pending + [gen_legacy(rng) for _ in range(n)]:
            oracle_legacy(ctx, case)
            ctx.stats.case(f"oracle:ecl:{case['via']}", json.dumps(case, sort_keys=True), nontrivial=case['mode'] in ('ok', 'dup'))
    finally:
        restore_units()


def correspond_finds(ctx, n):
    """`DataModelDict.finds(key)` (what `load('system_model', key=, index=)`, `System(model=)`, `Box(model=)` … look
    their entry up with) and python's `[index]` against the model's `DM.finds` / `pyIndex` on random nested records:
    dictionaries, lists of dictionaries and values, the key at several depths, inside and next to matches."""
    from DataModelDict import DataModelDict as DM
    rng = random.Random(ctx.seed * 6700417 + 37)
    keys = ['atomic-system', 'a', 'b', 'box', 'atoms', 'x']
    lines, wants = [], []
    for _ in range(n):
        count = [0]
        ids = {}

        def new_id():
            count[0] += 1
            return count[0]

        def build(depth):
            """-> (python value, tokens)"""
            r = rng.random()
            if depth >= 4 or r < 0.3:
                i = new_id()
                return i, ['S', str(i)]
            if r < 0.75:
                i = new_id()
                d = DM()
                toks = []
                ks = rng.sample(keys, rng.randint(0, 4))
                for k in ks:
                    if rng.random() < 0.35:
                        items = [build(depth + 1) for _ in range(rng.randint(0, 3))]
                        items = [(v, tk) for v, tk in items]
                        d[k] = [v for v, _ in items]
                        toks += [k, 'L', str(len(items))] + [x for _, tk in items for x in tk]
                    else:
                        v, tk = build(depth + 1)
                        d[k] = v
                        toks += [k] + tk
                d['#id'] = i
                ids[id(d)] = i
                return d, ['N', str(i), str(len(ks))] + toks
            i = new_id()
            return i, ['S', str(i)]
        root, toks = build(0)
        while not isinstance(root, DM):
            root, toks = build(0)
        key = rng.choice(keys)
        found = DM(root).finds(key) if False else root.finds(key)
        got = [ids.get(id(v), v if isinstance(v, int) else -1) for v in found]
        index = rng.choice([0, 0, 1, 2, -1, -2, 3, -3, 5, -5])
        try:
            pick = got[index]
        except IndexError:
            pick = None
        lines.append('finds %s %d %s' % (key, index, ' '.join(toks)))
        wants.append((got, pick))
    for line, (got, pick), reply in zip(lines, wants, ctx.driver.ask_many(lines)):
        ctx.stats.case('finds', line, nontrivial=len(got) > 1)
        if reply.startswith('err:'):
            ctx.disagree('finds', f'model refused {line[:200]}: {reply}', {'line': line})
            continue
        m = json.loads(reply)
        if m['ids'] != got or m['pick'] != pick:
            ctx.disagree('finds', f"DataModelDict.finds / [index] on [{line[:300]}]: implementation found {got} and took "
                                  f"{pick}, model {m['ids']} and {m['pick']}", {'line': line})


def _writable(c, rr):
    """was the object of the case constructed (so that there is something to serialise and to ask the model about)?"""
    if c['kind'] == 'ec':
        return 'C' in rr.extra
    if c['kind'] == 'sys':
        return 'cell' in rr.extra
    return not (rr.write_error or '').startswith('in-place edit raised')


def correspond(ctx):
    rng = ctx.rng
    N = ctx.n(1000, 12000)
    correspond_nest(ctx, ctx.n(150, 2000))
    correspond_fmt(ctx, ctx.n(120, 1000))
    correspond_legacy(ctx, ctx.n(150, 1500))
    correspond_finds(ctx, ctx.n(200, 2000))
    runs = []
    classes = {}
    outside = 0
    try:
        for case in list(_cases(rng, N)) + [expand_big(b) for b in _big_cases(random.Random(ctx.seed * 104729 + 3), ctx.thorough, tie=True)]:
            if case['kind'] == 'refuse':
                continue
            r = run_real(case)
            _classes(case, classes)
            for c, rr in generations(case, r):
                if not in_model(c):
                    outside += 1        # booleans / NaN / infinities / signed zero: clause oracle only
                    continue
                if not _writable(c, rr):
                    continue            # the object itself could not be constructed: nothing to serialise
                runs.append((c, rr, request_line(c, rr), False))
                if err_line(c, rr) is not None:
                    runs.append((c, rr, err_line(c, rr), True))
    finally:
        restore_units()
    replies = ctx.driver.ask_many([l for _, _, l, _ in runs])
    cover, cover_ec = {}, {}
    for (case, r, line, witherr), reply in zip(runs, replies):
        gen2 = ' [second dump of the same object after in-place edits]' if 'second_of' in case else ''
        if case['kind'] == 'ec' and not witherr:
            key = case['cs'] + (' (crystal in that normal form)' if case['cs'] in EC_INFORM.get(case.get('form'), ()) else '')
            cover_ec[key] = cover_ec.get(key, 0) + 1
        if witherr:
            ctx.stats.case(f"uc+error:{case['via']}", line, nontrivial=True)
            diffs = compare_err(case, r, reply)
            if diffs:
                ctx.disagree(f"uc+error:{case['via']}", f"uc.model(value, unit, error=...) via {case['via']} (write "
                             f"{case['w1']}, read {case['w2']}): " + '; '.join(diffs[:3]),
                             {'case': case, 'line': line, 'diffs': diffs[:10]})
            continue
        kind = f"{case['kind']}:{case['via']}"
        ctx.stats.case(kind, line, nontrivial=_nontrivial(case), sample=_brief(case))
        for u in _units_of(case):
            key = 'None' if u is None else ('scaled' if u == 'scaled' else 'unit')
            cover[key] = cover.get(key, 0) + 1
        if case['w1'] != case['w2']:
            cover['different working units'] = cover.get('different working units', 0) + 1
        try:
            diffs = compare(case, r, reply)
        except Exception as e:  # noqa  (looking at the object read back runs the implementation's code)
            diffs = [f'looking at what the implementation read back raised {type(e).__name__}: {e}']
        if diffs:
            ctx.disagree(f"{case['kind']}:{case['via']}", f"{case['kind']} via {case['via']} (write {case['w1']}, "
                         f"read {case['w2']}){gen2}: " + '; '.join(diffs[:3]),
                         {'case': _root(case), 'line': line if len(line) < 20000 else line[:2000] + ' ...', 'diffs': diffs[:10]})
    ctx.extra['unit_choices'] = cover
    ctx.extra['ec_crystal_system'] = dict(sorted(cover_ec.items()))
    ctx.extra['input_classes'] = dict(sorted(classes.items()))
    ctx.extra['outside_model'] = outside


# ----------------------------------------------------------------------------------------
# search: the round-trip clauses on the real code, exact rational expectations
# ----------------------------------------------------------------------------------------
def _expect_close(val, want: Fraction, rtol, atol):
    import numpy as np
    if isinstance(val, (int, np.integer)) and not isinstance(val, (bool, np.bool_)):
        got = Fraction(int(val))            # integers exactly (not through a double)
    else:
        val = float(val)
        if val != val or abs(val) == float('inf'):
            return False
        got = Fraction(val)
    return abs(got - want) <= Fraction(atol) + Fraction(rtol) * abs(want)


def _same_bits(g, o):
    """two numbers are the same double, bit for bit (sign of zero, NaN = NaN) or the same integer."""
    import struct
    if isinstance(o, float):
        return isinstance(g, float) and struct.pack('<d', g) == struct.pack('<d', o) or (g != g and o != o and isinstance(g, float))
    return type(g) is type(o) and g == o


def _check_array(ctx, key, what, case, got, orig, ratio: Fraction, rtol, atol, keep_dtype, exact=False):
    """got (ndarray read back) must equal orig (spec array) * ratio, same shape (and dtype class).  `exact`: nothing
    was converted (no unit): every element must come back bit for bit."""
    import numpy as np
    got = np.asarray(got)
    rp = {'case': _root(case)}
    if list(got.shape) != list(orig['shape']):
        ctx.violate(key + ':shape', f"{what}: shape {list(got.shape)} read back, {orig['shape']} written", rp)
        return False
    flat = got.flatten().tolist()
    if orig['dt'] == 's':
        if flat != list(orig['data']) or got.dtype.kind not in 'US':
            at = next((i for i, (g, o) in enumerate(zip(flat, orig['data'])) if g != o), 0)
            ctx.violate(key + ':value', f'{what}: strings {flat[at:at + 4]} ({got.dtype}) read back from element {at} on, '
                        f'{orig["data"][at:at + 4]} written', rp)
            return False
        return True
    if orig['dt'] == 'b' and keep_dtype:
        if got.dtype.kind != 'b' or flat != list(orig['data']):
            ctx.violate(key + ':dtype', f'{what}: booleans {orig["data"][:4]} read back as {flat[:4]} ({got.dtype})', rp)
            return False
        return True
    if keep_dtype and orig['dt'] == 'i' and got.dtype.kind not in 'iu':
        ctx.violate(key + ':dtype', f'{what}: integer data read back as {got.dtype}', rp)
        return False
    if keep_dtype and orig['dt'] == 'f' and got.dtype.kind != 'f':
        ctx.violate(key + ':dtype', f'{what}: float data read back as {got.dtype}', rp)
        return False
    for i, (g, o) in enumerate(zip(flat, orig['data'])):
        if exact and ratio == 1 and orig['dt'] in 'fi':
            if orig['dt'] == 'i' and not keep_dtype:
                same = g == o               # ('scaled' in Atoms.model alone: a division by 1, integers become floats)
            else:
                same = _same_bits(g, float(o) if orig['dt'] == 'f' else int(o))
            if not same:
                ctx.violate(key + ':exact', f'{what}: element {i} written as {o!r} without a unit (nothing to convert) '
                            f'read back as {g!r}', rp)
                return False
            continue
        want = Fraction(o) * ratio
        try:
            ok = _expect_close(g, want, rtol, atol)
        except (TypeError, ValueError, OverflowError):
            ok = False
        if not ok:
            ctx.violate(key + ':value', f'{what}: element {i} read back as {g!r}, expected {float(want)!r} '
                        f'(written {o!r}, working-unit ratio {float(ratio)!r})', rp)
            return False
    return True


def _ratio(r: RealRun, unit):
    """physical round trip: value written as x/fW and read as (x/fW)*fR."""
    if unit is None or unit == 'scaled':
        return Fraction(1)
    return Fraction(r.fR[unit]) / Fraction(r.fW[unit])


XML_SINGLETON_KEY = 'uc:xml:length-1-vector-read-as-scalar'


def _xml_singleton(ctx, case, tag):
    """Consequence of the XML codec (assumption 2), compensated by Atoms/System (broadcast to natoms) but
    visible on uc.value_unit alone: a genuine violation of the "array shapes" clause, recorded as an open
    finding in known_findings.json under this key (see DESIGN.md section 7.4)."""
    ctx.violate(XML_SINGLETON_KEY, f'{tag}: shape (1,) written, () read back from XML text', {'case': case})


def _inv3(V):
    (a, b, c), (d, e, f), (g, h, i) = V
    det = a * (e * i - f * h) - b * (d * i - f * g) + c * (d * h - e * g)
    adj = [[e * i - f * h, c * h - b * i, b * f - c * e],
           [f * g - d * i, a * i - c * g, c * d - a * f],
           [d * h - e * g, b * g - a * h, a * e - b * d]]
    return [[x / det for x in row] for row in adj]


def _norm_ok(got, want, rtol, extra=Fraction(0)):
    scale = max([abs(x) for x in want] + [extra])
    for a, b in zip(got, want):
        a = float(a)
        if a != a or abs(a) == float('inf') or abs(Fraction(a) - b) > Fraction(rtol) * scale:
            return False
    return len(list(got)) == len(want)


def oracle_obj(ctx, case, r):
    """the object session against an exact (Fraction) account of the cell, origin and positions: after every
    operation the object must answer as a Box / System freshly constructed from the current values would."""
    F = Fraction
    if r.write_error is not None:
        ctx.violate('obj:create:raises', f'constructing the System/Box objects raised {r.write_error}', {'case': case})
        return False
    V = clean_cell(case['box']['vects'])        # what the Box holds after its setter
    o = [F(x) for x in case['box']['origin']]
    pos = [F(x) for x in case['pos']]
    hist = []
    for i, (op, real, fac) in enumerate(zip(case['ops'], r.extra['outs'], r.extra['facs'])):
        name = op['op']
        hist.append(name)
        if op.get('swap'):
            hist[-1] += ' (written under the second configuration)'
        tag = f"object session (write {case['w1']}, read {case['w2']}), after {' > '.join(hist)}"
        rp = {'case': case, 'failed_op': i}
        if 'error' in real:
            ctx.violate(f'obj:{name}:raises', f"{tag}: raised {real['error']}", rp)
            return False
        ratio = F(fac[1]) / F(fac[0])
        rt = TOL0 + 2 * unit_ulps(op.get('unit')) * 2.0 ** -53
        if name == 'warm':
            inv = _inv3(V)
            want = [inv[c][rw] for rw in range(3) for c in range(3)]        # inv(vects).T, row-major
            if not _norm_ok(_flat(real['recip']), want, OBJ_RTOL):
                ctx.violate('obj:reciprocal', f"{tag}: reciprocal_vects {real['recip']} are not those of the current "
                            f"cell {[[float(x) for x in row] for row in V]}", rp)
                return False
        elif name == 'c2r':
            inv = _inv3(V)
            d = [F(x) - y for x, y in zip(op['p'], o)]
            want = [sum(d[k] * inv[k][c] for k in range(3)) for c in range(3)]
            if not _norm_ok(real['rel'], want, OBJ_RTOL):
                ctx.violate('obj:cartesian-to-relative', f"{tag}: position_cartesian_to_relative({op['p']}) = {real['rel']}, "
                            f"a Box freshly built from the same vects/origin gives {[float(x) for x in want]}", rp)
                return False
        elif name == 'r2c':
            want = [sum(F(op['p'][k]) * V[k][c] for k in range(3)) + o[c] for c in range(3)]
            if not _norm_ok(real['cart'], want, 1e-14, max(abs(x) for x in o)):
                ctx.violate('obj:relative-to-cartesian', f"{tag}: position_relative_to_cartesian({op['p']}) = {real['cart']}, "
                            f"expected {[float(x) for x in want]}", rp)
                return False
        elif name == 'setp':
            pos[op['at']] = F(op['v'])
            if [F(x) for x in real['pos']] != pos:
                ctx.violate('obj:setp', f"{tag}: positions {real['pos']} after an in-place edit", rp)
                return False
        else:
            if name == 'setv':
                V = clean_cell(op['m'])
            elif name == 'seto':
                o = [F(x) for x in op['o']]
            elif name == 'bread':
                V = [[x * ratio for x in row] for row in clean_cell(op['box']['vects'])]
                o = [F(x) * ratio for x in op['box']['origin']]
            if name == 'bdump':
                b = real['box']
                gotb = [b['avect'], b['bvect'], b['cvect'], b['origin']]
                wantb = [[x * ratio for x in row] for row in V + [o]]
            elif name == 'sysdump':
                bx = real['read'].box
                gotb = [bx.avect.tolist(), bx.bvect.tolist(), bx.cvect.tolist(), bx.origin.tolist()]
                wantb = [[x * ratio for x in row] for row in V + [o]]
            else:
                b = real['box']
                gotb = [b['avect'], b['bvect'], b['cvect'], b['origin']]
                wantb = V + [o]
            for g, w in zip(_flat(gotb), _flat(wantb)):
                if not _expect_close(g, w, rt, 0):
                    ctx.violate(f'obj:{name}:cell', f'{tag}: cell/origin {gotb} (in the units read), the object has '
                                f'{[[float(x) for x in row] for row in wantb]}', rp)
                    return False
            if name == 'sysdump':
                got = real['read'].atoms.pos
                if list(got.shape) != [case['natoms'], 3]:
                    ctx.violate('obj:sysdump:shape', f'{tag}: positions of shape {list(got.shape)} read back', rp)
                    return False
                want = [x * ratio for x in pos]
                cell = max(abs(x) for x in _flat(wantb))
                if not _norm_ok(got.flatten().tolist(), want, OBJ_RTOL, cell):
                    ctx.violate('obj:sysdump:scaled-positions', f'{tag}: System written with box-scaled positions and read '
                                f'back has Cartesian positions {got.flatten().tolist()}, the object had '
                                f'{[float(x) for x in want]} (in the units read)', rp)
                    return False
    return True


SIDE_WHAT = {
    'write-twice': 'two writes of an unchanged object must agree and share nothing with each other',
    'write-modifies-object': 'writing must not modify the object',
    'arguments-modified': 'writing must not modify its arguments',
    'input-modified': 'writing must not modify its input',
    'read-modifies-tree': 'reading must not modify the tree it is given',
}


def oracle_refusal(ctx, case, r):
    x = r.extra
    tag = f"refusal {case['which']} ({case['via']}, {case['natoms']} atoms)"
    if x.get('raised') is None:
        ctx.violate(f"refuse:{case['which']}:accepted", f"{tag}: the call is documented to raise {x.get('expect')} but returned "
                    f"{x.get('returned')}", {'case': case})
        return False
    if not x.get('ok'):
        ctx.violate(f"refuse:{case['which']}:class", f"{tag}: raised {x['raised']} ({x.get('message')}), documented: {x['expect']}",
                    {'case': case})
        return False
    return True


def oracle(ctx, case, r: RealRun):
    """property clauses for one case; True when everything held.  Looking at what was read back (its natoms, property
    table, symbols ...) runs code of the implementation: an exception there is an observation about the object that
    was read, reported as such."""
    try:
        return _oracle(ctx, case, r)
    except Exception as e:  # noqa
        import traceback
        where = traceback.extract_tb(e.__traceback__)[-1]
        ctx.violate(f"{case['kind']}:{case.get('via')}:observation-raises",
                    f"{case['kind']} via {case.get('via')} (write {case.get('w1')}, read {case.get('w2')}): looking at what was "
                    f"read back raised {type(e).__name__}: {e} (at {where.name}: {where.line}); the object read back is "
                    f"not a working {'Atoms / System' if case['kind'] in ('atoms', 'sys') else 'object'}", {'case': _root(case)})
        return False


def _oracle(ctx, case, r: RealRun):
    if case['kind'] == 'obj':
        return oracle_obj(ctx, case, r)
    if case['kind'] == 'refuse':
        return oracle_refusal(ctx, case, r)
    import numpy as np
    k, via = case['kind'], case['via']
    rp = {'case': _root(case)}
    tag = f"{k} via {via} (write {case['w1']}, read {case['w2']})"
    if k in ('uc', 'box', 'ec'):
        tag += f" stored in unit {case['unit']!r}"
    if k in ('atoms', 'sys') and case.get('call') not in (None, 'prop_unit'):
        tag += ' [units handed over as ' + {'lists': 'prop_name= and unit= lists', 'units': 'a unit= list alone', 'names':
                                             'a prop_name= list alone', 'default': 'nothing (defaults)'}[case['call']] \
            + (', positionally' if case.get('positional') and via == 'tree' else '') + ']'
    if k in ('atoms', 'sys') and case.get('argform', 'list') != 'list':
        tag += f" [arguments as {case['argform']}]"
    if k == 'sys' and case.get('cont', 'list') != 'list':
        tag += f" [symbols / masses / pbc given as {case['cont']}]"
    if 'compact' in case or 'compact' in case.get('second_of', {}):
        tag += (f" [{case['natoms']} atoms]" if k != 'uc' else f" [value of shape {tuple(case['arr']['shape'])}]")
    if 'second_of' in case:
        tag += ' [second dump of the same object, after in-place edits ' + json.dumps(case['second_of']['again'])[:160] + ']'
    if k == 'ec' and case['cs'] not in EC_SYSTEMS and (r.write_error or '').startswith('ValueError: Invalid crystal_system'):
        return True         # the documented refusal of a crystal system normalized_as does not know
    ok = True
    for key, msg in r.side:
        ctx.violate(f'{k}:{via}:{key}', f'{tag}: {msg} ({SIDE_WHAT[key]})', rp)
        ok = False
    for stage, e in (('write', r.write_error), ('text', r.text_error), ('read', r.read_error)):
        if e is not None:
            ctx.violate(f'{k}:{via}:{stage}-raises', f'{tag}: {stage} raised {e}', rp)
            return False
    rt = _tol(case)[0]
    if k == 'uc':
        u = case['unit']
        arr = case['arr']
        if via == 'xml' and arr['shape'] == [1] and np.asarray(r.read).shape == ():
            # XML has no one-element lists (<value>x</value> is a scalar): uc.model writes no 'shape' for rank 1,
            # so a length-1 vector is read back from XML text as a scalar.  Values are still checked.
            _xml_singleton(ctx, case, tag)
            arr = dict(arr, shape=[])
        ok &= _check_array(ctx, f'uc:{via}', tag, case, r.read, arr, _ratio(r, u), rt, 0,
                           keep_dtype=u is None, exact=u is None)
        if 'eread_error' in r.extra:
            ctx.violate(f'uc:{via}:error-raises', f"{tag}: value with error raised {r.extra['eread_error']}", rp)
            ok = False
        elif 'eread' in r.extra:
            ok &= _check_array(ctx, f'uc:{via}:with-error', tag + ' value stored with an error', case, r.extra['eread'][0],
                               arr, _ratio(r, u), rt, 0, keep_dtype=False, exact=u is None)
            ok &= _check_array(ctx, f'uc:{via}:error', tag + ' error', case, r.extra['eread'][1],
                               dict(arr, data=case['err']), _ratio(r, u), rt, 0, keep_dtype=False, exact=u is None)
        if ok and u not in (None, 'scaled') and case['arr']['dt'] in 'fi':
            # the physical value (expressed in the stored unit) is the same under both configurations
            phys = np.asarray(r.read, dtype=float).flatten() / r.fR[u]
            for g, o in zip(phys.tolist(), case['arr']['data']):
                if not _expect_close(g, Fraction(o) / Fraction(r.fW[u]), 2 * rt, 0):
                    ctx.violate(f'uc:{via}:physical', f'{tag}: value in {u} is {g!r} after reading, '
                                f'{o / r.fW[u]!r} when written', rp)
                    ok = False
                    break
        return ok
    if k == 'box':
        rb = Fraction(1) if case['unit'] is None else _ratio(r, case['unit'])
        cell = [float(x) for row in clean_cell(case['box']['vects']) for x in row]     # after the documented clean-up
        for what, box, ratio in (('', r.read, rb), (' [same Box object written again under the reading configuration, read '
                                                    'under the writing one]', r.extra.get('swapped'), 1 / rb)):
            if box is None:
                continue
            for name, got, flat in (('vects', box.vects, cell), ('origin', box.origin, case['box']['origin'])):
                ok &= _check_array(ctx, f'box:{via}:{name}', f'{tag} box {name}{what}', case, np.asarray(got).flatten(),
                                   {'dt': 'f', 'shape': [len(flat)], 'data': flat}, ratio, rt, 0, False, exact=case['unit'] is None)
        if 'swapped_error' in r.extra:
            ctx.violate(f'box:{via}:again-raises', f"{tag}: writing the same Box again raised {r.extra['swapped_error']}", rp)
            ok = False
        return ok
    if k == 'ec':
        rc = _ratio(r, case['unit'])
        cs, form = case['cs'], case.get('form', 'triclinic')
        mx = max(abs(x) for x in r.extra['C']) * float(rc)
        # the averages of normalized_as are exact on the dyadic grid and within a few ulp of the largest constant
        # elsewhere; the 'isotropic' estimates go through the inverse 6x6 array (condition number < 1e3)
        atol = (1e-12 if cs == 'isotropic' else 4 * rt) * mx
        if cs in EC_INFORM.get(form, ()):
            # a crystal already in the normal form of `cs`: the constants come back unchanged
            ok &= _check_array(ctx, f'ec:{via}:{cs}', f"{tag} Cij of a {form} crystal stored as {cs}", case, r.read.Cij,
                               {'dt': 'f', 'shape': [6, 6], 'data': [x for row in clean_cij(case['C']) for x in row]}, rc, 2 * rt, atol, False)
        if 'existing_error' in r.extra:
            ctx.violate(f'ec:{via}:existing-raises', f"{tag}: reading the model into an existing ElasticConstants raised "
                        f"{r.extra['existing_error']}", rp)
            ok = False
        elif 'existing' in r.extra and (r.extra['existing'][0] != r.read.Cij.flatten().tolist()
                                        or r.extra['existing'][1] != r.extra['fresh_S']):
            ctx.violate(f'ec:{via}:existing', f'{tag}: ec.model(model=...) on an existing object gives Cij/Sij different '
                        f'from ElasticConstants(model=...)', rp)
            ok = False
        if 'read2_error' in r.extra:
            ctx.violate(f'ec:{via}:{cs}:second-raises', f"{tag}: storing the constants read back as {cs} again raised "
                        f"{r.extra['read2_error']}", rp)
            ok = False
        elif ok:
            got = r.read.Cij.flatten().tolist()
            # (the tensor that is normalised the second time is the one read back: for 'isotropic' its Hill estimates
            # can be much larger than the original constants when the original is nearly singular)
            atol2 = atol if cs != 'isotropic' else 1e-12 * max(mx, max(abs(x) for x in got))
            ok &= _check_array(ctx, f'ec:{via}:{cs}:second', f'{tag} Cij read back, stored as {cs} and read again', case,
                               np.array(r.extra['read2']).reshape(6, 6), {'dt': 'f', 'shape': [6, 6], 'data': got},
                               Fraction(1), 2 * rt, atol2, False)
        return ok
    atoms = r.read if k == 'atoms' else r.read.atoms
    loose = _loose(case)
    rL = Fraction(1)
    if k == 'sys':
        bu = case['box_unit']
        rL = _ratio(r, bu)
        ov = case.get('override') or {}
        flatv = [float(x) for row in clean_cell(case['box']['vects']) for x in row]    # after the documented clean-up
        ok &= _check_array(ctx, f'sys:{via}:cell', f'{tag} cell', case, r.read.box.vects.flatten(),
                           {'dt': 'f', 'shape': [9], 'data': flatv}, rL, rt, 0, False, exact=bu is None)
        ok &= _check_array(ctx, f'sys:{via}:origin', f'{tag} origin', case, r.read.box.origin,
                           {'dt': 'f', 'shape': [3], 'data': case['box']['origin']}, rL, rt, 0, False, exact=bu is None)
        pbc = r.read.pbc
        want_pbc = list(ov.get('pbc', case['pbc']))
        if pbc.dtype.kind != 'b' or [bool(b) for b in pbc] != want_pbc:
            ctx.violate(f'sys:{via}:pbc', f"{tag}: pbc {pbc!r} read back, {want_pbc} " +
                        ('given to the reader (pbc=)' if 'pbc' in ov else 'written'), rp)
            ok = False
        ntypes = max(case['props'][0]['data'])
        want_sym = list(case['symbols']) + [None] * max(0, ntypes - len(case['symbols']))
        if 'symbols' in ov:
            want_sym = [ov['symbols']] if isinstance(ov['symbols'], str) else list(ov['symbols'])
        if list(r.read.symbols) != want_sym or not all(s is None or isinstance(s, str) for s in r.read.symbols):
            ctx.violate(f'sys:{via}:symbols', f'{tag}: symbols {r.read.symbols!r} read back, {want_sym} ' +
                        ('given to the reader (symbols=)' if 'symbols' in ov else 'written'), rp)
            ok = False
        want_m = list(case['masses']) + [None] * max(0, len(want_sym) - len(case['masses']))
        if 'masses' in ov:
            want_m = list(ov['masses'])
        got_m = list(r.read.masses)
        if len(got_m) != len(want_m) or any((a is None) != (b is None) or (a is not None and (a != b or type(a) is not float))
                                            for a, b in zip(got_m, want_m)):
            ctx.violate(f'sys:{via}:masses', f'{tag}: masses {got_m} read back, {want_m} ' +
                        ('given to the reader (masses=)' if 'masses' in ov else 'written') +
                        (f" (handed to the System as {case['mass_form']})" if case.get('mass_form') else ''), rp)
            ok = False
    if atoms.natoms != case['natoms']:
        ctx.violate(f'{k}:{via}:natoms', f"{tag}: natoms {atoms.natoms} read back, {case['natoms']} written", rp)
        return False
    eprops = case['props']
    if case.get('sel') is not None:
        # a selection: atype and pos first (the constructor's defaults when not selected), then the others in order
        byname = {p['name']: p for p in case['props']}
        units = {e['name']: e['unit'] for e in case['sel']}
        n = case['natoms']
        eprops = [dict(byname['atype'], unit=units['atype']) if 'atype' in units else
                  {'name': 'atype', 'unit': None, 'dt': 'i', 'shape': [n], 'data': [1] * n},
                  dict(byname['pos'], unit=units['pos']) if 'pos' in units else
                  {'name': 'pos', 'unit': None, 'dt': 'f', 'shape': [n, 3], 'data': [0.0] * (3 * n), 'default': True}]
        eprops += [dict(byname[e['name']], unit=e['unit']) for e in case['sel'] if e['name'] not in ('atype', 'pos')]
    names = [p['name'] for p in eprops]
    if _pnames(atoms) != names:
        ctx.violate(f'{k}:{via}:properties', f'{tag}: properties {_pnames(atoms)} read back, {names} written', rp)
        return False
    hidden = _shadowed(atoms)
    if hidden:
        ctx.violate(f'{k}:{via}:object-attributes', f'{tag}: the Atoms object read back has instance attributes {hidden} '
                    f'that hide the methods / attributes of the class of the same name (atoms.{hidden[0]} is now '
                    f'{type(getattr(atoms, hidden[0], None)).__name__}): what is read back must be a working Atoms object '
                    f'whose per-atom data are in its property table', rp)
        ok = False
    for p in eprops:
        eu = None if p.get('default') else eff_unit(p['name'], p['unit'])
        if eu == 'scaled' and k == 'sys':
            ok &= _check_array(ctx, f'sys:{via}:scaled', f"{tag} scaled property {p['name']}", case, atoms.view[p['name']],
                               p, rL, loose[0], loose[1] * float(rL), False)
        else:
            ok &= _check_array(ctx, f"{k}:{via}:property", f"{tag} property {p['name']!r} (unit {eu})", case,
                               atoms.view[p['name']], p, _ratio(r, eu), rt, 0, keep_dtype=eu is None,
                               exact=eu is None or (eu == 'scaled' and k == 'atoms'))
    return ok


# cases every run looks at, whatever the seed (the first is the open finding uc:xml:length-1-vector-read-as-scalar)
FIXED_CASES = [
    {'kind': 'uc', 'via': 'xml', 'w1': 'default', 'w2': 'nm-g-ps', 'unit': 'angstrom',
     'arr': {'dt': 'f', 'shape': [1], 'data': [5.0], 'form': 'c'}},
    {'kind': 'uc', 'via': 'json', 'w1': 'time-ps', 'w2': 'default', 'unit': 'm/s',
     'arr': {'dt': 'f', 'shape': [2], 'data': [100.0, -200.0], 'form': 'c'}},
]


def search(ctx, broken):
    rng = random.Random(ctx.seed * 7919 + 10)
    N = ctx.n(800, 6000) * (3 if broken else 1)
    # first the cases on which model and implementation disagreed
    pending = [d.replay['case'] for d in ctx.disagreements if isinstance(d.replay, dict) and 'case' in d.replay]
    try:
        for case in pending:
            case = _full(case)
            r = run_real(case)
            for c, rr in generations(case, r):
                oracle(ctx, c, rr)
        bigs = _big_cases(random.Random(ctx.seed * 15485863 + 11), ctx.thorough or broken)
        for case in FIXED_CASES + bigs + list(_cases(rng, N)):
            case = _full(case)
            r = run_real(case)
            for c, rr in generations(case, r):
                oracle(ctx, c, rr)
            ctx.stats.case(f"oracle:{case['kind']}:{case['via']}", json.dumps(_root(case), sort_keys=True, default=str),
                           nontrivial=_nontrivial(case))
    finally:
        restore_units()
    search_legacy(ctx, ctx.n(120, 1000) * (3 if broken else 1))


def replay(ctx, payload):
    rp = payload.get('replay', {})
    cases = []
    legacy = ([rp['legacy']] if 'legacy' in rp else []) + [d['legacy'] for d in payload.get('disagreements', []) or []
                                                          if isinstance(d, dict) and 'legacy' in d]
    if legacy:
        try:
            for case in legacy:
                got, err, fR = run_legacy(case)
                print('replay', json.dumps(case), '->', err if got is None else got)
                if ctx.driver is not None:
                    diffs = legacy_diffs(case, got, err, ctx.driver.ask(legacy_line(case, fR)))
                    for d in diffs or []:
                        print('  model/implementation:', d)
                    if diffs:
                        ctx.disagree(f"ecl:{case['via']}", '; '.join(diffs), {'legacy': case})
                oracle_legacy(ctx, case)
        finally:
            restore_units()
        if not ('case' in rp or any(isinstance(d, dict) and 'case' in d for d in payload.get('disagreements', []) or [])):
            return
    if 'case' in rp:
        cases.append(rp['case'])
    for d in payload.get('disagreements', []) or []:
        if isinstance(d, dict) and 'case' in d:
            cases.append(d['case'])
    if not cases:
        correspond(ctx)
        search(ctx, True)
        return
    try:
        for case in cases:
            case = _full(_root(case))
            r = run_real(case)
            for c, rr in generations(case, r):
                print('replay', json.dumps(_brief(c), default=str))
                print('  write_error', rr.write_error, 'text_error', rr.text_error, 'read_error', rr.read_error, 'side', rr.side)
                if ctx.driver is not None and in_model(c) and _writable(c, rr):
                    line = request_line(c, rr)
                    diffs = compare(c, rr, ctx.driver.ask(line))
                    if err_line(c, rr) is not None:
                        diffs += compare_err(c, rr, ctx.driver.ask(err_line(c, rr)))
                    for d in diffs[:10]:
                        print('  model/implementation:', d)
                    if diffs:
                        ctx.disagree(f"{c['kind']}:{c['via']}", '; '.join(diffs[:3]), {'case': case})
                oracle(ctx, c, rr)
    finally:
        restore_units()



# ----------------------------------------------------------------------------------------
# translator (round 5): the writers / readers of the five anchored files -> lean/Atomman/Generated/ModelSource.lean
#
# Everything below walks the `ast` of /repo's CURRENT source.  What is extracted: signatures and defaults, the keys
# each writer stores (in order, with the guard of each store and how the value is packed), the keys each reader
# looks up (in order of first access, with the default of `.get`), the `find` / `aslist` roots, which keyword is
# handed through to which, the near-zero tolerances of the two setters, the branch structure of the argument
# handling of `Atoms.model`, and - as Lean EXPRESSIONS - the 36 entries `normalized_as(cs)` hands to the `Cij` setter
# (the `c_dict` formulas of each branch run through `ElasticConstants.__init__` and the crystal-system constructor it
# dispatches to, by a partial evaluator with concrete control (which keywords are present) and symbolic values).
# `Proofs/C10_Source.lean` proves each generated definition equal to the hand model's (`gen_..._eq_model`), or the
# model's behaviour on ALL inputs equal to what the generated definition says (`..._keys`, `..._reads_only`).
# A source whose statements do not have the expected form raises TranslationError (-> broken tie -> failing-input
# search), never a silent pass.
# ----------------------------------------------------------------------------------------
GENERATED = ['ModelSource']


def _TE(msg):
    from ..translate import TranslationError
    return TranslationError(msg)


def _u_(node):
    import ast
    return ast.unparse(node)


def _find_def(tree, name, cls=None, deco=None):
    """the FunctionDef `name` (inside class `cls`; with decorator text `deco`, e.g. 'vects.setter' / 'property')."""
    import ast
    scope = tree.body
    if cls is not None:
        cs = [n for n in tree.body if isinstance(n, ast.ClassDef) and n.name == cls]
        if len(cs) != 1:
            raise _TE(f'class {cls} not found exactly once')
        scope = cs[0].body
    out = []
    for n in scope:
        if isinstance(n, ast.FunctionDef) and n.name == name:
            decs = [_u_(d) for d in n.decorator_list]
            if deco is None and not decs:
                out.append(n)
            elif deco is not None and decs == [deco]:
                out.append(n)
    if len(out) != 1:
        raise _TE(f'{cls or ""}.{name} [{deco}] not found exactly once ({len(out)})')
    return out[0]


def _body(fn):
    from ..translate import strip_doc
    return strip_doc(fn.body)


def _params(fn, skip_self=True):
    """[(name, default text or None)] of the positional-or-keyword parameters."""
    a = fn.args
    if a.vararg is not None or a.kwonlyargs or a.posonlyargs:
        raise _TE(f'{fn.name}: unexpected parameter kinds')
    names = [x.arg for x in a.args]
    defs = [None] * (len(names) - len(a.defaults)) + [_u_(d) for d in a.defaults]
    ps = list(zip(names, defs))
    if skip_self and ps and ps[0][0] == 'self':
        ps = ps[1:]
    return ps, (a.kwarg.arg if a.kwarg is not None else None)


def _ls(s):
    return '"' + s.replace('\\', '\\\\').replace('"', '\\"') + '"'


def _lopt(s):
    return 'none' if s is None else f'(some {_ls(s)})'


def _llist(items):
    return '[' + ', '.join(items) + ']'


def _lparams(ps):
    return _llist(f'({_ls(n)}, {_lopt(d)})' for n, d in ps)


def _is_sub(node, base=None):
    """`X['key']` -> (X node, key) else None."""
    import ast
    if isinstance(node, ast.Subscript) and isinstance(node.slice, ast.Constant) and isinstance(node.slice.value, str):
        if base is None or _u_(node.value) == base:
            return node.value, node.slice.value
    return None


def _expect(cond, msg):
    if not cond:
        raise _TE(msg)


def _assign(st):
    import ast
    if isinstance(st, ast.Assign) and len(st.targets) == 1:
        return st.targets[0], st.value
    return None


# ---- unitconvert.model ---------------------------------------------------------------------------------------------

def _pack_kind(node, var):
    t = _u_(node)
    table = {f'{var}.item()': 'item', f'{var}.tolist()': 'tolist', f'{var}.flatten().tolist()': 'flat',
             'list(shape)': 'shape'}
    if t not in table:
        raise _TE(f'uc.model: unknown packing {t}')
    return table[t]


def _tr_uc_model(tree):
    import ast
    fn = _find_def(tree, 'model')
    ps, kw = _params(fn)
    _expect([p[0] for p in ps] == ['value', 'units', 'error'] and kw is None, 'uc.model: parameters')
    b = _body(fn)
    _expect(len(b) == 6, f'uc.model: {len(b)} statements')
    _expect(_u_(b[0]) == 'datamodel = DM()', 'uc.model: datamodel = DM()')
    _expect(isinstance(b[1], ast.If) and _u_(b[1].test) == 'units is not None'
            and [_u_(s) for s in b[1].body] == ['value = get_in_units(value, units)']
            and [_u_(s) for s in b[1].orelse] == ['value = np.asarray(value)'], 'uc.model: value conversion')
    _expect(isinstance(b[2], ast.If) and _u_(b[2].test) == 'error is not None' and not b[2].orelse
            and [_u_(s) for s in b[2].body] == ['error = get_in_units(error, units)'], 'uc.model: error conversion')
    # the rank chain
    branches = []          # (rank or None for else, [(key, guard, pack)])
    node = b[3]
    while True:
        _expect(isinstance(node, ast.If), 'uc.model: rank chain')
        t = node.test
        _expect(isinstance(t, ast.Compare) and _u_(t.left) == 'value.ndim' and len(t.ops) == 1
                and isinstance(t.ops[0], ast.Eq) and isinstance(t.comparators[0], ast.Constant)
                and isinstance(t.comparators[0].value, int), f'uc.model: rank test {_u_(t)}')
        branches.append((t.comparators[0].value, _uc_branch(node.body)))
        if len(node.orelse) == 1 and isinstance(node.orelse[0], ast.If):
            node = node.orelse[0]
            continue
        branches.append((None, _uc_branch(node.orelse)))
        break
    _expect(isinstance(b[4], ast.If) and _u_(b[4].test) == 'units is not None' and not b[4].orelse
            and len(b[4].body) == 1, 'uc.model: unit entry')
    tgt, val = _assign(b[4].body[0]) or (None, None)
    s = _is_sub(tgt, 'datamodel') if tgt is not None else None
    _expect(s is not None and _u_(val) == 'units', 'uc.model: unit entry store')
    unit_key = s[1]
    _expect(_u_(b[5]) == 'return datamodel', 'uc.model: return')

    def keys_expr(evs):
        segs = []
        for key, guard, _ in evs:
            segs.append(f'[{_ls(key)}]' if guard is None else f'(if hasError then [{_ls(key)}] else [])')
        return ' ++ '.join(segs) if segs else '[]'

    def chain(f):
        s = ''
        for rank, evs in branches:
            s += (f'if ndim = {rank} then {f(evs)} else ' if rank is not None else f(evs))
        return s

    def pack_of(which):
        def f(evs):
            ks = [p for k, g, p in evs if k == which]
            _expect(len(ks) == 1, f'uc.model: {which} stored {len(ks)} times in a branch')
            return _ls(ks[0])
        return f

    def has_shape(evs):
        return 'true' if any(k == 'shape' for k, g, p in evs) else 'false'
    L = []
    L.append('/-! ### `unitconvert.model` -/')
    L.append(f'def ucModelParams : List (String × Option String) := {_lparams(ps)}')
    L.append('/-- the keys `uc.model` stores, in order, by rank of the value, `error is not None`, `units is not None`. -/')
    L.append('def ucModelKeys (ndim : Nat) (hasError hasUnits : Bool) : List String :=\n  ('
             + chain(keys_expr) + f') ++ (if hasUnits then [{_ls(unit_key)}] else [])')
    L.append('/-- how the `value` entry is packed (`item` = `.item()`, `tolist` = `.tolist()`, `flat` = `.flatten().tolist()`). -/')
    L.append('def ucModelPack (ndim : Nat) : String := ' + chain(pack_of('value')))
    L.append('def ucModelPackError (ndim : Nat) : String := ' + chain(pack_of('error')))
    L.append('/-- whether `list(value.shape)` is stored under `shape`. -/')
    L.append('def ucModelStoresShape (ndim : Nat) : Bool := ' + chain(has_shape))
    return L


def _uc_branch(stmts):
    import ast
    evs = []
    for st in stmts:
        if _u_(st) == 'shape = value.shape':
            continue
        if isinstance(st, ast.If):
            _expect(_u_(st.test) == 'error is not None' and not st.orelse and len(st.body) == 1,
                    'uc.model: guard inside a rank branch')
            tgt, val = _assign(st.body[0]) or (None, None)
            s = _is_sub(tgt, 'datamodel') if tgt is not None else None
            _expect(s is not None, 'uc.model: guarded store')
            evs.append((s[1], 'error', _pack_kind(val, 'error')))
            continue
        tgt, val = _assign(st) or (None, None)
        s = _is_sub(tgt, 'datamodel') if tgt is not None else None
        _expect(s is not None, f'uc.model: statement {_u_(st)}')
        evs.append((s[1], None, _pack_kind(val, 'value')))
    return evs


# ---- readers: the keys looked up in a term, in order of first access ------------------------------------------------

def _reads(fn, var):
    """(key, how) for every access to `var` in source order: 'get:<default>' / 'index' / 'in' / 'aslist' / 'find'."""
    import ast
    out = []

    class V(ast.NodeVisitor):
        def visit_Subscript(self, n):
            s = _is_sub(n, var)
            if s is not None and isinstance(n.ctx, ast.Load):
                out.append((n.lineno, n.col_offset, s[1], 'index'))
            self.generic_visit(n)

        def visit_Call(self, n):
            f = n.func
            if isinstance(f, ast.Attribute) and _u_(f.value) == var and n.args and isinstance(n.args[0], ast.Constant) \
                    and isinstance(n.args[0].value, str):
                if f.attr == 'get':
                    d = _u_(n.args[1]) if len(n.args) > 1 else 'None'
                    out.append((n.lineno, n.col_offset, n.args[0].value, 'get:' + d))
                elif f.attr in ('aslist', 'find', 'pop', 'finds'):
                    out.append((n.lineno, n.col_offset, n.args[0].value, f.attr))
            self.generic_visit(n)

        def visit_Compare(self, n):
            if len(n.ops) == 1 and isinstance(n.ops[0], (ast.In, ast.NotIn)) and _u_(n.comparators[0]) == var \
                    and isinstance(n.left, ast.Constant) and isinstance(n.left.value, str):
                out.append((n.lineno, n.col_offset, n.left.value, 'in'))
            self.generic_visit(n)
    for st in fn if isinstance(fn, list) else _body(fn):
        V().visit(st)
    out.sort()
    return [(k, h) for _, _, k, h in out]


def _first_keys(reads):
    seen = []
    for k, _ in reads:
        if k not in seen:
            seen.append(k)
    return seen


def _tr_value_unit(tree):
    import ast
    L = ['/-! ### `unitconvert.value_unit` / `error_unit` -/']
    fv = _find_def(tree, 'value_unit')
    fe = _find_def(tree, 'error_unit')
    for fn in (fv, fe):
        ps, kw = _params(fn)
        _expect([p[0] for p in ps] == ['term'] and kw is None, f'{fn.name}: parameters')
    b = _body(fv)
    want = ["unit = term.get('unit', None)",
            "if unit is None:\n    value = np.asarray(term['value'])\nelse:\n    value = set_in_units(term['value'], unit)",
            "if 'shape' in term:\n    shape = tuple(term['shape'])\n    value = value.reshape(shape)",
            'return value']
    got = [_u_(s) for s in b]
    _expect(got == want, 'value_unit: statements ' + repr(got))
    # error_unit = value_unit with 'error' in the place of 'value'

    class R(ast.NodeTransformer):
        def visit_Name(self, n):
            return ast.copy_location(ast.Name('value' if n.id == 'error' else n.id, n.ctx), n)

        def visit_Constant(self, n):
            return ast.copy_location(ast.Constant('value' if n.value == 'error' else n.value), n)
    rv = _reads(fv, 'term')
    re_ = _reads(fe, 'term')
    import copy
    gote = [_u_(ast.fix_missing_locations(R().visit(copy.deepcopy(s)))) for s in _body(fe)]
    _expect(gote == want, 'error_unit is not value_unit on the error entry: ' + repr(gote))
    L.append('/-- the keys `value_unit` looks up in the term, in order of first access. -/')
    L.append('def valueUnitReads : List String := ' + _llist(_ls(k) for k in _first_keys(rv)))
    L.append('def errorUnitReads : List String := ' + _llist(_ls(k) for k in _first_keys(re_)))
    L.append('/-- every access `(key, how)`: `get:<default>`, `index` (KeyError when absent), `in`. -/')
    L.append('def valueUnitAccess : List (String × String) := ' + _llist(f'({_ls(k)}, {_ls(h)})' for k, h in rv))
    L.append('/-- `unit is None` -> `np.asarray(term[value])`, else `set_in_units(term[value], unit)`; `shape` in the '
             'term -> `reshape(tuple(term[shape]))` (statement-for-statement match of both functions). -/')
    L.append('def valueUnitShape : Bool := true')
    # get_in_units / set_in_units: straight-line
    fg = _find_def(tree, 'get_in_units')
    fs = _find_def(tree, 'set_in_units')
    _expect([_u_(s) for s in _body(fg)] == ['units = parse(units)', 'return np.asarray(value) / units'], 'get_in_units')
    _expect([_u_(s) for s in _body(fs)] == ['units = parse(units)', 'return np.asarray(value) * units'], 'set_in_units')
    L.append('/-- `get_in_units` = `np.asarray(value) / parse(units)`, `set_in_units` = `np.asarray(value) * parse(units)`. -/')
    L.append('def getInUnitsOp : String := "/"')
    L.append('def setInUnitsOp : String := "*"')
    return L


# ---- Box.model / vects setter ----------------------------------------------------------------------------------------

def _model_halves(fn, who):
    """the `if model is not None: <read> else: <write>` halves of a .model method."""
    import ast
    b = _body(fn)
    _expect(len(b) == 1 and isinstance(b[0], ast.If) and _u_(b[0].test) == 'model is not None' and b[0].orelse,
            f'{who}.model: if model is not None / else')
    return b[0].body, b[0].orelse


def _tr_box(tree):
    import ast
    L = ['/-! ### `Box.model`, `Box.set`, `vects` setter -/']
    fn = _find_def(tree, 'model', 'Box')
    ps, kw = _params(fn)
    _expect([p[0] for p in ps] == ['model', 'length_unit'] and kw is None, 'Box.model: parameters')
    rd, wr = _model_halves(fn, 'Box')
    # writer
    _expect(_u_(wr[0]) == 'model = DM()' and _u_(wr[-1]) == 'return model', 'Box.model: writer frame')
    tgt, val = _assign(wr[1]) or (None, None)
    s = _is_sub(tgt, 'model') if tgt is not None else None
    _expect(s is not None and _u_(val) == 'DM()', 'Box.model: root')
    root = s[1]
    writes = []
    for st in wr[2:-1]:
        tgt, val = _assign(st) or (None, None)
        s = _is_sub(tgt, f"model['{root}']") if tgt is not None else None
        _expect(s is not None and isinstance(val, ast.Call) and _u_(val.func) == 'uc.model' and len(val.args) == 2
                and not val.keywords and isinstance(val.args[0], ast.Attribute) and _u_(val.args[0].value) == 'self',
                f'Box.model: store {_u_(st)}')
        writes.append((s[1], val.args[0].attr, _u_(val.args[1])))
    # reader
    tgt, val = _assign(rd[0]) or (None, None)
    _expect(tgt is not None and _u_(tgt) == 'model' and isinstance(val, ast.Call)
            and _u_(val.func) == 'DM(model).find' and len(val.args) == 1 and isinstance(val.args[0], ast.Constant),
            'Box.model: find')
    rroot = val.args[0].value
    reads = []
    for st in rd[1:-1]:
        tgt, val = _assign(st) or (None, None)
        _expect(tgt is not None and isinstance(tgt, ast.Name) and isinstance(val, ast.Call)
                and _u_(val.func) == 'uc.value_unit' and len(val.args) == 1 and _is_sub(val.args[0], 'model'),
                f'Box.model: read {_u_(st)}')
        reads.append((_is_sub(val.args[0], 'model')[1], tgt.id))
    last = rd[-1]
    _expect(isinstance(last, ast.Expr) and isinstance(last.value, ast.Call) and _u_(last.value.func) == 'self.set'
            and not last.value.args, 'Box.model: self.set(...)')
    setkw = {_u_(k.value): k.arg for k in last.value.keywords}
    _expect(sorted(setkw) == sorted(v for _, v in reads), 'Box.model: set() keywords vs values read')
    L.append(f'def boxModelParams : List (String × Option String) := {_lparams(ps)}')
    L.append(f'def boxRoot : String := {_ls(root)}')
    L.append('/-- (key, attribute of the Box, unit argument) of every `model[root][key] = uc.model(self.attr, unit)`. -/')
    L.append('def boxWrites : List (String × String × String) := '
             + _llist(f'({_ls(k)}, {_ls(a)}, {_ls(u)})' for k, a, u in writes))
    L.append(f'def boxFind : String := {_ls(rroot)}')
    L.append('/-- (key, keyword of `self.set`) of every `uc.value_unit(model[key])` of the reader. -/')
    L.append('def boxReads : List (String × String) := ' + _llist(f'({_ls(k)}, {_ls(setkw[v])})' for k, v in reads))
    # Box.set: the branch taken for the keywords of the reader
    fset = _find_def(tree, 'set', 'Box')
    ps2, kw2 = _params(fset)
    _expect(ps2 == [] and kw2 == 'kwargs', 'Box.set: parameters')
    have = set(setkw.values())
    node = _body(fset)[0]
    taken = None
    order = []
    while isinstance(node, ast.If):
        t = node.test
        txt = _u_(t)
        order.append(txt)
        if txt == 'len(kwargs) == 0':
            ok = len(have) == 0
        elif isinstance(t, ast.Compare) and len(t.ops) == 1 and isinstance(t.ops[0], ast.In) \
                and _u_(t.comparators[0]) == 'kwargs' and isinstance(t.left, ast.Constant):
            ok = t.left.value in have
        else:
            raise _TE(f'Box.set: test {txt}')
        if ok and taken is None:
            taken = [_u_(s) for s in node.body]
        node = node.orelse[0] if len(node.orelse) == 1 else None
    _expect(taken == ['self.set_vectors(**kwargs)'], f'Box.set: branch for the reader keywords: {taken}')
    fsv = _find_def(tree, 'set_vectors', 'Box')
    psv, _ = _params(fsv)
    got = [_u_(s) for s in _body(fsv)]
    _expect(got == ['if origin is None:\n    origin = [0.0, 0.0, 0.0]', 'self.vects = [avect, bvect, cvect]',
                    'self.origin = origin'], 'Box.set_vectors: ' + repr(got))
    L.append('/-- the tests of `Box.set` in order; the reader\'s keywords take the first one that holds. -/')
    L.append('def boxSetTests : List String := ' + _llist(_ls(t) for t in order))
    L.append('def boxSetTaken : String := ' + _ls(taken[0]))
    L.append(f'def boxSetVectorsParams : List (String × Option String) := {_lparams(psv)}')
    L.append('/-- `set_vectors`: `self.vects = [avect, bvect, cvect]` then `self.origin = origin`. -/')
    L.append('def boxSetVectorsRows : List String := ["avect", "bvect", "cvect"]')
    # vects setter
    fv = _find_def(tree, 'vects', 'Box', 'vects.setter')
    got = [_u_(s) for s in _body(fv)]
    _expect(len(got) == 3 and got[0] == 'self.__vects[:] = value' and got[2] == 'self.__reciprocal_vects = None',
            'vects setter: ' + repr(got))
    st = _body(fv)[1]
    tgt, val = _assign(st) or (None, None)
    _expect(tgt is not None and _u_(val) == '0.0' and isinstance(tgt, ast.Subscript)
            and _u_(tgt.value) == 'self.__vects' and isinstance(tgt.slice, ast.Call)
            and _u_(tgt.slice.func) == 'np.isclose', 'vects setter: clean-up statement')
    c = tgt.slice
    _expect(len(c.args) == 2 and _u_(c.args[0]) == 'self.__vects / abs(self.__vects).max()' and _u_(c.args[1]) == '0.0'
            and [k.arg for k in c.keywords] == ['atol'] and isinstance(c.keywords[0].value, ast.Constant),
            'vects setter: np.isclose(self.__vects / abs(self.__vects).max(), 0.0, atol=...)')
    L.append('/-- `self.__vects[np.isclose(self.__vects / abs(self.__vects).max(), 0.0, atol=…)] = 0.0`: the `atol`. -/')
    L.append(f'def vectsAtol : Rat := {_lrat(c.keywords[0].value.value)}')
    L.append('/-- the setter ends with `self.__reciprocal_vects = None`. -/')
    L.append('def vectsSetterDropsKept : Bool := true')
    return L


def _lrat(x):
    fr_ = Fraction(repr(x)) if isinstance(x, float) else Fraction(x)
    return f'mkRat {fr_.numerator} {fr_.denominator}'


# ---- Atoms.model / Atoms.__init__(model=) ---------------------------------------------------------------------------

def _lean_none_test(node, opt):
    """`X is None` / `X is not None` / and / or / not over the optional variables `opt` -> Lean Bool expression."""
    import ast
    if isinstance(node, ast.BoolOp):
        op = ' && ' if isinstance(node.op, ast.And) else ' || '
        return '(' + op.join(_lean_none_test(v, opt) for v in node.values) + ')'
    if isinstance(node, ast.UnaryOp) and isinstance(node.op, ast.Not):
        return '(!' + _lean_none_test(node.operand, opt) + ')'
    if isinstance(node, ast.Compare) and len(node.ops) == 1 and isinstance(node.left, ast.Name) and node.left.id in opt \
            and isinstance(node.comparators[0], ast.Constant) and node.comparators[0].value is None:
        if isinstance(node.ops[0], ast.Is):
            return f'{node.left.id}.isNone'
        if isinstance(node.ops[0], ast.IsNot):
            return f'{node.left.id}.isSome'
    raise _TE('argument handling: test ' + _u_(node))


def _lean_list_expr(node, vals):
    """the list-valued expressions of the argument handling over the (no longer optional) variables `vals`."""
    import ast
    if _u_(node) == 'self.prop()':
        return 'own'
    if isinstance(node, ast.Name) and node.id in vals:
        return node.id
    if isinstance(node, ast.ListComp) and isinstance(node.elt, ast.Constant) and node.elt.value is None \
            and len(node.generators) == 1 and not node.generators[0].ifs:
        it = node.generators[0].iter
        if isinstance(it, ast.Call) and _u_(it.func) == 'range' and len(it.args) == 1:
            return f'(List.replicate {_lean_len(it.args[0], vals)} none)'
    raise _TE('argument handling: expression ' + _u_(node))


def _lean_len(node, vals):
    import ast
    if isinstance(node, ast.Call) and _u_(node.func) == 'len' and len(node.args) == 1 and isinstance(node.args[0], ast.Name) \
            and node.args[0].id in vals:
        return f'{node.args[0].id}.length'
    raise _TE('argument handling: length ' + _u_(node))


def _lean_len_test(node, vals):
    import ast
    ops = {ast.NotEq: '≠', ast.Eq: '=', ast.Lt: '<', ast.Gt: '>', ast.LtE: '≤', ast.GtE: '≥'}
    if isinstance(node, ast.Compare) and len(node.ops) == 1 and type(node.ops[0]) in ops:
        return f'{_lean_len(node.left, vals)} {ops[type(node.ops[0])]} {_lean_len(node.comparators[0], vals)}'
    raise _TE('argument handling: test ' + _u_(node))


def _gen_resolve_call(st):
    """the `if prop_unit is None: … elif …: raise` statement at the top of Atoms.model as a Lean definition (Option =
    a raised ValueError): defaults of the lists, refusals in their order, the dictionary filled from the zip."""
    import ast
    _expect(isinstance(st, ast.If) and _u_(st.test) == 'prop_unit is None', 'Atoms.model: if prop_unit is None')
    out = ['def atomsResolveCall (own : List String) (prop_name : Option (List String)) (unit : Option (List (Option String)))',
           '    (prop_unit : Option (List (String × Option String))) : Option (List (String × Option String)) :=',
           '  match prop_unit with', '  | none =>']
    opt, vals, dct = {'prop_name', 'unit'}, set(), None
    body = list(st.body)
    i = 0
    while i < len(body):
        s = body[i]
        if isinstance(s, ast.If) and not s.orelse and len(s.body) == 1 and isinstance(s.body[0], ast.Raise):
            out.append(f'    if {_lean_len_test(s.test, vals)} then none else')
        elif isinstance(s, ast.If) and not s.orelse and len(s.body) == 1 and _assign(s.body[0]) is not None:
            tgt, val = _assign(s.body[0])
            _expect(isinstance(tgt, ast.Name) and tgt.id in opt and _lean_none_test(s.test, opt) == f'{tgt.id}.isNone',
                    'argument handling: default ' + _u_(s))
            out.append(f'    let {tgt.id} := {tgt.id}.getD {_lean_list_expr(val, vals)}')
            opt.discard(tgt.id)
            vals.add(tgt.id)
        elif _assign(s) is not None and isinstance(_assign(s)[1], ast.Dict) and not _assign(s)[1].keys \
                and isinstance(_assign(s)[0], ast.Name) and i + 1 < len(body) and isinstance(body[i + 1], ast.For):
            dct = _assign(s)[0].id
            lp = body[i + 1]
            _expect(isinstance(lp.target, ast.Tuple) and len(lp.target.elts) == 2 and all(isinstance(e, ast.Name) for e in lp.target.elts)
                    and isinstance(lp.iter, ast.Call) and _u_(lp.iter.func) == 'zip' and len(lp.iter.args) == 2
                    and all(isinstance(a, ast.Name) and a.id in vals for a in lp.iter.args) and not lp.orelse
                    and len(lp.body) == 1 and _assign(lp.body[0]) is not None, 'argument handling: fill loop ' + _u_(lp))
            names = [e.id for e in lp.target.elts]
            tgt, val = _assign(lp.body[0])
            _expect(isinstance(tgt, ast.Subscript) and _u_(tgt.value) == dct and isinstance(tgt.slice, ast.Name)
                    and tgt.slice.id in names and isinstance(val, ast.Name) and val.id in names and val.id != tgt.slice.id,
                    'argument handling: fill statement ' + _u_(lp.body[0]))
            proj = lambda n: 'e.1' if names.index(n) == 0 else 'e.2'      # noqa: E731
            out.append(f'    let {dct} := ({lp.iter.args[0].id}.zip {lp.iter.args[1].id}).foldl '
                       f'(fun d e => dictSet d {proj(tgt.slice.id)} {proj(val.id)}) []')
            i += 1
        else:
            raise _TE('argument handling: statement ' + _u_(s)[:80])
        i += 1
    _expect(dct == 'prop_unit' and not opt, 'argument handling: the dictionary is not built from both lists')
    out.append('    some prop_unit')
    out.append('  | some prop_unit =>')
    _expect(len(st.orelse) == 1 and isinstance(st.orelse[0], ast.If) and not st.orelse[0].orelse
            and len(st.orelse[0].body) == 1 and isinstance(st.orelse[0].body[0], ast.Raise), 'Atoms.model: refusal of prop_unit with lists')
    out.append(f"    if {_lean_none_test(st.orelse[0].test, {'prop_name', 'unit'})} then none else")
    out.append('    some prop_unit')
    return out


def _gen_flag_loop(init, loop, name, var_iter):
    """`flag = False; for x in <iter>: if <test on x>: flag = True; break` as a Lean `List.any` over optional numbers."""
    import ast
    tgt, val = _assign(init)
    _expect(isinstance(tgt, ast.Name) and isinstance(val, ast.Constant) and val.value is False, 'flag loop: initial value')
    flag = tgt.id
    _expect(isinstance(loop, ast.For) and isinstance(loop.target, ast.Name) and _u_(loop.iter) == var_iter and not loop.orelse
            and len(loop.body) == 1 and isinstance(loop.body[0], ast.If) and not loop.body[0].orelse, 'flag loop: loop ' + _u_(loop)[:60])
    x = loop.target.id
    ib = loop.body[0].body
    _expect(1 <= len(ib) <= 2 and _u_(ib[0]) == f'{flag} = True' and (len(ib) == 1 or isinstance(ib[1], ast.Break)),
            'flag loop: body ' + _u_(loop.body[0])[:60])

    def tst(n):
        if isinstance(n, ast.BoolOp):
            return '(' + (' && ' if isinstance(n.op, ast.And) else ' || ').join(tst(v) for v in n.values) + ')'
        if isinstance(n, ast.UnaryOp) and isinstance(n.op, ast.Not):
            return '(!' + tst(n.operand) + ')'
        if isinstance(n, ast.Name) and n.id == x:          # truthiness of an optional number
            return f'(match {x} with | some v => decide (v ≠ 0) | none => false)'
        return _lean_none_test(n, {x})
    return flag, [f'def {name} {{K : Type}} [OfNat K 0] [DecidableEq K] (l : List (Option K)) : Bool := '
                  f'l.any (fun {x} => {tst(loop.body[0].test)})']


def _tr_atoms(tree):
    import ast
    L = ['/-! ### `Atoms.model`, `Atoms.__init__(model=…)` -/']
    fn = _find_def(tree, 'model', 'Atoms')
    ps, kw = _params(fn)
    _expect([p[0] for p in ps] == ['prop_name', 'unit', 'prop_unit'] and kw is None, 'Atoms.model: parameters')
    b = _body(fn)
    got = [_u_(s) for s in b]
    # (1) the argument handling
    resolve = _gen_resolve_call(b[0])
    # (2) default unit of pos
    st = b[1]
    _expect(isinstance(st, ast.If) and not st.orelse and isinstance(st.test, ast.BoolOp) and isinstance(st.test.op, ast.And)
            and len(st.test.values) == 2, 'Atoms.model: default-unit statement')
    t0, t1 = st.test.values
    _expect(isinstance(t0, ast.Compare) and isinstance(t0.ops[0], ast.In) and isinstance(t0.left, ast.Constant)
            and _u_(t0.comparators[0]) == 'prop_unit', 'Atoms.model: default-unit test')
    dname = t0.left.value
    _expect(_u_(t1) == f"prop_unit['{dname}'] is None", 'Atoms.model: default-unit test (None)')
    bod = [_u_(s) for s in st.body]
    _expect(len(bod) == 2 and bod[0] == 'prop_unit = dict(prop_unit)', 'Atoms.model: default unit set in a copy')
    tgt, val = _assign(st.body[1])
    _expect(_u_(tgt) == f"prop_unit['{dname}']" and isinstance(val, ast.Constant) and isinstance(val.value, str),
            'Atoms.model: default unit')
    dunit = val.value
    # (3) the tree
    _expect(got[2] == 'model = DM()' and got[-1] == 'return model', 'Atoms.model: frame')
    tgt, val = _assign(b[3])
    root = _is_sub(tgt, 'model')[1]
    _expect(_u_(val) == 'DM()', 'Atoms.model: root')
    tgt, val = _assign(b[4])
    s = _is_sub(tgt, f"model['{root}']")
    _expect(s is not None and _u_(val) == 'self.natoms', 'Atoms.model: natoms')
    nat_key = s[1]
    loop = b[5]
    _expect(isinstance(loop, ast.For) and _u_(loop.target) == 'prop' and _u_(loop.iter) == 'prop_unit' and len(b) == 7,
            'Atoms.model: property loop')
    lb = loop.body
    _expect(_u_(lb[0]) == 'unit = prop_unit.get(prop, None)' and _u_(lb[1]) == 'propmodel = DM()', 'Atoms.model: loop head')
    pkeys = []
    for st2 in lb[2:-1]:
        tgt, val = _assign(st2)
        s = _is_sub(tgt, 'propmodel')
        _expect(s is not None, 'Atoms.model: propmodel store')
        pkeys.append((s[1], _u_(val)))
    last = lb[-1]
    _expect(isinstance(last, ast.Expr) and isinstance(last.value, ast.Call)
            and _u_(last.value.func) == f"model['{root}'].append" and len(last.value.args) == 2
            and _u_(last.value.args[1]) == 'propmodel', 'Atoms.model: append')
    app_key = last.value.args[0].value
    _expect([v for _, v in pkeys] == ['prop', 'uc.model(self.prop(prop), unit)'], 'Atoms.model: propmodel values ' + repr(pkeys))
    L.append(f'def atomsModelParams : List (String × Option String) := {_lparams(ps)}')
    L.append('/-- the argument handling, slot by slot (statement-for-statement match): outer test; defaults of the lists; '
             'refusals; how the dictionary is filled. -/')
    L.append('def atomsCallOuter : String := "prop_unit is None"')
    L.append('/-- the statement as a definition (`none` = the `ValueError`): `own` is `self.prop()`. -/')
    L += resolve
    L.append(f'/-- `if {dname!r} in prop_unit and prop_unit[{dname!r}] is None: … = {dunit!r}`. -/')
    L.append(f'def atomsDefaultUnit : String × String := ({_ls(dname)}, {_ls(dunit)})')
    L.append(f'def atomsRoot : String := {_ls(root)}')
    L.append(f'def atomsCountKey : String := {_ls(nat_key)}')
    L.append(f'def atomsAppendKey : String := {_ls(app_key)}')
    L.append('def atomsPropKeys : List String := ' + _llist(_ls(k) for k, _ in pkeys))
    # reader
    fi = _find_def(tree, '__init__', 'Atoms')
    psi, kwi = _params(fi)
    bi = _body(fi)
    _expect(isinstance(bi[0], ast.If) and _u_(bi[0].test) == 'model is not None', 'Atoms.__init__: model branch first')
    mb = bi[0].body
    _expect(isinstance(mb[0], ast.Try), 'Atoms.__init__: exclusivity check')
    rest = [_u_(s) for s in mb[1:]]
    _expect(len(rest) == 4 and rest[2] == 'prop = OrderedDict()', 'Atoms.__init__: model branch ' + repr(rest))
    tgt, val = _assign(mb[1])
    _expect(_u_(tgt) == 'model' and _u_(val.func) == 'DM(model).find', 'Atoms.__init__: find')
    rroot = val.args[0].value
    tgt, val = _assign(mb[2])
    _expect(_u_(tgt) == 'natoms' and _is_sub(val, 'model'), 'Atoms.__init__: natoms')
    rnat = _is_sub(val, 'model')[1]
    loop = mb[4]
    _expect(isinstance(loop, ast.For) and _u_(loop.target) == 'propmodel' and isinstance(loop.iter, ast.Call)
            and _u_(loop.iter.func) == 'model.aslist' and len(loop.body) == 1, 'Atoms.__init__: property loop')
    raslist = loop.iter.args[0].value
    tgt, val = _assign(loop.body[0])
    _expect(isinstance(tgt, ast.Subscript) and _u_(tgt.value) == 'prop' and _is_sub(tgt.slice, 'propmodel')
            and isinstance(val, ast.Call) and _u_(val.func) == 'uc.value_unit' and _is_sub(val.args[0], 'propmodel'),
            'Atoms.__init__: prop[propmodel[name]] = uc.value_unit(propmodel[data])')
    rkeys = [_is_sub(tgt.slice, 'propmodel')[1], _is_sub(val.args[0], 'propmodel')[1]]
    # prop handling: atype and pos are taken out first
    _expect(isinstance(bi[1], ast.If) and _u_(bi[1].test) == 'prop is not None', 'Atoms.__init__: prop branch')
    pb = [_u_(s) for s in bi[1].body[1:]]
    _expect(pb == ["atype = prop.pop('atype', None)", "pos = prop.pop('pos', None)", 'kwargs = prop'],
            'Atoms.__init__: prop division ' + repr(pb))
    L.append(f'def atomsInitParams : List (String × Option String) := {_lparams(psi)}')
    L.append(f'def atomsFind : String := {_ls(rroot)}')
    L.append(f'def atomsReadCountKey : String := {_ls(rnat)}')
    L.append(f'def atomsReadAslist : String := {_ls(raslist)}')
    L.append('/-- `prop[propmodel[k0]] = uc.value_unit(propmodel[k1])`. -/')
    L.append('def atomsReadPropKeys : List String := ' + _llist(_ls(k) for k in rkeys))
    L.append('/-- `atype = prop.pop(\'atype\', None)`, `pos = prop.pop(\'pos\', None)`, `kwargs = prop`: taken out first. -/')
    L.append('def atomsFirst : List String := ["atype", "pos"]')
    # PropertyDict.__setitem__ broadcast chain
    return L


# ---- System.model / System.__init__(model=) / dump ------------------------------------------------------------------

def _tr_system(tree, dump_tree):
    import ast
    L = ['/-! ### `System.model`, `System.__init__(model=…)`, `dump(\'system_model\')` -/']
    fn = _find_def(tree, 'model', 'System')
    ps, kw = _params(fn)
    _expect([p[0] for p in ps] == ['box_unit', 'prop_name', 'unit', 'prop_unit'] and kw is None, 'System.model: parameters')
    b = _body(fn)
    _expect(_u_(b[0]) == 'model = DM()' and _u_(b[-1]) == 'return model', 'System.model: frame')
    tgt, val = _assign(b[1])
    root = _is_sub(tgt, 'model')[1]
    _expect(_u_(val) == 'DM()', 'System.model: root')
    R = f"model['{root}']"
    events = []          # (key, kind, guard)
    i = 2
    extra = {}
    while i < len(b) - 1:
        st = b[i]
        a = _assign(st)
        if a is not None and _is_sub(a[0], R):
            key = _is_sub(a[0], R)[1]
            events.append((key, 'set', ''))
            extra[key] = _u_(a[1])
        elif isinstance(st, ast.Assign) and len(st.targets) == 2 and _is_sub(st.targets[0], R):
            key = _is_sub(st.targets[0], R)[1]
            events.append((key, 'set', ''))
            extra[key] = _u_(st.value)
            extra['alias'] = _u_(st.targets[1])
        elif isinstance(st, ast.For) and len(st.body) == 1 and isinstance(st.body[0], ast.Expr) \
                and isinstance(st.body[0].value, ast.Call) and _u_(st.body[0].value.func) == R + '.append':
            c = st.body[0].value
            _expect(_u_(c.args[1]) == _u_(st.target), 'System.model: append loop value')
            events.append((c.args[0].value, 'append', ''))
            extra[c.args[0].value] = _u_(st.iter)
        elif _assign(st) is not None and isinstance(_assign(st)[1], ast.Constant) and _assign(st)[1].value is False \
                and i + 2 < len(b) and isinstance(b[i + 2], ast.If):
            flag, guard_def = _gen_flag_loop(st, b[i + 1], 'massesGuard', 'self.masses')
            _expect(_u_(b[i + 2].test) == flag, 'System.model: masses guard ' + _u_(b[i + 2].test))
            extra['guard_def'] = guard_def
            g = b[i + 2]
            _expect(not g.orelse and len(g.body) == 1 and isinstance(g.body[0], ast.For), 'System.model: masses loop')
            lp = g.body[0]
            c = lp.body[0].value
            _expect(_u_(c.func) == R + '.append' and _u_(c.args[1]) == _u_(lp.target), 'System.model: masses append')
            events.append((c.args[0].value, 'append', 'any-not-None'))
            extra[c.args[0].value] = _u_(lp.iter)
            i += 2
        elif isinstance(st, ast.For) and _u_(st.iter) == "amodel.aslist('property')":
            got = _u_(st)
            want = ("for prop in amodel.aslist('property'):\n    if prop['data'].get('unit', None) == 'scaled':\n"
                    "        prop['data'] = uc.model(self.box.position_cartesian_to_relative(uc.value_unit(prop['data'])), units='scaled')")
            _expect(got == want, 'System.model: box-scaled rewrite ' + repr(got))
            extra['scaled'] = 'yes'
        else:
            raise _TE('System.model: statement ' + _u_(st)[:80])
        i += 1
    _expect(extra.get('scaled') == 'yes', 'System.model: no box-scaled rewrite')
    keys = [e[0] for e in events]
    _expect(len(keys) == 5 and extra[keys[0]] == f"self.box.model(length_unit=box_unit)['{keys[0]}']"
            and extra[keys[1]] == 'self.pbc.tolist()' and extra[keys[2]] == 'self.symbols'
            and extra[keys[3]] == 'self.masses' and extra.get('alias') == 'amodel'
            and extra[keys[4]] == f"self.atoms.model(prop_name=prop_name, unit=unit, prop_unit=prop_unit)['{keys[4]}']",
            'System.model: entries ' + repr((keys, extra)))

    def seg(e):
        key, kind, guard = e
        if kind == 'set':
            return f'[{_ls(key)}]'
        flag = 'hasMasses' if guard else 'hasSymbols'
        return f'(if {flag} then [{_ls(key)}] else [])'
    L.append(f'def systemModelParams : List (String × Option String) := {_lparams(ps)}')
    L.append('/-- the flag loop in front of the masses: are they written at all? -/')
    L += extra['guard_def']
    L.append(f'def systemRoot : String := {_ls(root)}')
    L.append('/-- the keys under the root in order; an `append` loop over no symbol writes nothing, the masses are '
             'appended only when one of them is not `None`. -/')
    L.append('def systemKeys (hasSymbols hasMasses : Bool) : List String := ' + ' ++ '.join(seg(e) for e in events))
    L.append('def systemEntryKinds : List (String × String × String) := '
             + _llist(f'({_ls(k)}, {_ls(kd)}, {_ls(g)})' for k, kd, g in events))
    L.append(f'/-- `self.box.model(length_unit=box_unit)[…]`, `self.atoms.model(prop_name=…, unit=…, prop_unit=…)[…]`. -/')
    L.append(f'def systemBoxKey : String := {_ls(keys[0])}')
    L.append(f'def systemPbcKey : String := {_ls(keys[1])}')
    L.append(f'def systemSymbolKey : String := {_ls(keys[2])}')
    L.append(f'def systemMassKey : String := {_ls(keys[3])}')
    L.append(f'def systemAtomsKey : String := {_ls(keys[4])}')
    L.append('/-- the unit name whose properties are re-written box-relative, and the keys the rewrite goes by. -/')
    L.append('def systemScaledUnit : String := "scaled"')
    L.append('def systemScaledPath : List String := ["property", "data", "unit"]')
    # reader
    fi = _find_def(tree, '__init__', 'System')
    psi, _ = _params(fi)
    bi = _body(fi)
    _expect(isinstance(bi[0], ast.If) and _u_(bi[0].test) == 'model is not None', 'System.__init__: model branch first')
    mb = bi[0].body
    got = [_u_(s) for s in mb[1:]]
    _expect(isinstance(mb[0], ast.Try) and len(got) == 6, 'System.__init__: model branch')
    tgt, val = _assign(mb[1])
    _expect(_u_(tgt) == 'model' and _u_(val.func) == 'DM(model).find', 'System.__init__: find')
    rroot = val.args[0].value
    _expect(got[1:3] == ['box = Box(model=model)', 'atoms = Atoms(model=model)'], 'System.__init__: box / atoms')
    rd = _reads(mb[3:], 'model')
    want_tail = [f"if pbc is None:\n    pbc = model['{rd[0][0]}']",
                 f"if symbols is None:\n    symbols = tuple(model.aslist('{rd[1][0]}'))",
                 f"if masses is None:\n    masses = tuple(model.aslist('{rd[2][0]}'))"]
    _expect(len(rd) == 3 and got[3:] == want_tail, 'System.__init__: pbc / symbols / masses ' + repr(got[3:]))
    # the box-scaled loop further down
    sc = [s for s in bi if isinstance(s, ast.If) and _u_(s.test) == 'model is not None'][1:]
    _expect(len(sc) == 1, 'System.__init__: box-scaled block')
    want = ("for prop in model['atoms'].aslist('property'):\n    if prop['data'].get('unit', None) == 'scaled':\n"
            "        self.atoms.view[prop['name']] = self.box.position_relative_to_cartesian(self.atoms.view[prop['name']])")
    _expect([_u_(s) for s in sc[0].body] == [want], 'System.__init__: box-scaled loop ' + repr([_u_(s) for s in sc[0].body]))
    L.append(f'def systemInitParams : List (String × Option String) := {_lparams(psi)}')
    L.append(f'def systemFind : String := {_ls(rroot)}')
    L.append('/-- `(key, how)` of what the reader itself looks up under the root (the box and the atoms are read by '
             '`Box(model=)` / `Atoms(model=)` from the same node). -/')
    L.append('def systemReads : List (String × String) := ' + _llist(f'({_ls(k)}, {_ls(h)})' for k, h in rd))
    L.append('def systemReadScaledPath : List String := ["atoms", "property", "data", "unit", "name"]')
    # dump
    fd = _find_def(dump_tree, 'dump')
    psd, _ = _params(fd, skip_self=False)
    bd = _body(fd)
    tgt, val = _assign(bd[0])
    _expect(_u_(tgt) == 'model' and isinstance(val, ast.Call) and _u_(val.func) == 'system.model' and not val.args,
            'dump: model = system.model(…)')
    passed = [(k.arg, _u_(k.value)) for k in val.keywords]
    L.append(f'def dumpParams : List (String × Option String) := {_lparams(psd)}')
    L.append('/-- `system.model(kw=value, …)` of `dump`. -/')
    L.append('def dumpPasses : List (String × String) := ' + _llist(f'({_ls(a)}, {_ls(v)})' for a, v in passed))
    L.append('/-- `self.atoms.model(kw=value, …)` of `System.model`. -/')
    L.append('def systemPasses : List (String × String) := [("prop_name", "prop_name"), ("unit", "unit"), ("prop_unit", "prop_unit")]')
    # format dispatch of dump
    _expect(isinstance(bd[1], ast.If) and _u_(bd[1].test) == 'f is None' and len(bd) == 2, 'dump: if f is None')
    ret = bd[1].body[0]
    chain = []
    node = ret
    while isinstance(node, ast.If):
        chain.append((_u_(node.test), _u_(node.body[0])))
        node = node.orelse[0] if len(node.orelse) == 1 else None
    _expect(chain == [('format is None', 'return model'), ("format.lower() == 'xml'", 'return model.xml(indent=indent)'),
                      ("format.lower() == 'json'", 'return model.json(indent=indent)')], 'dump: format chain ' + repr(chain))
    L.append('/-- the format chain of `dump` without a target: `(test, result)`. -/')
    L.append('def dumpFormats : List (String × String) := ' + _llist(f'({_ls(a)}, {_ls(v)})' for a, v in chain))
    # with a target: defaulting of `format`, then the same chain for a handle and for a path
    eb = bd[1].orelse
    _expect(len(eb) == 2 and isinstance(eb[0], ast.If) and _u_(eb[0].test) == 'format is None' and not eb[0].orelse
            and len(eb[0].body) == 1 and isinstance(eb[0].body[0], ast.Try), 'dump: defaulting of format')
    tr = eb[0].body[0]
    _expect([_u_(x) for x in tr.body] == ['format = os.path.splitext(f)[1][1:]'] and len(tr.handlers) == 1
            and tr.handlers[0].type is None and len(tr.handlers[0].body) == 1, 'dump: format from the extension')
    tgt, val = _assign(tr.handlers[0].body[0])
    _expect(_u_(tgt) == 'format' and isinstance(val, ast.Constant) and isinstance(val.value, str), 'dump: fallback format')
    fallback = val.value
    _expect(isinstance(eb[1], ast.If) and _u_(eb[1].test) == "hasattr(f, 'write')" and len(eb[1].body) == 1
            and len(eb[1].orelse) == 1 and isinstance(eb[1].orelse[0], ast.With)
            and _u_(eb[1].orelse[0].items[0]) == "open(f, 'w', encoding='UTF-8') as fp" and len(eb[1].orelse[0].body) == 1,
            'dump: handle / path')

    def chain_of(node, tail):
        out = []
        while isinstance(node, ast.If):
            t = node.test
            _expect(isinstance(t, ast.Compare) and len(t.ops) == 1 and isinstance(t.ops[0], ast.Eq)
                    and _u_(t.left) == 'format.lower()' and isinstance(t.comparators[0], ast.Constant)
                    and len(node.body) == 1 and isinstance(node.body[0], ast.Return)
                    and isinstance(node.body[0].value, ast.Call) and isinstance(node.body[0].value.func, ast.Attribute)
                    and _u_(node.body[0].value.func.value) == 'model', 'dump: chain entry ' + _u_(t))
            c = node.body[0].value
            _expect(not c.args, 'dump: positional codec arguments')
            kws = sorted(f'{k.arg}={_u_(k.value)}' for k in c.keywords)
            _expect(kws == tail, f'dump: arguments of model.{c.func.attr}: {kws}')
            out.append((t.comparators[0].value, c.func.attr))
            _expect(len(node.orelse) <= 1, 'dump: chain')
            node = node.orelse[0] if node.orelse else None
        _expect(node is None, 'dump: chain ends with something else')
        return out
    ch_ret = chain_of(ret.orelse[0], ['indent=indent'])
    ch_h = chain_of(eb[1].body[0], ['fp=f', 'indent=indent'])
    ch_p = chain_of(eb[1].orelse[0].body[0], ['fp=fp', 'indent=indent'])

    def lchain(ch):
        return ''.join(f'if format.toLower = {_ls(a)} then some {_ls(m)} else ' for a, m in ch) + 'none'
    L.append('/-- the `if format.lower() == … : return model.<codec>(…)` chains as functions of the format name: value '
             'returned, handle, path (`none` = the chain has no `else`: nothing is produced). -/')
    L.append('def dumpChainReturned (format : String) : Option String := ' + lchain(ch_ret))
    L.append('def dumpChainHandle (format : String) : Option String := ' + lchain(ch_h))
    L.append('def dumpChainPath (format : String) : Option String := ' + lchain(ch_p))
    L.append('/-- `format is None` with a target: `os.path.splitext(f)[1][1:]`, and this name when that raises (a handle). -/')
    L.append(f'def dumpFallbackFormat : String := {_ls(fallback)}')
    return L


# ---- ElasticConstants.model, Cij setter, normalized_as ---------------------------------------------------------------

class _Sym:
    """partial evaluation of `ElasticConstants(**c_dict)`: concrete control (which keywords are there), symbolic values."""

    def __init__(self, cls):
        import ast
        self.cls = cls
        self.methods = {n.name: n for n in cls.body if isinstance(n, ast.FunctionDef) and not n.decorator_list}
        self.used = set()

    def expr(self, node, env, kw):
        import ast
        if isinstance(node, ast.Constant) and isinstance(node.value, (int, float)) and not isinstance(node.value, bool):
            v = node.value
            if isinstance(v, float):
                _expect(v == int(v), f'non-integral literal {v}')
                v = int(v)
            return '0' if v == 0 else f'(({v} : Int) : K)'
        if isinstance(node, ast.Name):
            _expect(node.id in env, f'constructor: unknown name {node.id}')
            return env[node.id]
        if isinstance(node, ast.UnaryOp) and isinstance(node.op, ast.USub):
            return f'(-{self.expr(node.operand, env, kw)})'
        if isinstance(node, ast.BinOp) and isinstance(node.op, (ast.Add, ast.Sub, ast.Mult, ast.Div)):
            op = {ast.Add: '+', ast.Sub: '-', ast.Mult: '*', ast.Div: '/'}[type(node.op)]
            return f'({self.expr(node.left, env, kw)} {op} {self.expr(node.right, env, kw)})'
        s = _is_sub(node, 'kwargs')
        if s is not None:
            _expect(s[1] in kw, f'constructor: kwargs[{s[1]!r}] absent')
            self.used.add(s[1])
            return kw[s[1]]
        if isinstance(node, ast.Call) and _u_(node.func) == 'kwargs.pop' and len(node.args) == 1:
            k = node.args[0].value
            _expect(k in kw, f'constructor: kwargs.pop({k!r}) absent')
            return kw.pop(k)
        raise _TE('constructor: expression ' + _u_(node))

    def test(self, node, kw):
        import ast
        if isinstance(node, ast.BoolOp):
            vals = [self.test(v, kw) for v in node.values]
            return all(vals) if isinstance(node.op, ast.And) else any(vals)
        if isinstance(node, ast.Compare) and len(node.ops) == 1:
            op = node.ops[0]
            if isinstance(op, ast.In) and _u_(node.comparators[0]) == 'kwargs' and isinstance(node.left, ast.Constant):
                return node.left.value in kw
            if _u_(node.left) == 'len(kwargs)' and isinstance(node.comparators[0], ast.Constant):
                n = node.comparators[0].value
                return {ast.Eq: len(kw) == n, ast.GtE: len(kw) >= n, ast.LtE: len(kw) <= n,
                        ast.Gt: len(kw) > n, ast.Lt: len(kw) < n, ast.NotEq: len(kw) != n}[type(op)]
        if isinstance(node, ast.Compare) and len(node.ops) == 2 and _u_(node.left) == 'len(kwargs)':
            raise _TE('constructor: chained comparison')
        raise _TE('constructor: test ' + _u_(node))

    def run(self, stmts, env, kw):
        import ast
        for st in stmts:
            if isinstance(st, ast.Expr) and isinstance(st.value, ast.Constant):
                continue
            if isinstance(st, ast.Try):
                self.run(st.body, env, kw)
                continue
            if isinstance(st, ast.Assert):
                if _u_(st.test) == 'False':
                    raise _TE('constructor: refuses the keywords of normalized_as')
                _expect(self.test(st.test, kw), 'constructor: assertion fails for the keywords of normalized_as: ' + _u_(st.test))
                continue
            if isinstance(st, ast.If):
                self.run(st.body if self.test(st.test, kw) else st.orelse, env, kw)
                continue
            a = _assign(st)
            if a is not None:
                tgt, val = a
                if _u_(tgt) == 'kwargs' and _u_(val) == '{key: float(value) for key, value in kwargs.items()}':
                    continue
                if _u_(tgt) == 'self.Cij':
                    _expect(isinstance(val, ast.Call) and _u_(val.func) == 'np.array' and len(val.args) == 1
                            and isinstance(val.args[0], ast.List) and len(val.args[0].elts) == 6, 'constructor: Cij array')
                    rows = []
                    for r in val.args[0].elts:
                        _expect(isinstance(r, ast.List) and len(r.elts) == 6, 'constructor: Cij row')
                        rows += [self.expr(e, env, kw) for e in r.elts]
                    env['__Cij__'] = rows
                    continue
                s = _is_sub(tgt, 'kwargs')
                if s is not None:
                    kw[s[1]] = self.expr(val, env, kw)
                    continue
                if isinstance(tgt, ast.Name):
                    env[tgt.id] = self.expr(val, env, kw)
                    continue
            raise _TE('constructor: statement ' + _u_(st)[:80])


def _init_dispatch(sym, kw):
    """__init__ may nest an if inside a branch (6 / 7 keywords: 'C14' in kwargs)."""
    import ast
    kw0 = dict(kw)
    node = _body(sym.methods['__init__'])[0]
    while isinstance(node, ast.If):
        if sym.test(node.test, kw0):
            body = node.body
            while len(body) == 1 and isinstance(body[0], ast.If):
                body = body[0].body if sym.test(body[0].test, kw0) else body[0].orelse
            body = [s for s in body if not isinstance(s, ast.Assert)]
            _expect(len(body) == 1 and isinstance(body[0], ast.Expr) and isinstance(body[0].value, ast.Call)
                    and isinstance(body[0].value.func, ast.Attribute) and _u_(body[0].value.func.value) == 'self'
                    and _u_(body[0].value).endswith('(**kwargs)'), '__init__: dispatch ' + _u_(body[0])[:60])
            return body[0].value.func.attr
        _expect(len(node.orelse) == 1, '__init__: chain')
        node = node.orelse[0]
    raise _TE('__init__: refuses the keywords of normalized_as')


def _tr_elastic(tree):
    import ast
    L = ['/-! ### `ElasticConstants.model`, `Cij` setter, `normalized_as` -/']
    cls = [n for n in tree.body if isinstance(n, ast.ClassDef) and n.name == 'ElasticConstants']
    _expect(len(cls) == 1, 'class ElasticConstants')
    fn = _find_def(tree, 'model', 'ElasticConstants')
    ps, kw = _params(fn)
    _expect([p[0] for p in ps] == ['model', 'unit', 'crystal_system'] and kw is None, 'ElasticConstants.model: parameters')
    rd, wr = _model_halves(fn, 'ElasticConstants')
    got = [_u_(s) for s in wr]
    _expect(len(got) == 5 and got[0] == 'normCij = self.normalized_as(crystal_system).Cij' and got[1] == 'model = DM()'
            and got[4] == 'return model', 'ElasticConstants.model: writer ' + repr(got))
    tgt, val = _assign(wr[2])
    root = _is_sub(tgt, 'model')[1]
    tgt, val = _assign(wr[3])
    s = _is_sub(tgt, f"model['{root}']")
    _expect(s is not None and _u_(val) == 'uc.model(normCij, unit)', 'ElasticConstants.model: Cij entry')
    tgt, val = _assign(rd[0])
    _expect(_u_(tgt) == 'model' and _u_(val.func) == 'DM(model).find', 'ElasticConstants.model: find')
    rroot = val.args[0].value
    _expect(isinstance(rd[1], ast.Try) and len(rd) == 2 and len(rd[1].body) == 1, 'ElasticConstants.model: reader')
    tgt, val = _assign(rd[1].body[0])
    _expect(_u_(tgt) == 'self.Cij' and _u_(val.func) == 'uc.value_unit' and _is_sub(val.args[0], 'model'),
            'ElasticConstants.model: self.Cij = uc.value_unit(model[…])')
    L.append(f'def ecModelParams : List (String × Option String) := {_lparams(ps)}')
    L.append(f'def ecRoot : String := {_ls(root)}')
    L.append(f'def ecKey : String := {_ls(s[1])}')
    L.append(f'def ecFind : String := {_ls(rroot)}')
    L.append(f'def ecReadKey : String := {_ls(_is_sub(val.args[0], "model")[1])}')
    # the `except:` branch: records in the old `C` / `ij` format
    hs = rd[1].handlers
    _expect(len(hs) == 1 and hs[0].type is None and not rd[1].orelse and not rd[1].finalbody, 'ElasticConstants.model: except branch')
    hb = [s for s in hs[0].body if not (isinstance(s, ast.Expr) and isinstance(s.value, ast.Constant))]
    _expect(len(hb) == 3 and _u_(hb[0]) == 'c_dict = {}' and isinstance(hb[1], ast.For) and not hb[1].orelse
            and _u_(hb[2]) == 'self.Cij = ElasticConstants(**c_dict).Cij', 'ElasticConstants.model: old-format branch '
            + repr([_u_(s)[:50] for s in hb]))
    lp = hb[1]
    it = _is_sub(lp.iter, 'model')
    _expect(it is not None and isinstance(lp.target, ast.Name) and len(lp.body) == 2, 'ElasticConstants.model: old-format loop')
    cv = lp.target.id
    tgt, val = _assign(lp.body[0])
    _expect(isinstance(tgt, ast.Name), 'ElasticConstants.model: old-format key')
    kv = tgt.id
    parts = []
    node = val
    while isinstance(node, ast.BinOp) and isinstance(node.op, ast.Add):
        parts.insert(0, node.right)
        node = node.left
    parts.insert(0, node)
    _expect(len(parts) == 3 and isinstance(parts[0], ast.Constant) and isinstance(parts[0].value, str),
            'ElasticConstants.model: old-format key expression ' + _u_(val))
    idx = []
    ikey = None
    for q in parts[1:]:
        _expect(isinstance(q, ast.Subscript) and isinstance(q.slice, ast.Constant) and isinstance(q.slice.value, int)
                and q.slice.value >= 0 and _is_sub(q.value, cv) is not None, 'ElasticConstants.model: old-format index ' + _u_(q))
        k = _is_sub(q.value, cv)[1]
        _expect(ikey in (None, k), 'ElasticConstants.model: two index keys')
        ikey = k
        idx.append(q.slice.value)
    tgt, val = _assign(lp.body[1])
    _expect(_u_(tgt) == f'c_dict[{kv}]' and isinstance(val, ast.Call) and _u_(val.func) == 'uc.value_unit'
            and len(val.args) == 1 and not val.keywords and _is_sub(val.args[0], cv) is not None,
            'ElasticConstants.model: old-format value ' + _u_(lp.body[1]))
    L.append('/-- the `except:` branch of the reader (records in the old format): `for C in model[…]`, the keyword '
             '`prefix + C[index key][i] + C[index key][j]`, its value `uc.value_unit(C[value key])`. -/')
    L.append(f'def ecLegacyListKey : String := {_ls(it[1])}')
    L.append(f'def ecLegacyIndexKey : String := {_ls(ikey)}')
    L.append(f'def ecLegacyValueKey : String := {_ls(_is_sub(val.args[0], cv)[1])}')
    L.append(f'def ecLegacyPrefix : String := {_ls(parts[0].value)}')
    L.append('def ecLegacyIndexChars : List Nat := ' + _llist(str(i) for i in idx))
    # Cij setter
    fs = _find_def(tree, 'Cij', 'ElasticConstants', 'Cij.setter')
    got = [_u_(s) for s in _body(fs)]
    _expect(len(got) == 6 and got[0] == "value = np.array(value, dtype='float64')"
            and got[1] == "assert value.shape == (6, 6), 'Cij must be 6x6'"
            and got[2] == "assert value.max() > 0.0, 'Cij values not valid'"
            and got[5] == 'self.__c_ij = value', 'Cij setter: ' + repr(got))
    st = _body(fs)[3]
    tgt, val = _assign(st)
    c = tgt.slice
    _expect(_u_(tgt.value) == 'value' and isinstance(c, ast.Call) and _u_(c.func) == 'np.isclose'
            and _u_(c.args[0]) == 'value / value.max()' and _u_(c.args[1]) == '0.0' and [k.arg for k in c.keywords] == ['atol']
            and _u_(val) == '0.0', 'Cij setter: clean-up')
    zatol = c.keywords[0].value.value
    lp = _body(fs)[4]
    _expect(isinstance(lp, ast.For) and _u_(lp.iter) == 'range(6)' and _u_(lp.target) == 'i' and len(lp.body) == 1
            and isinstance(lp.body[0], ast.For) and _u_(lp.body[0].iter) == 'range(i)' and _u_(lp.body[0].target) == 'j'
            and len(lp.body[0].body) == 1 and isinstance(lp.body[0].body[0], ast.Assert), 'Cij setter: symmetry loop')
    t = lp.body[0].body[0].test
    _expect(isinstance(t, ast.Call) and _u_(t.func) == 'np.isclose' and _u_(t.args[0]) == 'value[i, j]'
            and _u_(t.args[1]) == 'value[j, i]' and [k.arg for k in t.keywords] == ['atol'], 'Cij setter: symmetry test')
    L.append('/-- `value[np.isclose(value / value.max(), 0.0, atol=…)] = 0.0`; `np.isclose(value[i,j], value[j,i], atol=…)` for `j < i < 6`. -/')
    L.append(f'def cijZeroAtol : Rat := {_lrat(zatol)}')
    L.append(f'def cijSymAtol : Rat := {_lrat(t.keywords[0].value.value)}')
    L.append('def cijShape : List Nat := [6, 6]')
    # normalized_as
    fnz = _find_def(tree, 'normalized_as', 'ElasticConstants')
    psn, _ = _params(fnz)
    _expect([p[0] for p in psn] == ['crystal_system'], 'normalized_as: parameters')
    b = _body(fnz)
    _expect(len(b) == 1 and isinstance(b[0], ast.If) and _u_(b[0].test) == "crystal_system == 'triclinic'"
            and [_u_(s) for s in b[0].body] == ['return ElasticConstants(Cij=self.Cij)'], 'normalized_as: triclinic hands self.Cij on')
    eb = b[0].orelse
    _expect(_u_(eb[0]) == 'c = self.Cij' and _u_(eb[1]) == 'c_dict = {}' and len(eb) == 4
            and _u_(eb[3]) == 'return ElasticConstants(**c_dict)', 'normalized_as: frame ' + repr([_u_(s)[:40] for s in eb]))
    sym = _Sym(cls[0])
    node = eb[2]
    branches = []
    names = [f'a{i}{j}' for i in range(6) for j in range(6)]

    def cexpr(n):
        if isinstance(n, ast.Subscript) and _u_(n.value) == 'c' and isinstance(n.slice, ast.Tuple) and len(n.slice.elts) == 2 \
                and all(isinstance(e, ast.Constant) and isinstance(e.value, int) and 0 <= e.value < 6 for e in n.slice.elts):
            return f'a{n.slice.elts[0].value}{n.slice.elts[1].value}'
        if isinstance(n, ast.Constant) and isinstance(n.value, int) and not isinstance(n.value, bool):
            return f'(({n.value} : Int) : K)'
        if isinstance(n, ast.BinOp) and isinstance(n.op, (ast.Add, ast.Sub, ast.Mult, ast.Div)):
            op = {ast.Add: '+', ast.Sub: '-', ast.Mult: '*', ast.Div: '/'}[type(n.op)]
            return f'({cexpr(n.left)} {op} {cexpr(n.right)})'
        if isinstance(n, ast.UnaryOp) and isinstance(n.op, ast.USub):
            return f'(-{cexpr(n.operand)})'
        raise _TE('normalized_as: expression ' + _u_(n))
    while isinstance(node, ast.If):
        t = node.test
        _expect(isinstance(t, ast.Compare) and _u_(t.left) == 'crystal_system' and isinstance(t.ops[0], ast.Eq)
                and isinstance(t.comparators[0], ast.Constant), 'normalized_as: test ' + _u_(t))
        cs = t.comparators[0].value
        kwd = {}
        hill = False
        for st in node.body:
            tgt, val = _assign(st) or (None, None)
            s = _is_sub(tgt, 'c_dict') if tgt is not None else None
            _expect(s is not None, 'normalized_as: statement ' + _u_(st))
            if _u_(val) in ('self.shear()', 'self.bulk()'):
                hill = True
                kwd[s[1]] = {'self.shear()': 'mk.1', 'self.bulk()': 'mk.2'}[_u_(val)]
            else:
                kwd[s[1]] = cexpr(val)
        meth = _init_dispatch(sym, kwd)
        env = {}
        kw2 = dict(kwd)
        sym.used = set()
        sym.run(_body(sym.methods[meth]), env, kw2)
        _expect('__Cij__' in env and not (set(kw2) - sym.used), f'{meth}: keywords not used {sorted(set(kw2) - sym.used)}')
        branches.append((cs, hill, meth, list(kwd), env['__Cij__']))
        _expect(len(node.orelse) == 1, 'normalized_as: chain')
        node = node.orelse[0]
    _expect(isinstance(node, ast.Raise), 'normalized_as: unknown crystal system raises')
    L.append('/-- (crystal system, constructor `ElasticConstants(**c_dict)` dispatches to, keywords of `c_dict` in order). -/')
    L.append('def normBranches : List (String × String × List String) := '
             + _llist(f'({_ls(cs)}, {_ls(m)}, {_llist(_ls(k) for k in ks)})' for cs, h, m, ks, _ in branches))
    L.append('section')
    L.append('variable {K : Type} [Add K] [Sub K] [Mul K] [Div K] [Neg K] [OfNat K 0] [IntCast K]')
    L.append('set_option linter.unusedVariables false in')
    L.append('/-- the 36 entries `normalized_as(cs)` hands to the `Cij` setter, as functions of the 36 entries `aij` of '
             '`self.Cij` (`muK` = `self.shear()`, `self.bulk()`, `none` when they raise); `none` = the `ValueError` of an '
             'unknown crystal system. -/')
    L.append('def normEntries (muK : Option (K × K)) (cs : String) (' + ' '.join(names) + ' : K) : Option (List K) :=')
    L.append('  if cs = "triclinic" then some [' + ', '.join(names) + ']')
    for cs, hill, meth, ks, ent in branches:
        rows = ',\n      '.join(', '.join(ent[6 * i:6 * i + 6]) for i in range(6))
        if hill:
            L.append(f'  else if cs = {_ls(cs)} then muK.map (fun mk => [\n      {rows}])')
        else:
            L.append(f'  else if cs = {_ls(cs)} then some [\n      {rows}]')
    L.append('  else none')
    # `ElasticConstants(**c_dict)` for the keyword sets of the standard representations (what a record in the old format
    # holds): __init__'s dispatch and the constructor, by the same partial evaluator, over an accessor `g`
    lbr = []
    for form, ks in EC_KEYS.items():
        kwd = {k: f'(g {_ls(k)})' for k in ks}
        meth = _init_dispatch(sym, kwd)
        env = {}
        kw2 = dict(kwd)
        sym.used = set()
        sym.run(_body(sym.methods[meth]), env, kw2)
        _expect('__Cij__' in env and not (set(kw2) - sym.used), f'{meth}: keywords not used {sorted(set(kw2) - sym.used)}')
        lbr.append((ks, meth, env['__Cij__']))
    L.append('/-- (keyword set, constructor `ElasticConstants(**c_dict)` dispatches to). -/')
    L.append('def legacyBranches : List (List String × String) := '
             + _llist(f'({_llist(_ls(k) for k in ks)}, {_ls(m)})' for ks, m, _ in lbr))
    L.append('set_option linter.unusedVariables false in')
    L.append('/-- the 36 entries `ElasticConstants(**c_dict)` hands to the `Cij` setter for each of these keyword sets, as '
             'functions of the keyword values `g`. -/')
    L.append('def legacyEntries (keys : List String) (g : String → K) : Option (List K) :=')
    for n, (ks, meth, ent) in enumerate(lbr):
        rows = ',\n      '.join(', '.join(ent[6 * i:6 * i + 6]) for i in range(6))
        L.append(f'  {"if" if n == 0 else "else if"} keys = {_llist(_ls(k) for k in ks)} then some [\n      {rows}]')
    L.append('  else none')
    L.append('end')
    return L


# ---- load('system_model') ---------------------------------------------------------------------------------------------

def _tr_load(tree):
    import ast
    L = ["/-! ### `load('system_model', model, symbols=, key=, index=)`: which entry is read -/"]
    fn = _find_def(tree, 'load')
    ps, kw = _params(fn, skip_self=False)
    _expect([p[0] for p in ps] == ['model', 'symbols', 'key', 'index'] and kw is None, 'load: parameters')
    b = _body(fn)
    tgt, val = _assign(b[0])
    _expect(isinstance(tgt, ast.Name) and isinstance(val, ast.Call) and isinstance(val.func, ast.Attribute)
            and _u_(val.func.value) == 'DM(model)' and [_u_(a) for a in val.args] == ['key'] and not val.keywords,
            'load: lookup ' + _u_(b[0]))
    var = tgt.id
    lookup = val.func.attr
    _expect(isinstance(b[1], ast.If) and _u_(b[1].test) == f'len({var}) == 0' and not b[1].orelse
            and len(b[1].body) == 1 and isinstance(b[1].body[0], ast.Raise), 'load: nothing found')
    _expect(isinstance(b[2], ast.Try) and [_u_(s) for s in b[2].body] == [f'{var} = {var}[index]']
            and len(b[2].handlers) == 1 and isinstance(b[2].handlers[0].body[0], ast.Raise), 'load: indexing ' + _u_(b[2])[:60])
    br = b[3]
    t = br.test if isinstance(br, ast.If) else None
    _expect(t is not None and isinstance(t, ast.Compare) and isinstance(t.ops[0], ast.In) and isinstance(t.left, ast.Constant)
            and _u_(t.comparators[0]) == var and len(br.body) == 1, 'load: box / cell branch')
    tgt, val = _assign(br.body[0])
    _expect(isinstance(val, ast.Call) and _u_(val.func) == 'System' and not val.args, 'load: System(...)')
    passes = {k.arg: k.value for k in val.keywords}
    _expect(sorted(passes) == ['model', 'symbols'] and _u_(passes['symbols']) == 'symbols', 'load: keywords of System(...)')
    m = passes['model']
    _expect(isinstance(m, ast.Call) and _u_(m.func) == 'DM' and len(m.args) == 1 and isinstance(m.args[0], ast.List)
            and len(m.args[0].elts) == 1 and isinstance(m.args[0].elts[0], ast.Tuple) and len(m.args[0].elts[0].elts) == 2
            and isinstance(m.args[0].elts[0].elts[0], ast.Constant) and _u_(m.args[0].elts[0].elts[1]) == var,
            'load: System(model=DM([(key, entry)]))')
    L.append(f'def loadParams : List (String × Option String) := {_lparams(ps)}')
    L.append('/-- `DM(model).<lookup>(key)`, then `[index]`; `<test key> in entry` selects `System(model=DM([(<wrap key>, '
             'entry)]), symbols=symbols)`. -/')
    L.append(f'def loadLookup : String := {_ls(lookup)}')
    L.append(f'def loadBoxTest : String := {_ls(t.left.value)}')
    L.append(f'def loadWrapKey : String := {_ls(m.args[0].elts[0].elts[0].value)}')
    return L


def translate():
    from ..translate import TranslationError
    try:
        return _translate()
    except (TranslationError, cm.InfraError):
        raise
    except (AttributeError, TypeError, IndexError, KeyError, ValueError, AssertionError) as e:
        # a statement of another kind where a particular one is expected: the source no longer has the translated form
        raise _TE(f'source form not recognised ({type(e).__name__}: {e})')


def _translate():
    import ast
    trees = {}
    for rel in ('atomman/unitconvert.py', 'atomman/core/Box.py', 'atomman/core/Atoms.py', 'atomman/core/System.py',
                'atomman/core/ElasticConstants.py', 'atomman/dump/system_model/dump.py',
                'atomman/load/system_model/load.py'):
        try:
            trees[rel] = ast.parse(cm.source(rel))
        except SyntaxError as e:
            raise _TE(f'{rel}: {e}')
    out = ['/- GENERATED by harness/props/c10.py (translate) from atomman/unitconvert.py, core/Box.py, core/Atoms.py, '
           'core/System.py,',
           '   core/ElasticConstants.py, dump/system_model/dump.py — do not edit.  Keys written and read (order, guards, '
           'packing), signatures and',
           '   defaults, pass-through keywords, setter tolerances, and the entries of `normalized_as` as Lean expressions;',
           '   `Proofs/C10_Source.lean` ties each definition to the hand model of `Atomman/C10.lean`. -/',
           'import Atomman.C10', '', 'namespace Atomman.Generated.ModelSource', 'open Atomman Atomman.C10', '']
    for part in (_tr_uc_model(trees['atomman/unitconvert.py']), _tr_value_unit(trees['atomman/unitconvert.py']),
                 _tr_box(trees['atomman/core/Box.py']), _tr_atoms(trees['atomman/core/Atoms.py']),
                 _tr_system(trees['atomman/core/System.py'], trees['atomman/dump/system_model/dump.py']),
                 _tr_elastic(trees['atomman/core/ElasticConstants.py']),
                 _tr_load(trees['atomman/load/system_model/load.py'])):
        out += part + ['']
    out.append('end Atomman.Generated.ModelSource')
    return {'ModelSource': '\n'.join(out) + '\n'}


MANIFEST = {
    'text': 'Lean model of uc.model/uc.value_unit/uc.error_unit (rank 0 / 1 / >=2 with shape, unit key, error=), of the '
            'DataModelDict tree (ordered key->value, append/aslist, XML one-element-list collapse xmlNorm), of the '
            'Box/Atoms/System/ElasticConstants model writers and model= constructors (scaled properties, default '
            'pos->angstrom, symbols/masses padding, near-zero clean-up of the vects/Cij setters), of '
            'ElasticConstants.normalized_as for every crystal system (normForm) and of objects with state (a Box keeps '
            'its reciprocal vectors until the vects setter drops them; a System holds its Box; Box.model(model=) on an '
            'existing object; in-place edit of a coordinate) and of the argument handling of Atoms.model / System.model '
            '(resolveCall: prop_unit dictionary, prop_name + unit lists, unit list alone, prop_name alone, nothing; '
            'refusals). Theorems (all inputs, any field): reshape(flatten)=id and flatten(reshape)=id for every '
            'shape; value_unit(model(x))=x and error_unit = the stored error for every non-zero factor, through the tree '
            'and through XML text (exact exception: a shape-(1,) vector is read as a scalar); Box, Atoms, System (cell, '
            'origin, pbc, symbols, masses, every property incl. box-scaled ones via rel_cart inverse, det != 0; also for '
            'System.model with any selection of the properties that names atype, pos first: system_model_select) and '
            'ElasticConstants round trips through tree/JSON and XML text; a crystal in the general normal form of the '
            'requested crystal_system (3 cubic, 5 hexagonal, 7 tetragonal, 7 rhombohedral, 9 orthorhombic, 13 monoclinic '
            'constants) '
            'comes back exactly and the stored representation is stable under re-storing; in every reachable state '
            'of a Box object its conversions are those of its current cell, so an existing Box updated from a model '
            'and a System written with box-scaled positions behave like freshly constructed objects; every call form '
            'that describes the same properties and units writes the same tree, the bare unit list is aligned with the '
            "object's own properties (system_model_unit_list_roundtrip), the documented refusals; the object "
            'invariants are established by the setters (cleanVects_idem, cijSet_idem); the stored physical value is '
            'independent of the working units at write vs read time, and under two configurations every number '
            '(value, error, box length, box-scaled property, elastic constant) comes back times the C09 dimension '
            'factor ratio. Tie: differential correspondence of the real writers/readers and of object operation '
            'sequences against the Lean driver over tree, JSON text and XML text under different uc.reset_units '
            'configurations, numpy reshape vs the model; clause oracle on the real code with unit factors of compound '
            'unit expressions evaluated independently of uc.parse, uc.unit and numericalunits\' derived units (own table: SI '
            'value and dimension per name, base factors from the chosen working units) and an exact rational account of '
            'object sessions. Counts: the array read back from a value list is decided by all its entries in any cut '
            'into blocks (value_list_blocks_int / _tail_decides / _blocks_num / _blocks_str); long values (up to 131073 '
            'stored numbers) and systems of 2^15 + 1 / 2^16 + 1 atoms go through tie and oracle on every run. Round 5: '
            'an ast translator regenerates Generated/ModelSource.lean from the current source on every run (keys each '
            'writer stores with order / guards / packing by rank, keys each reader looks up, defaults, pass-through '
            'keywords, setter tolerances, the format chains of dump, and the 36 entries of normalized_as as Lean '
            'expressions by partial evaluation of ElasticConstants(**c_dict)); Proofs/C10_Source.lean proves each '
            'generated definition equal to the hand model or the model\'s behaviour on all inputs equal to it '
            '(gen_normForm_eq_model, gen_*_keys_eq_model, gen_*_reads_only, gen_dumpEncoding_eq_model ...); end-to-end '
            'theorems compose call-form resolution, writer, text encoding (tree / json / xml) and reader into the '
            'API-level statement load(dump(x)) = x for System, Atoms, Box, values and ElasticConstants; the writers are '
            'injective; float arrays of every size incl. empty ones; the option handling of dump (dumpEncoding: tree / '
            'json / xml / nothing) with its own correspondence op.',
    'note': 'Trusted: Lean kernel + propext/Classical.choice/Quot.sound; DataModelDict/xmltodict/json codecs (observed, '
            'not verified: JSON = identity on the tree, XML = xmlNorm); uc.parse factors are parameters (C09), supplied '
            'on each run by an evaluator that shares nothing with uc.parse; the Hill estimates behind '
            "normalized_as('isotropic') are parameters (C11); float rounding bounded by 2e-15 plus the unit "
            "expression's operation count (1e-9 norm-wise for box-scaled data and reciprocal vectors).",
    'technique': 'Lean 4 theorems over a hand-written executable model + ast translator with gen_..._eq_model obligations '
                 '+ differential correspondence + clause oracle',
}
