"""C12 translator: IsotropicVolterraDislocation.py -> lean/Atomman/Generated/IsoVolterra.lean

(kept in its own file only for readability; `harness/props/c12.py` re-exports `translate`).

What is generated (straight-line arithmetic, regenerated from /repo's working tree on every run):
  isoDisp_m / isoDisp_n / isoDisp_ξ   displacement components along m, n, ξ
  isoStrain_i_j, isoStress_i_j        the nine components of the local (m, n, ξ-frame) tensors
  isoKe, isoKs                        diagonal of the energy-coefficient tensor in the m, n, ξ frame
  isoNu                               Poisson's ratio from the bulk and shear moduli
What is only *checked for its exact text* (numpy plumbing that the hand-written model mirrors; a change
there raises TranslationError -> broken tie): the definitions of x, y, b_s, b_e, nu, mu, the frame matrix
`np.array([self.m, self.n, self.ξ]).T`, the einsum that rotates the local tensor to the lab frame, the
`np.outer` recombination of the displacement and the single-point reshape.
"""
from __future__ import annotations

import ast
from fractions import Fraction

from .. import common as cm
from ..translate import TranslationError, strip_doc, ExprTranslator, lit

CLS = '[Add K] [Sub K] [Mul K] [Div K] [Neg K] [NatCast K]'
SRC = 'atomman/defect/IsotropicVolterraDislocation.py'

BINDINGS = {
    'x': 'pos.dot(self.m)',
    'y': 'pos.dot(self.n)',
    'b_s': 'self.burgers.dot(self.ξ)',
    'b_e': 'self.burgers.dot(self.m)',
    'nu': 'self.nu',
    'mu': 'self.mu',
}
PLUMBING = {
    'pos = np.asarray(pos)',
    'if pos.shape == (3,):\n    pos = pos.reshape(1, 3)',
    'strain = np.empty(pos.shape[:-1] + (3, 3))',
    'stress = np.empty(pos.shape[:-1] + (3, 3))',
    'transform = np.array([self.m, self.n, self.ξ]).T',
}
ROTATE = {
    'strain': "strain = np.einsum('mi, nj, ...ij -> ...mn', transform, transform, strain)",
    'stress': "stress = np.einsum('mi, nj, ...ij -> ...mn', transform, transform, stress)",
}
OUTER = 'disp = np.outer(disp_ξ, self.ξ) + np.outer(disp_m, self.m) + np.outer(disp_n, self.n)'


def _method(tree, cls, name):
    for node in tree.body:
        if isinstance(node, ast.ClassDef) and node.name == cls:
            c = [n for n in node.body if isinstance(n, ast.FunctionDef) and n.name == name]
            if len(c) != 1:
                raise TranslationError(f'{cls}.{name} not found exactly once')
            return c[0]
    raise TranslationError(f'class {cls} not found')


def _is_tail_return(st, var):
    """`if var.shape[0] == 1: return var[0] else: return var`"""
    return isinstance(st, ast.If) and ast.unparse(st.test) == f'{var}.shape[0] == 1' \
        and len(st.body) == 1 and ast.unparse(st.body[0]) == f'return {var}[0]' \
        and len(st.orelse) == 1 and ast.unparse(st.orelse[0]) == f'return {var}'


def _comp_index(target, var):
    """`var[..., i, j]` -> (i, j) | None"""
    if isinstance(target, ast.Subscript) and isinstance(target.value, ast.Name) and target.value.id == var \
            and isinstance(target.slice, ast.Tuple) and len(target.slice.elts) == 3:
        e, i, j = target.slice.elts
        if isinstance(e, ast.Constant) and e.value is Ellipsis and isinstance(i, ast.Constant) \
                and isinstance(j, ast.Constant) and i.value in (0, 1, 2) and j.value in (0, 1, 2) \
                and isinstance(i.value, int) and isinstance(j.value, int):
            return i.value, j.value
    return None


def _special(var):
    def special(node, tr):
        u = ast.unparse(node)
        if u == 'np.pi':
            return 'pi', 'K'
        if u == 'self.theta(pos)':
            if 'theta' not in tr.env:
                raise TranslationError('theta used where no θ parameter is declared')
            return 'theta', 'K'
        if u == 'self.mu' and 'mu' in tr.env:
            return 'mu', 'K'
        if u == 'self.nu' and 'nu' in tr.env:
            return 'nu', 'K'
        if isinstance(node, ast.Call) and ast.unparse(node.func) == 'np.log' and len(node.args) == 1 \
                and not node.keywords:
            if 'theta' not in tr.env:
                raise TranslationError('log used where no log parameter is declared')
            a, t = tr.tr(node.args[0])
            return f'(log {a})', 'K'
        if var is not None:
            ij = _comp_index(node, var)
            if ij is not None:
                nm = f'{var}_{ij[0]}_{ij[1]}'
                if nm not in tr.env:
                    raise TranslationError(f'{u} read before it is assigned')
                return nm, 'K'
        return None
    return special


def _walk(fn, var, inputs, allow_symbolic):
    """returns (lets [(name, lean)], comps {(i,j): name} or {name: name}, seen bindings)."""
    env = {k: 'K' for k in inputs}
    if allow_symbolic:
        env['theta'] = 'K'
    tr = ExprTranslator(env, special=_special(var if var != 'disp' else None))
    lets, comps, bound = [], {}, set()
    rotated = var == 'disp'
    outer = False
    tail = False
    for st in strip_doc(fn.body):
        u = ast.unparse(st)
        if tail:
            raise TranslationError(f'{fn.name}: statement after the return')
        if u in PLUMBING:
            continue
        if _is_tail_return(st, var):
            tail = True
            continue
        if var in ROTATE and u == ROTATE[var]:
            rotated = True
            continue
        if var == 'disp' and u == OUTER:
            outer = True
            continue
        if rotated and var != 'disp':
            raise TranslationError(f'{fn.name}: statement after the frame rotation: {u[:60]}')
        if isinstance(st, ast.Assign) and len(st.targets) == 1 and isinstance(st.targets[0], ast.Name) \
                and st.targets[0].id in BINDINGS:
            nm = st.targets[0].id
            if ast.unparse(st.value) != BINDINGS[nm]:
                raise TranslationError(f'{fn.name}: {nm} is no longer {BINDINGS[nm]}: {u}')
            if nm not in inputs:
                raise TranslationError(f'{fn.name}: unexpected input {nm}')
            bound.add(nm)
            continue
        if isinstance(st, ast.Assign) and all(isinstance(t, ast.Name) for t in st.targets):
            s, t = tr.tr(st.value)
            for tg in st.targets:
                if tg.id in inputs or tg.id in ('pi', 'theta', 'log'):
                    raise TranslationError(f'{fn.name}: input {tg.id} reassigned')
                lets.append((tg.id, s))
                tr.env[tg.id] = 'K'
                s = tg.id
            continue
        if isinstance(st, ast.Assign) and all(_comp_index(t, var) is not None for t in st.targets):
            s, t = tr.tr(st.value)
            # python evaluates the value once and assigns left to right
            first = None
            for tg in st.targets:
                i, j = _comp_index(tg, var)
                nm = f'{var}_{i}_{j}'
                lets.append((nm, s if first is None else first))
                if first is None:
                    first = nm
                tr.env[nm] = 'K'
                comps[(i, j)] = nm
            continue
        raise TranslationError(f'{fn.name}: unsupported statement: {u[:80]}')
    if not tail:
        raise TranslationError(f'{fn.name}: single-point/array return not found')
    if var in ROTATE and not rotated:
        raise TranslationError(f'{fn.name}: rotation of the local tensor to the lab frame not found')
    if var == 'disp' and not outer:
        raise TranslationError('displacement: recombination along ξ, m, n not found')
    missing = [k for k in inputs if k not in bound and k in BINDINGS]
    if missing:
        raise TranslationError(f'{fn.name}: inputs {missing} are not defined as expected')
    return lets, comps


def _emit(name, params, lets, upto, result, doc):
    """def with all lets that precede (and include) `upto` (shadowing-safe: python names may repeat)."""
    idx = max(i for i, (n, _) in enumerate(lets) if n == upto)
    lines = [f'/-- {doc} -/', f'def {name} {{K : Type}} {CLS}', f'    {params} : K :=']
    for n, s in lets[:idx + 1]:
        lines.append(f'  let {n} := {s}')
    lines.append(f'  {result}')
    return '\n'.join(lines) + '\n'


def translate():
    src = cm.source(SRC)
    tree = ast.parse(src)
    cls = 'IsotropicVolterraDislocation'
    parts = [f'/- GENERATED by harness/props/c12.py from {SRC} — do not edit. -/',
             'set_option linter.unusedVariables false',
             'namespace Atomman.Gen', '']
    # ---- displacement -----------------------------------------------------------------------
    fn = _method(tree, cls, 'displacement')
    inputs = ['x', 'y', 'b_s', 'b_e', 'nu']
    lets, _ = _walk(fn, 'disp', inputs, allow_symbolic=True)
    names = [n for n, _ in lets]
    for want in ('disp_m', 'disp_n', 'disp_ξ'):
        if names.count(want) != 1:
            raise TranslationError(f'displacement: {want} not assigned exactly once')
        parts.append(_emit('iso' + want[0].upper() + want[1:], '(log : K → K) (x y nu b_e b_s pi theta : K)', lets, want,
                           want, f'`{want}` of IsotropicVolterraDislocation.displacement (component along '
                           f'{want[-1]}); `theta` = self.theta(pos), `log` = np.log'))
    # ---- strain / stress --------------------------------------------------------------------
    for var, inputs, params in (('strain', ['x', 'y', 'b_s', 'b_e', 'nu'], '(x y nu b_e b_s pi : K)'),
                                ('stress', ['x', 'y', 'b_s', 'b_e', 'nu', 'mu'], '(x y nu mu b_e b_s pi : K)')):
        fn = _method(tree, cls, var)
        lets, comps = _walk(fn, var, inputs, allow_symbolic=False)
        for i in range(3):
            for j in range(3):
                if (i, j) not in comps:
                    raise TranslationError(f'{var}[..., {i}, {j}] is never assigned (np.empty garbage)')
                nm = comps[(i, j)]
                parts.append(_emit(f'iso{var.capitalize()}_{i}_{j}', params, lets, nm, nm,
                                   f'local component [{i},{j}] (m, n, ξ frame) of IsotropicVolterraDislocation.{var}'))
        args = params.strip('()').split(' : ')[0]
        rows = []
        for i in range(3):
            for j in range(3):
                rows.append(f'  | {i}, {j} => iso{var.capitalize()}_{i}_{j} {args}')
        rows[-1] = f'  | _, _ => iso{var.capitalize()}_2_2 {args}'
        parts.append(f'def iso{var.capitalize()} {{K : Type}} {CLS}\n    {params} (i j : Fin 3) : K :=\n'
                     f'  match i.val, j.val with\n' + '\n'.join(rows) + '\n')
    # ---- K_tensor diagonal ------------------------------------------------------------------
    fn = _method(tree, cls, 'K_tensor')
    body = [ast.unparse(s) for s in strip_doc(fn.body)]
    want = ['K = np.array([[K_e, 0.0, 0.0], [0.0, K_e, 0.0], [0.0, 0.0, K_s]])',
            'trans = np.array([self.m, self.n, self.ξ])',
            'K = trans.T.dot(K.dot(trans))',
            'K[np.isclose(K / K.max(), 0.0, atol=self.tol)] = 0.0',
            'return K']
    if body[2:] != want:
        raise TranslationError('K_tensor: body differs from diag(K_e, K_e, K_s) rotated by [m, n, ξ]: ' + repr(body[2:]))
    tr = ExprTranslator({'mu': 'K', 'nu': 'K'}, special=_special(None))
    for st, nm in zip(strip_doc(fn.body)[:2], ('K_e', 'K_s')):
        if not (isinstance(st, ast.Assign) and ast.unparse(st.targets[0]) == nm):
            raise TranslationError(f'K_tensor: expected assignment of {nm}')
        s, _ = tr.tr(st.value)
        parts.append(f'/-- `{nm}` of IsotropicVolterraDislocation.K_tensor -/\n'
                     f'def iso{nm.replace("_", "")} {{K : Type}} {CLS}\n    (mu nu : K) : K :=\n  {s}\n')
    # ---- Poisson ratio ----------------------------------------------------------------------
    fn = _method(tree, cls, 'solve')
    found = None
    for st in ast.walk(fn):
        if isinstance(st, ast.Assign) and ast.unparse(st.targets[0]) == 'self.__nu':
            found = st.value
    tail = [ast.unparse(s) for s in fn.body[-3:]]
    if found is None or tail[0] != 'bulk = self.C.bulk()' or tail[1] != 'self.__mu = self.C.shear()':
        raise TranslationError('solve: bulk/mu/nu assignments not found as expected')
    tr = ExprTranslator({'bulk': 'K', 'mu': 'K'}, special=_special(None))
    s, _ = tr.tr(found)
    parts.append('/-- Poisson ratio from the bulk and shear moduli (IsotropicVolterraDislocation.solve) -/\n'
                 f'def isoNu {{K : Type}} {CLS}\n    (bulk mu : K) : K :=\n  {s}\n')
    parts.append('end Atomman.Gen\n')
    return {'IsoVolterra': '\n'.join(parts)}
