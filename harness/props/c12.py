"""C12 — Volterra dislocation fields (Stroh anisotropic solver, isotropic closed form, orientation handling).

Tie (both kinds):
* translator: `translate()` regenerates lean/Atomman/Generated/IsoVolterra.lean from
  atomman/defect/IsotropicVolterraDislocation.py on every run (see the section "translator" below);
* correspondence: the real `Stroh` solver is run, its eigen-solver output `p, A, L, k` (and `k**.5`), the rotated
  `C`, `m`, `n`, `b` are sent as exact rationals of the doubles (complex numbers as re/im pairs) to the compiled
  Lean driver, which recomputes with the *model's* definitions the eigen-equation residuals `N v - p v`, the sextic
  residual, the four orthogonality self-checks, `K_tensor`, the Burgers closure and the fields at sample points
  (with `np.log(eta)` values as inputs); orientation handling (`__mn_check`, `axes_check`, `__find_transform`,
  rotation of `C` and `b`) and the isotropic closed form (generated definitions + hand-written plumbing) are
  compared the same way; the entry point solve_volterra_dislocation (try Stroh, fall back to the isotropic solver on
  ValueError) and the isotropic solver's acceptance test (isotropic constants, Burgers vector in the slip plane) are
  compared with the model's `dispatch` / `isoInPlaneOk` over a sweep of the anisotropy from 0 to 0.1.
Search: the property's clauses on the REAL code: finite-difference symmetric gradient, C:strain (exact Fractions),
divergence, Burgers circuit / continuity, 1/r, K real-symmetric-positive-definite (exact Sylvester minors),
covariance under rational rotations, refusals of non-unit / non-orthogonal axes; the dispatcher over the whole
anisotropy range with general Burgers vectors (jump = b, returned class, distance to an independent complete closed-form
isotropic solution, continuity in the anisotropy); solve -> read -> solve -> read sequences on one object.

What is generated (straight-line arithmetic, regenerated from /repo's working tree on every run):
  isoDisp_m / isoDisp_n / isoDisp_ξ   displacement components along m, n, ξ
  isoStrain_i_j, isoStress_i_j        the nine components of the local (m, n, ξ-frame) tensors
  isoKe, isoKs                        diagonal of the energy-coefficient tensor in the m, n, ξ frame
  isoNu                               Poisson's ratio from the bulk and shear moduli
What is only *checked for its exact text* (numpy plumbing that the hand-written model mirrors; a change
there raises TranslationError -> broken tie): the definitions of x, y, b_s, b_e, nu, mu, the frame matrix
`np.array([self.m, self.n, self.ξ]).T`, the einsum that rotates the local tensor to the lab frame, the
`np.outer` recombination of the displacement and the single-point reshape.
"""
from __future__ import annotations

import ast
from fractions import Fraction

from .. import common as cm
from ..translate import TranslationError, strip_doc, ExprTranslator, lit

CLS = '[Add K] [Sub K] [Mul K] [Div K] [Neg K] [NatCast K]'
SRC = 'atomman/defect/IsotropicVolterraDislocation.py'

BINDINGS = {
    'x': 'pos.dot(self.m)',
    'y': 'pos.dot(self.n)',
    'b_s': 'self.burgers.dot(self.ξ)',
    'b_e': 'self.burgers.dot(self.m)',
    'nu': 'self.nu',
    'mu': 'self.mu',
}
PLUMBING = {
    'pos = np.asarray(pos)',
    'if pos.shape == (3,):\n    pos = pos.reshape(1, 3)',
    'strain = np.empty(pos.shape[:-1] + (3, 3))',
    'stress = np.empty(pos.shape[:-1] + (3, 3))',
    'transform = np.array([self.m, self.n, self.ξ]).T',
}
ROTATE = {
    'strain': "strain = np.einsum('mi, nj, ...ij -> ...mn', transform, transform, strain)",
    'stress': "stress = np.einsum('mi, nj, ...ij -> ...mn', transform, transform, stress)",
}
OUTER = 'disp = np.outer(disp_ξ, self.ξ) + np.outer(disp_m, self.m) + np.outer(disp_n, self.n)'


def _method(tree, cls, name):
    for node in tree.body:
        if isinstance(node, ast.ClassDef) and node.name == cls:
            c = [n for n in node.body if isinstance(n, ast.FunctionDef) and n.name == name]
            if len(c) != 1:
                raise TranslationError(f'{cls}.{name} not found exactly once')
            return c[0]
    raise TranslationError(f'class {cls} not found')


def _is_tail_return(st, var):
    """`if var.shape[0] == 1: return var[0] else: return var`"""
    return isinstance(st, ast.If) and ast.unparse(st.test) == f'{var}.shape[0] == 1' \
        and len(st.body) == 1 and ast.unparse(st.body[0]) == f'return {var}[0]' \
        and len(st.orelse) == 1 and ast.unparse(st.orelse[0]) == f'return {var}'


def _comp_index(target, var):
    """`var[..., i, j]` -> (i, j) | None"""
    if isinstance(target, ast.Subscript) and isinstance(target.value, ast.Name) and target.value.id == var \
            and isinstance(target.slice, ast.Tuple) and len(target.slice.elts) == 3:
        e, i, j = target.slice.elts
        if isinstance(e, ast.Constant) and e.value is Ellipsis and isinstance(i, ast.Constant) \
                and isinstance(j, ast.Constant) and i.value in (0, 1, 2) and j.value in (0, 1, 2) \
                and isinstance(i.value, int) and isinstance(j.value, int):
            return i.value, j.value
    return None


def _special(var):
    def special(node, tr):
        u = ast.unparse(node)
        if u == 'np.pi':
            return 'pi', 'K'
        if u == 'self.theta(pos)':
            if 'theta' not in tr.env:
                raise TranslationError('theta used where no θ parameter is declared')
            return 'theta', 'K'
        if u == 'self.mu' and 'mu' in tr.env:
            return 'mu', 'K'
        if u == 'self.nu' and 'nu' in tr.env:
            return 'nu', 'K'
        if isinstance(node, ast.Call) and ast.unparse(node.func) == 'np.log' and len(node.args) == 1 \
                and not node.keywords:
            if 'theta' not in tr.env:
                raise TranslationError('log used where no log parameter is declared')
            a, t = tr.tr(node.args[0])
            return f'(log {a})', 'K'
        if var is not None:
            ij = _comp_index(node, var)
            if ij is not None:
                nm = f'{var}_{ij[0]}_{ij[1]}'
                if nm not in tr.env:
                    raise TranslationError(f'{u} read before it is assigned')
                return nm, 'K'
        return None
    return special


def _walk(fn, var, inputs, allow_symbolic):
    """returns (lets [(name, lean)], comps {(i,j): name} or {name: name}, seen bindings)."""
    env = {k: 'K' for k in inputs}
    if allow_symbolic:
        env['theta'] = 'K'
    tr = ExprTranslator(env, special=_special(var if var != 'disp' else None))
    lets, comps, bound = [], {}, set()
    rotated = var == 'disp'
    outer = False
    tail = False
    for st in strip_doc(fn.body):
        u = ast.unparse(st)
        if tail:
            raise TranslationError(f'{fn.name}: statement after the return')
        if u in PLUMBING:
            continue
        if _is_tail_return(st, var):
            tail = True
            continue
        if var in ROTATE and u == ROTATE[var]:
            rotated = True
            continue
        if var == 'disp' and u == OUTER:
            outer = True
            continue
        if rotated and var != 'disp':
            raise TranslationError(f'{fn.name}: statement after the frame rotation: {u[:60]}')
        if isinstance(st, ast.Assign) and len(st.targets) == 1 and isinstance(st.targets[0], ast.Name) \
                and st.targets[0].id in BINDINGS:
            nm = st.targets[0].id
            if ast.unparse(st.value) != BINDINGS[nm]:
                raise TranslationError(f'{fn.name}: {nm} is no longer {BINDINGS[nm]}: {u}')
            if nm not in inputs:
                raise TranslationError(f'{fn.name}: unexpected input {nm}')
            bound.add(nm)
            continue
        if isinstance(st, ast.Assign) and all(isinstance(t, ast.Name) for t in st.targets):
            s, t = tr.tr(st.value)
            for tg in st.targets:
                if tg.id in inputs or tg.id in ('pi', 'theta', 'log'):
                    raise TranslationError(f'{fn.name}: input {tg.id} reassigned')
                lets.append((tg.id, s))
                tr.env[tg.id] = 'K'
                s = tg.id
            continue
        if isinstance(st, ast.Assign) and all(_comp_index(t, var) is not None for t in st.targets):
            s, t = tr.tr(st.value)
            # python evaluates the value once and assigns left to right
            first = None
            for tg in st.targets:
                i, j = _comp_index(tg, var)
                nm = f'{var}_{i}_{j}'
                lets.append((nm, s if first is None else first))
                if first is None:
                    first = nm
                tr.env[nm] = 'K'
                comps[(i, j)] = nm
            continue
        raise TranslationError(f'{fn.name}: unsupported statement: {u[:80]}')
    if not tail:
        raise TranslationError(f'{fn.name}: single-point/array return not found')
    if var in ROTATE and not rotated:
        raise TranslationError(f'{fn.name}: rotation of the local tensor to the lab frame not found')
    if var == 'disp' and not outer:
        raise TranslationError('displacement: recombination along ξ, m, n not found')
    missing = [k for k in inputs if k not in bound and k in BINDINGS]
    if missing:
        raise TranslationError(f'{fn.name}: inputs {missing} are not defined as expected')
    return lets, comps


def _emit(name, params, lets, upto, result, doc):
    """def with all lets that precede (and include) `upto` (shadowing-safe: python names may repeat)."""
    idx = max(i for i, (n, _) in enumerate(lets) if n == upto)
    lines = [f'/-- {doc} -/', f'def {name} {{K : Type}} {CLS}', f'    {params} : K :=']
    for n, s in lets[:idx + 1]:
        lines.append(f'  let {n} := {s}')
    lines.append(f'  {result}')
    return '\n'.join(lines) + '\n'


def translate():
    src = cm.source(SRC)
    tree = ast.parse(src)
    cls = 'IsotropicVolterraDislocation'
    parts = [f'/- GENERATED by harness/props/c12.py from {SRC} — do not edit. -/',
             'set_option linter.unusedVariables false',
             'namespace Atomman.Gen', '']
    # ---- displacement -----------------------------------------------------------------------
    fn = _method(tree, cls, 'displacement')
    inputs = ['x', 'y', 'b_s', 'b_e', 'nu']
    lets, _ = _walk(fn, 'disp', inputs, allow_symbolic=True)
    names = [n for n, _ in lets]
    for want in ('disp_m', 'disp_n', 'disp_ξ'):
        if names.count(want) != 1:
            raise TranslationError(f'displacement: {want} not assigned exactly once')
        parts.append(_emit('iso' + want[0].upper() + want[1:], '(log : K → K) (x y nu b_e b_s pi theta : K)', lets, want,
                           want, f'`{want}` of IsotropicVolterraDislocation.displacement (component along '
                           f'{want[-1]}); `theta` = self.theta(pos), `log` = np.log'))
    # ---- strain / stress --------------------------------------------------------------------
    for var, inputs, params in (('strain', ['x', 'y', 'b_s', 'b_e', 'nu'], '(x y nu b_e b_s pi : K)'),
                                ('stress', ['x', 'y', 'b_s', 'b_e', 'nu', 'mu'], '(x y nu mu b_e b_s pi : K)')):
        fn = _method(tree, cls, var)
        lets, comps = _walk(fn, var, inputs, allow_symbolic=False)
        for i in range(3):
            for j in range(3):
                if (i, j) not in comps:
                    raise TranslationError(f'{var}[..., {i}, {j}] is never assigned (np.empty garbage)')
                nm = comps[(i, j)]
                parts.append(_emit(f'iso{var.capitalize()}_{i}_{j}', params, lets, nm, nm,
                                   f'local component [{i},{j}] (m, n, ξ frame) of IsotropicVolterraDislocation.{var}'))
        args = params.strip('()').split(' : ')[0]
        rows = []
        for i in range(3):
            for j in range(3):
                rows.append(f'  | {i}, {j} => iso{var.capitalize()}_{i}_{j} {args}')
        rows[-1] = f'  | _, _ => iso{var.capitalize()}_2_2 {args}'
        parts.append(f'def iso{var.capitalize()} {{K : Type}} {CLS}\n    {params} (i j : Fin 3) : K :=\n'
                     f'  match i.val, j.val with\n' + '\n'.join(rows) + '\n')
    # ---- K_tensor diagonal ------------------------------------------------------------------
    fn = _method(tree, cls, 'K_tensor')
    body = [ast.unparse(s) for s in strip_doc(fn.body)]
    want = ['K = np.array([[K_e, 0.0, 0.0], [0.0, K_e, 0.0], [0.0, 0.0, K_s]])',
            'trans = np.array([self.m, self.n, self.ξ])',
            'K = trans.T.dot(K.dot(trans))',
            'K[np.isclose(K / K.max(), 0.0, atol=self.tol)] = 0.0',
            'return K']
    if body[2:] != want:
        raise TranslationError('K_tensor: body differs from diag(K_e, K_e, K_s) rotated by [m, n, ξ]: ' + repr(body[2:]))
    tr = ExprTranslator({'mu': 'K', 'nu': 'K'}, special=_special(None))
    for st, nm in zip(strip_doc(fn.body)[:2], ('K_e', 'K_s')):
        if not (isinstance(st, ast.Assign) and ast.unparse(st.targets[0]) == nm):
            raise TranslationError(f'K_tensor: expected assignment of {nm}')
        s, _ = tr.tr(st.value)
        parts.append(f'/-- `{nm}` of IsotropicVolterraDislocation.K_tensor -/\n'
                     f'def iso{nm.replace("_", "")} {{K : Type}} {CLS}\n    (mu nu : K) : K :=\n  {s}\n')
    # ---- Poisson ratio ----------------------------------------------------------------------
    fn = _method(tree, cls, 'solve')
    found = None
    for st in ast.walk(fn):
        if isinstance(st, ast.Assign) and ast.unparse(st.targets[0]) == 'self.__nu':
            found = st.value
    tail = [ast.unparse(s) for s in fn.body[-3:]]
    if found is None or tail[0] != 'bulk = self.C.bulk()' or tail[1] != 'self.__mu = self.C.shear()':
        raise TranslationError('solve: bulk/mu/nu assignments not found as expected')
    tr = ExprTranslator({'bulk': 'K', 'mu': 'K'}, special=_special(None))
    s, _ = tr.tr(found)
    parts.append('/-- Poisson ratio from the bulk and shear moduli (IsotropicVolterraDislocation.solve) -/\n'
                 f'def isoNu {{K : Type}} {CLS}\n    (bulk mu : K) : K :=\n  {s}\n')
    parts.append('end Atomman.Gen\n')
    return {'IsoVolterra': '\n'.join(parts), 'StrohSource': translate_source()}


# ==========================================================================================
# source tie, round 5: Stroh.py, VolterraDislocation.py, solve_volterra_dislocation.py, dislocation_system_transform.py,
# the acceptance tests of IsotropicVolterraDislocation.solve and ElasticConstants.transform -> Generated/StrohSource.lean
# ==========================================================================================
SRC_STROH = 'atomman/defect/Stroh.py'
SRC_BASE = 'atomman/defect/VolterraDislocation.py'
SRC_DISP = 'atomman/defect/solve_volterra_dislocation.py'
SRC_DST = 'atomman/defect/dislocation_system_transform.py'
SRC_EC = 'atomman/core/ElasticConstants.py'


class Arr:
    """an array-valued expression, per field point: `dims` (sizes 3 / 6), `fn(index names) -> Lean term`."""

    def __init__(self, dims, fn):
        self.dims = tuple(dims)
        self.fn = fn


def _lty(dims):
    s = 'F'
    for d in reversed(dims):
        s = f'Fin {d} → {s}'
    return s


def _flit(v):
    fr_ = Fraction(v)
    n, d = fr_.numerator, fr_.denominator
    s = f'(({abs(n)} : Nat) : F)'
    if d != 1:
        s = f'({s} / (({d} : Nat) : F))'
    if n < 0:
        s = f'(-{s})'
    return s


def _lstr(s):
    return '"' + s.replace('\\', '\\\\').replace('"', '\\"').replace('\n', '\\n') + '"'


SELF_ARR = {'self.m': ('m', (3,)), 'self.n': ('n', (3,)), 'self.burgers': ('b', (3,)), 'self.p': ('p', (6,)),
            'self.k': ('k', (6,)), 'self.A': ('A', (6, 3)), 'self.L': ('L', (6, 3)), 'self.C.Cijkl': ('C', (3, 3, 3, 3)),
            'self.K_tensor': ('Kt', (3, 3))}


class ArrTr:
    """numpy expressions of the Stroh / orientation code -> Lean terms over explicit index sums (`sum3`, `sum6`)."""

    def __init__(self, env, what):
        self.env = dict(env)
        self.cnt = 0
        self.what = what

    def bad(self, msg):
        raise TranslationError(f'{self.what}: {msg}')

    def fresh(self):
        self.cnt += 1
        return f'i{self.cnt}'

    @staticmethod
    def ref(name, dims):
        if not dims:
            return Arr((), lambda ix: name)
        return Arr(dims, lambda ix: '(' + name + ' ' + ' '.join(ix) + ')')

    def lam(self, a):
        if not a.dims:
            return a.fn([])
        ix = [self.fresh() for _ in a.dims]
        return '(fun ' + ' '.join(ix) + ' => ' + a.fn(ix) + ')'

    def ssum(self, d, var, body):
        if d not in (3, 6):
            self.bad(f'sum over an axis of length {d}')
        return f'(sum{d} fun {var} => {body})'

    def binop(self, op, a, b):
        r = max(len(a.dims), len(b.dims))
        dims = []
        for t in range(1, r + 1):
            da = a.dims[-t] if t <= len(a.dims) else None
            db = b.dims[-t] if t <= len(b.dims) else None
            if da is not None and db is not None and da != db:
                self.bad(f'shapes {a.dims} and {b.dims} do not broadcast')
            dims.append(da if da is not None else db)
        dims = tuple(reversed(dims))

        def fn(ix, a=a, b=b):
            xa = a.fn(ix[len(ix) - len(a.dims):])
            xb = b.fn(ix[len(ix) - len(b.dims):])
            return f'({xa} {op} {xb})'
        return Arr(dims, fn)

    def einsum(self, spec, ops):
        spec = spec.replace(' ', '')
        if '->' in spec:
            ins, out = spec.split('->')
        else:
            ins, out = spec, None
        terms = [t[3:] if t.startswith('...') else t for t in ins.split(',')]
        if out is not None and out.startswith('...'):
            out = out[3:]
        if len(terms) != len(ops):
            self.bad(f'einsum {spec!r} with {len(ops)} operands')
        size = {}
        order = []
        for t, o in zip(terms, ops):
            if len(t) != len(o.dims) or not t.isalpha() and t != '':
                self.bad(f'einsum term {t!r} for an operand of shape {o.dims}')
            for ch, d in zip(t, o.dims):
                if size.setdefault(ch, d) != d:
                    self.bad(f'einsum index {ch} has two lengths')
                if ch not in order:
                    order.append(ch)
        if out is None:
            allch = ''.join(terms)
            out = ''.join(sorted(ch for ch in set(allch) if allch.count(ch) == 1))
        if len(set(out)) != len(out) or any(ch not in size for ch in out):
            self.bad(f'einsum output {out!r}')
        summed = [ch for ch in order if ch not in out]

        def fn(ix, terms=terms, ops=ops, out=out, summed=summed, size=size):
            name = dict(zip(out, ix))
            for ch in summed:
                name[ch] = self.fresh()
            body = ' * '.join(o.fn([name[ch] for ch in t]) for t, o in zip(terms, ops))
            for ch in reversed(summed):
                body = self.ssum(size[ch], name[ch], body)
            return body if summed else f'({body})'
        return Arr(tuple(size[ch] for ch in out), fn)

    def dot(self, a, b):
        if not a.dims or not b.dims:
            self.bad('dot with a scalar')
        d = a.dims[-1]
        kb = 0 if len(b.dims) == 1 else len(b.dims) - 2
        if b.dims[kb] != d:
            self.bad(f'dot of shapes {a.dims} and {b.dims}')
        dims = a.dims[:-1] + b.dims[:kb] + b.dims[kb + 1:]

        def fn(ix, a=a, b=b, kb=kb, d=d):
            v = self.fresh()
            ia = list(ix[:len(a.dims) - 1]) + [v]
            rest = list(ix[len(a.dims) - 1:])
            ib = rest[:kb] + [v] + rest[kb:]
            return self.ssum(d, v, f'{a.fn(ia)} * {b.fn(ib)}')
        return Arr(dims, fn)

    def tr(self, node):
        u = ast.unparse(node)
        if isinstance(node, ast.Constant) and isinstance(node.value, (int, float)) and not isinstance(node.value, bool):
            return Arr((), lambda ix, v=node.value: _flit(v))
        if isinstance(node, ast.Name):
            if node.id not in self.env:
                self.bad(f'unknown name {node.id}')
            return self.env[node.id]
        if u in SELF_ARR and u.split('.', 1)[0] == 'self' and ('self:' + SELF_ARR[u][0]) in self.env:
            return self.env['self:' + SELF_ARR[u][0]]
        if ('attr:' + u) in self.env:
            return self.env['attr:' + u]
        if u == 'np.pi' and 'np.pi' in self.env:
            return self.env['np.pi']
        if isinstance(node, ast.Attribute) and node.attr == 'T':
            a = self.tr(node.value)
            if len(a.dims) != 2:
                self.bad(f'.T of an array of shape {a.dims}')
            return Arr((a.dims[1], a.dims[0]), lambda ix, a=a: a.fn([ix[1], ix[0]]))
        if isinstance(node, ast.UnaryOp) and isinstance(node.op, ast.USub):
            a = self.tr(node.operand)
            return Arr(a.dims, lambda ix, a=a: f'(-{a.fn(ix)})')
        if isinstance(node, ast.BinOp):
            if isinstance(node.op, ast.Pow):
                if ast.unparse(node.left) == 'k' and isinstance(node.right, ast.Constant) and node.right.value == 0.5 \
                        and 'sqrt:k' in self.env:
                    return self.env['sqrt:k']
                self.bad(f'power {u}')
            ops = {ast.Add: '+', ast.Sub: '-', ast.Mult: '*', ast.Div: '/'}
            if type(node.op) not in ops:
                self.bad(f'operator in {u}')
            return self.binop(ops[type(node.op)], self.tr(node.left), self.tr(node.right))
        if isinstance(node, ast.Call):
            f = ast.unparse(node.func)
            args = node.args
            if f == 'np.einsum' and not node.keywords and args and isinstance(args[0], ast.Constant) \
                    and isinstance(args[0].value, str):
                return self.einsum(args[0].value, [self.tr(a) for a in args[1:]])
            if f == 'np.dot' and len(args) == 2 and not node.keywords:
                return self.dot(self.tr(args[0]), self.tr(args[1]))
            if isinstance(node.func, ast.Attribute) and node.func.attr == 'dot' and len(args) == 1 and not node.keywords:
                return self.dot(self.tr(node.func.value), self.tr(args[0]))
            if f == 'np.outer' and len(args) == 2 and not node.keywords:
                a, b = self.tr(args[0]), self.tr(args[1])
                return Arr(a.dims + b.dims, lambda ix, a=a, b=b: f'({a.fn(ix[:len(a.dims)])} * {b.fn(ix[len(a.dims):])})')
            if f == 'np.cross' and len(args) == 2 and not node.keywords:
                a, b = self.tr(args[0]), self.tr(args[1])
                if a.dims != (3,) or b.dims != (3,):
                    self.bad(f'cross of shapes {a.dims}, {b.dims}')
                return Arr((3,), lambda ix, a=a, b=b: f'(cross {self.lam(a)} {self.lam(b)} {ix[0]})')
            if f == 'np.linalg.inv' and len(args) == 1 and not node.keywords and ('inv:' + ast.unparse(args[0])) in self.env:
                return self.env['inv:' + ast.unparse(args[0])]
            if f == 'np.log' and len(args) == 1 and not node.keywords and ('log:' + ast.unparse(args[0])) in self.env:
                return self.env['log:' + ast.unparse(args[0])]
            if f == 'np.linalg.norm' and len(args) == 1 and not node.keywords and ('norm:' + ast.unparse(args[0])) in self.env:
                return self.env['norm:' + ast.unparse(args[0])]
            if f == 'np.array' and len(args) == 1 and not node.keywords and isinstance(args[0], ast.List) \
                    and len(args[0].elts) == 3:
                rows = [self.tr(e) for e in args[0].elts]
                if any(r.dims != (3,) for r in rows):
                    self.bad(f'np.array of rows of shapes {[r.dims for r in rows]}')
                return Arr((3, 3), lambda ix, rows=rows: '(rows3 ' + ' '.join(self.lam(r) for r in rows) + f' {ix[0]} {ix[1]})')
            if f == 'np.abs' and len(args) == 1 and not node.keywords:
                a = self.tr(args[0])
                return Arr(a.dims, lambda ix, a=a: f'(absF {a.fn(ix)})')
            if f == 'abs' and len(args) == 1 and not node.keywords:
                a = self.tr(args[0])
                if a.dims:
                    self.bad('abs of an array')
                return Arr((), lambda ix, a=a: f'(absF {a.fn([])})')
            if isinstance(node.func, ast.Attribute) and node.func.attr == 'max' and not args and not node.keywords:
                a = self.tr(node.func.value)
                if a.dims == (3,):
                    # the model's fold for `.max()` of three numbers
                    return Arr((), lambda ix, a=a: f'(listMax {a.fn(["0"])} [{a.fn(["1"])}, {a.fn(["2"])}])')
                self.bad(f'.max() of an array of shape {a.dims}')
        self.bad(f'unsupported expression {u[:80]}')

    def let(self, name, node):
        a = self.tr(node)
        self.cnt = 0
        term = self.lam(a)
        self.env[name] = self.ref(name, a.dims)
        return f'  let {name} : {_lty(a.dims)} := {term}\n'


def _fn_in(tree, name, cls=None):
    scope = tree.body
    if cls is not None:
        c = [n for n in tree.body if isinstance(n, ast.ClassDef) and n.name == cls]
        if len(c) != 1:
            raise TranslationError(f'class {cls} not found')
        scope = c[0].body
    f = [n for n in scope if isinstance(n, ast.FunctionDef) and n.name == name]
    if not f:
        raise TranslationError(f'{cls}.{name} not found')
    return f


def _sig(fn, skip_self=True):
    a = fn.args
    if a.vararg or a.kwarg or a.kwonlyargs or a.posonlyargs:
        raise TranslationError(f'{fn.name}: signature with * / ** / keyword-only parameters')
    names = [x.arg for x in a.args]
    if skip_self:
        if not names or names[0] != 'self':
            raise TranslationError(f'{fn.name}: no self')
        names = names[1:]
    defs = [''] * (len(names) - len(a.defaults)) + [ast.unparse(d) for d in a.defaults]
    return list(zip(names, defs))


def _lsig(sig):
    return '[' + ', '.join(f'({_lstr(n)}, {_lstr(d)})' for n, d in sig) + ']'


def _call_forward(call):
    """positional argument texts and (keyword, value text) pairs of a call"""
    if any(k.arg is None for k in call.keywords) or any(isinstance(a, ast.Starred) for a in call.args):
        raise TranslationError(f'call with * / **: {ast.unparse(call)[:60]}')
    return [ast.unparse(a) for a in call.args], [(k.arg, ast.unparse(k.value)) for k in call.keywords]


def _lforward(pos, kws):
    return '([' + ', '.join(_lstr(p) for p in pos) + '], ' + _lsig(kws) + ')'


def _updn(node, what):
    """`np.array([1, -1, 1, -1, 1, -1])` -> the six literals"""
    if not (isinstance(node, ast.Call) and ast.unparse(node.func) == 'np.array' and len(node.args) == 1
            and not node.keywords and isinstance(node.args[0], ast.List) and len(node.args[0].elts) == 6):
        raise TranslationError(f'{what}: updn is not a literal array of six numbers')
    vals = []
    for e in node.args[0].elts:
        try:
            v = ast.literal_eval(e)
        except Exception:
            raise TranslationError(f'{what}: updn entry {ast.unparse(e)}')
        if isinstance(v, bool) or not isinstance(v, (int, float)):
            raise TranslationError(f'{what}: updn entry {v!r}')
        vals.append(v)
    return vals


def _updn_def(name, vals):
    rows = ''.join(f'  | {i} => {_flit(v)}\n' for i, v in enumerate(vals[:5]))
    return (f'/-- the literal `updn` array of `{name}` -/\n'
            f'def updn_{name} (a : Fin 6) : F :=\n  match a.val with\n{rows}  | _ => {_flit(vals[5])}\n\n')


FIELD_PARAMS = '(pi I : F) (m n b : Vec F) (C : Ten4 F) (p k : Fin 6 → F) (A L : Fin 6 → Vec F)'


def _field_env():
    env = {'self:' + nm: ArrTr.ref(nm, dims) for nm, dims in SELF_ARR.values() if nm != 'Kt'}
    env['np.pi'] = ArrTr.ref('pi', ())
    return env


def _is_ii(st):
    return ast.unparse(st) == 'ii = np.array([1j])'


def _stroh_field(fn, var, coef_names):
    """displacement / strain / stress of Stroh -> (updn literals, Lean lets, result name, pins)"""
    tr = ArrTr(_field_env(), f'Stroh.{fn.name}')
    lets = ''
    updn = None
    pins = []
    tail = False
    for st in strip_doc(fn.body):
        u = ast.unparse(st)
        if tail:
            tr.bad('statement after the return')
        if _is_tail_return(st, var):
            tail = True
            continue
        if not (isinstance(st, ast.Assign) and len(st.targets) == 1 and isinstance(st.targets[0], ast.Name)):
            tr.bad(f'unsupported statement {u[:70]}')
        nm = st.targets[0].id
        if _is_ii(st):
            tr.env['ii'] = ArrTr.ref('I', ())
        elif nm == 'ii':
            tr.bad(f'ii is no longer the imaginary unit: {u}')
        elif nm == 'updn':
            updn = _updn(st.value, f'Stroh.{fn.name}')
            tr.env['updn'] = ArrTr.ref(f'updn_{fn.name}', (6,))
        elif nm == 'eta':
            if u != 'eta = self.eta(pos)':
                tr.bad(f'eta is no longer self.eta(pos): {u}')
            tr.env['eta'] = ArrTr.ref('η', (6,))
            tr.env['log:eta'] = ArrTr.ref('lnη', (6,))
        elif nm == var and u == f'{var} = real_if_close({var}, self.tol)':
            pins.append(u)
        else:
            lets += tr.let(nm, st.value)
    if not tail:
        tr.bad('single-point / array return not found')
    if updn is None or var not in tr.env or not pins:
        tr.bad('updn / result / relative real_if_close not found')
    return updn, lets, pins


def _assert_close(st, tr):
    """`assert np.allclose(LHS, TARGET, atol=tol)` -> (Arr LHS, target kind)"""
    if not (isinstance(st, ast.Assert) and isinstance(st.test, ast.Call) and ast.unparse(st.test.func) == 'np.allclose'
            and len(st.test.args) == 2 and [(k.arg, ast.unparse(k.value)) for k in st.test.keywords] == [('atol', 'tol')]):
        tr.bad(f'self-check is not `assert np.allclose(x, y, atol=tol)`: {ast.unparse(st)[:80]}')
    tgt = ast.unparse(st.test.args[1])
    kinds = {"np.identity(3, dtype='complex128')": ('kron', (3, 3)), "np.zeros((3, 3), dtype='complex128')": ('zero', (3, 3)),
             "np.identity(6, dtype='complex128')": ('kron6', (6, 6))}
    if tgt not in kinds:
        tr.bad(f'self-check target {tgt}')
    a = tr.tr(st.test.args[0])
    if a.dims != kinds[tgt][1]:
        tr.bad(f'self-check of shape {a.dims} against {tgt}')
    return a, kinds[tgt][0]


def _stroh_solve(fn, out, pins):
    tr = ArrTr({'self:m': ArrTr.ref('m', (3,)), 'self:n': ArrTr.ref('n', (3,))}, 'Stroh.solve')
    tr.env['Cijkl'] = ArrTr.ref('C', (3, 3, 3, 3))
    body = strip_doc(fn.body)
    if not (isinstance(body[0], ast.Expr) and isinstance(body[0].value, ast.Call)
            and ast.unparse(body[0].value.func) == 'VolterraDislocation.solve'):
        tr.bad('does not start with the base class solve')
    pos, kws = _call_forward(body[0].value)
    out.append('/-- `Stroh.solve` -> `VolterraDislocation.solve`: positional and keyword arguments -/\n'
               f'def strohSuper : List String × List (String × String) := {_lforward(pos, kws)}\n\n')
    want_head = ['Cmax = np.abs(self.C.Cijkl).max()', 'Cijkl = self.C.Cijkl / Cmax']
    if [ast.unparse(s) for s in body[1:3]] != want_head:
        tr.bad('the stiffness is no longer divided by its largest magnitude as expected')
    pins += want_head
    lets = ''
    quad = []
    i = 3
    while i < len(body) and isinstance(body[i], ast.Assign) and isinstance(body[i].targets[0], ast.Name) \
            and body[i].targets[0].id in ('mm', 'mn', 'nm', 'nn', 'NA', 'NB', 'NC', 'ND'):
        nm = body[i].targets[0].id
        if nm == 'NB':
            tr.env['inv:nn'] = ArrTr.ref('nnInv', (3, 3))
        lets += tr.let(nm, body[i].value)
        quad.append(nm)
        i += 1
    if sorted(quad) != sorted(['mm', 'mn', 'nm', 'nn', 'NA', 'NB', 'NC', 'ND']):
        tr.bad(f'quadrants of N: {quad}')
    par = '(m n : Vec F) (C : Ten4 F) (nnInv : Mat F)'
    for nm in ('mm', 'mn', 'nm', 'nn'):
        out.append(f'/-- `{nm}` of Stroh.solve -/\ndef {nm} (m n : Vec F) (C : Ten4 F) : Mat F :=\n'
                   + ''.join(l for l in lets.splitlines(True) if l.split()[1] in ('mm', 'mn', 'nm', 'nn')) + f'  {nm}\n\n')
    for nm in ('NA', 'NB', 'NC', 'ND'):
        out.append(f'/-- quadrant `{nm}` of N (`nnInv` = np.linalg.inv(nn)) -/\ndef {nm} {par} : Mat F :=\n{lets}  {nm}\n\n')
    # N = [[NA, NB], [NC, ND]], eigenvectors split into A (first three) and L (last three components)
    st = body[i]
    if ast.unparse(st) != 'N = np.array(np.vstack((np.hstack((NA, NB)), np.hstack((NC, ND)))))':
        # read the block layout instead of insisting on the text
        try:
            v = st.value.args[0].args[0].elts
            lay = [[ast.unparse(e) for e in h.args[0].elts] for h in v]
            assert ast.unparse(st.targets[0]) == 'N' and all(len(r) == 2 for r in lay) and len(lay) == 2
            assert all(x in ('NA', 'NB', 'NC', 'ND') for r in lay for x in r)
        except Exception:
            tr.bad(f'layout of N: {ast.unparse(st)[:80]}')
    else:
        lay = [['NA', 'NB'], ['NC', 'ND']]
    i += 1
    want = ['eig = np.linalg.eig(N)', 'p = eig[0]', 'eigvec = np.transpose(eig[1])']
    if [ast.unparse(s) for s in body[i:i + 3]] != want:
        tr.bad('eigen-solver call / unpacking changed')
    pins += want
    i += 3
    halves = {}
    for st in body[i:i + 2]:
        u = ast.unparse(st)
        for nm, sl in (('A', ':3'), ('L', '3:')):
            if u == f'{nm} = np.array([' + ', '.join(f'eigvec[{a}, {sl}]' for a in range(6)) + '])':
                halves[nm] = sl
    if halves != {'A': ':3', 'L': '3:'}:
        tr.bad('split of the eigenvectors into A (first half) and L (second half) changed')
    i += 2
    for row, nm, vec in ((0, 'eigResTop', 'A'), (1, 'eigResBot', 'L')):
        out.append(f'/-- `N v - p v`, {"upper" if row == 0 else "lower"} half, for `v = (A, L)` and `N = {lay}` -/\n'
                   f'def {nm} {par} (p : F) (A L : Vec F) : Vec F :=\n{lets}'
                   f'  fun i => (sum3 fun j => {lay[row][0]} i j * A j) + (sum3 fun j => {lay[row][1]} i j * L j) - p * {vec} i\n\n')
    # k
    tr2 = ArrTr({'A': ArrTr.ref('A', (6, 3)), 'L': ArrTr.ref('L', (6, 3))}, 'Stroh.solve')
    st = body[i]
    if not (isinstance(st, ast.Assign) and ast.unparse(st.targets[0]) == 'k'):
        tr.bad('normalisation factor k not found')
    klet = tr2.let('k', st.value)
    out.append(f'/-- `k` of Stroh.solve -/\ndef kNorm (A L : Fin 6 → Vec F) : Fin 6 → F :=\n{klet}  k\n\n')
    i += 1
    # the four self-checks
    st = body[i]
    if not (isinstance(st, ast.Try) and len(st.handlers) == 1 and not st.orelse and not st.finalbody
            and ast.unparse(st.handlers[0].type) == 'AssertionError' and len(st.handlers[0].body) == 1
            and isinstance(st.handlers[0].body[0], ast.Raise)
            and ast.unparse(st.handlers[0].body[0].exc.func) == 'ValueError'):
        tr.bad('self-checks are no longer `try: asserts except AssertionError: raise ValueError`')
    tr3 = ArrTr({'A': ArrTr.ref('A', (6, 3)), 'L': ArrTr.ref('L', (6, 3)), 'k': ArrTr.ref('k', (6,)),
                 'sqrt:k': ArrTr.ref('sk', (6,))}, 'Stroh.solve self-checks')
    chk = []
    for q, a in enumerate(st.body):
        arr, kind = _assert_close(a, tr3)
        tr3.cnt = 0
        nm = f'chk{q + 1}'
        args = '(k sk : Fin 6 → F) (A L : Fin 6 → Vec F)'
        out.append(f'/-- left-hand side of self-check {q + 1} of Stroh.solve (`sk` = k**.5) -/\n'
                   f'def {nm} {args} : {_lty(arr.dims)} :=\n  {tr3.lam(arr)}\n\n')
        chk.append((nm, kind, arr.dims))
    if [c[1] for c in chk] != ['kron', 'zero', 'zero', 'kron6']:
        tr.bad(f'self-check targets {[c[1] for c in chk]}')
    i += 1
    want = ['self.__p = p', 'self.__A = A', 'self.__L = L * Cmax', 'self.__k = k / Cmax',
            "if self.K_tensor.dtype == 'complex128':\n    raise ValueError('Solution not real: check elastic constants')"]
    if [ast.unparse(s) for s in body[i:]] != want:
        tr.bad('storing p, A, L, k (units restored) / the real-K test changed: ' + repr([ast.unparse(s)[:40] for s in body[i:]]))
    pins += want
    return chk


ROUTE_NAMES = {'ξ_uvw': 'ξ', 'slip_hkl': 'hkl'}


def _route_cond(node):
    if isinstance(node, ast.BoolOp):
        op = {ast.Or: ' || ', ast.And: ' && '}[type(node.op)]
        return '(' + op.join(_route_cond(v) for v in node.values) + ')'
    if isinstance(node, ast.Compare) and len(node.ops) == 1 and isinstance(node.left, ast.Name) \
            and isinstance(node.comparators[0], ast.Constant) and node.comparators[0].value is None \
            and isinstance(node.ops[0], (ast.Is, ast.IsNot)):
        nm = node.left.id
        pos = isinstance(node.ops[0], ast.IsNot)
        if nm in ROUTE_NAMES:
            return ROUTE_NAMES[nm] if pos else f'(!{ROUTE_NAMES[nm]})'
        if nm in ('transform', 'axes'):
            return f'{nm}.isSome' if pos else f'{nm}.isNone'
    raise TranslationError(f'VolterraDislocation.solve: condition {ast.unparse(node)} in the option handling')


def _route_block(stmts, ind):
    sp = '  ' * ind
    s = ''
    for st in stmts:
        u = ast.unparse(st)
        if isinstance(st, ast.Assert):
            s += f'{sp}unless {_route_cond(st.test)} do throw "assert"\n'
        elif isinstance(st, ast.If):
            s += f'{sp}if {_route_cond(st.test)} then\n' + _route_block(st.body, ind + 1)
            if st.orelse:
                s += f'{sp}else\n' + _route_block(st.orelse, ind + 1)
        elif u == 'transform = self.__find_transform(ξ_uvw, slip_hkl, m, n, box)':
            s += f'{sp}transform := some TVal.miller\n'
        elif u == 'transform = axes':
            s += f'{sp}transform := axes\n'
        elif u == 'transform = axes_check(transform)':
            s += f'{sp}transform := transform.map TVal.check\n'
        elif u == 'transform = np.eye(3, dtype=float)':
            s += f'{sp}transform := some TVal.eye\n'
        else:
            raise TranslationError(f'VolterraDislocation.solve: statement in the option handling: {u[:80]}')
    return s


def _isclose(node, tr, what):
    """np.isclose(A, B, atol=T, rtol=0.0) -> (Arr A, Lean B)"""
    if not (isinstance(node, ast.Call) and ast.unparse(node.func) == 'np.isclose' and len(node.args) == 2
            and isinstance(node.args[1], ast.Constant)):
        raise TranslationError(f'{what}: not an isclose test: {ast.unparse(node)[:80]}')
    kw = {k.arg: ast.unparse(k.value) for k in node.keywords}
    if kw != {'atol': 'tol', 'rtol': '0.0'}:
        raise TranslationError(f'{what}: isclose tolerances {kw}')
    return tr.tr(node.args[0]), _flit(node.args[1].value)


def _base_class(tree, out, pins):
    cls = 'VolterraDislocation'
    fn = _fn_in(tree, 'solve', cls)[0]
    init = _fn_in(tree, '__init__', cls)[0]
    out.append(f'def sigInit : List (String × String) := {_lsig(_sig(init))}\n'
               f'def sigSolve : List (String × String) := {_lsig(_sig(fn))}\n\n')
    ib = strip_doc(init.body)
    if not (len(ib) == 1 and isinstance(ib[0], ast.Expr) and isinstance(ib[0].value, ast.Call)
            and ast.unparse(ib[0].value.func) == 'self.solve'):
        raise TranslationError('VolterraDislocation.__init__ is no longer one call of self.solve')
    out.append(f'def initForward : List String × List (String × String) := {_lforward(*_call_forward(ib[0].value))}\n\n')
    body = strip_doc(fn.body)
    us = [ast.unparse(s) for s in body]
    want0 = ['burgers = np.asarray(burgers, dtype=float)', 'if box is None:\n    box = Box()',
             'm, n = self.__mn_check(m, n, cart_axes, tol)']
    if us[:3] != want0 or not isinstance(body[3], ast.If):
        raise TranslationError('VolterraDislocation.solve: head (burgers array, default box, axis checks) changed')
    pins += want0
    route = _route_block([body[3]], 1)
    out.append('/-- the option handling of `VolterraDislocation.solve`, statement by statement (`ξ`, `hkl` = "is not None") -/\n'
               'def route {M : Type} (ξ hkl : Bool) (transform0 axes0 : Option M) : Except String (TVal M) := do\n'
               '  let mut transform : Option (TVal M) := transform0.map TVal.raw\n'
               '  let axes : Option (TVal M) := axes0.map TVal.raw\n'
               + route +
               '  match transform with\n  | some t => pure t\n  | none => throw "unbound"\n\n')
    # Burgers vector: crystal -> Cartesian -> solver frame -> clean-up; then the medium
    rest = us[4:]
    want = ['burgers = miller.vector_crystal_to_cartesian(burgers, box)', 'burgers = transform.dot(burgers)',
            'burgers[np.isclose(burgers / np.abs(burgers).max(), 0.0, atol=tol)] = 0.0', 'C = C.transform(transform)',
            'self.__C = C', 'self.__m = m', 'self.__n = n', 'self.__ξ = np.cross(m, n)', 'self.__burgers = burgers',
            'self.__tol = tol', 'self.__transform = transform']
    if rest != want:
        raise TranslationError('VolterraDislocation.solve: Burgers vector / medium / stores changed: '
                               + repr([r for r in rest if r not in want][:3]))
    pins += [want[0]] + want[3:]
    tr = ArrTr({'burgers': ArrTr.ref('b0', (3,)), 'transform': ArrTr.ref('T', (3, 3))}, 'VolterraDislocation.solve')
    let1 = tr.let('burgers', body[5].value).replace('let burgers', 'let b1')
    tr.env['burgers'] = ArrTr.ref('b1', (3,))
    st = body[6]
    tgt = st.targets[0]
    if not (isinstance(tgt, ast.Subscript) and ast.unparse(tgt.value) == 'burgers' and isinstance(st.value, ast.Constant)
            and st.value.value == 0.0 and isinstance(tgt.slice, ast.Call) and ast.unparse(tgt.slice.func) == 'np.isclose'):
        raise TranslationError('clean-up of the Burgers vector changed')
    kw = {k.arg: ast.unparse(k.value) for k in tgt.slice.keywords}
    q = tgt.slice.args[0]
    if kw != {'atol': 'tol'} or ast.unparse(tgt.slice.args[1]) != '0.0' or not (isinstance(q, ast.BinOp) and isinstance(q.op, ast.Div)
                                                                               and ast.unparse(q.left) == 'burgers'):
        raise TranslationError('clean-up of the Burgers vector: test changed')
    big = tr.tr(q.right)
    out.append('/-- Burgers vector of `VolterraDislocation.solve`: `b0` = crystal -> Cartesian (`crystalToCart vects b`), rotated, '
               'entries with `isclose(b / big, 0, atol=tol)` zeroed -/\n'
               'def orientB (tol : F) (T vects : Mat F) (b : Vec F) : Vec F :=\n'
               '  let b0 : Vec F := crystalToCart vects b\n' + let1 +
               f'  fun i => chop tol {big.fn([])} (b1 i)\n\n')
    # __mn_check
    mc = _fn_in(tree, '__mn_check', cls)[0]
    mb = strip_doc(mc.body)
    if not (len(mb) == 5 and isinstance(mb[0], ast.FunctionDef) and mb[0].name == 'axis_value'
            and ast.unparse(mb[1]) == 'm = axis_value(m)' and ast.unparse(mb[2]) == 'n = axis_value(n)'
            and isinstance(mb[3], ast.Assert) and ast.unparse(mb[4]) == 'return (m, n)'):
        raise TranslationError('__mn_check: structure changed')
    av = strip_doc(mb[0].body)
    if not (len(av) == 2 and isinstance(av[0], ast.If) and ast.unparse(av[0].test) == 'isinstance(axis, str)'
            and ast.unparse(av[1]) == 'return axis'):
        raise TranslationError('axis_value: structure changed')
    # the string table
    node = av[0].body
    tab = []
    while node:
        if not (len(node) == 1 and isinstance(node[0], ast.If) and isinstance(node[0].test, ast.Compare)
                and ast.unparse(node[0].test.left) == 'axis' and isinstance(node[0].test.ops[0], ast.Eq)
                and len(node[0].body) == 1 and ast.unparse(node[0].body[0].targets[0]) == 'axis'):
            raise TranslationError('axis_value: string table changed')
        key = ast.literal_eval(node[0].test.comparators[0])
        v = node[0].body[0].value
        if not (ast.unparse(v.func) == 'np.array' and len(v.args) == 1 and not v.keywords):
            raise TranslationError('axis_value: string table entry')
        vec = ast.literal_eval(v.args[0])
        if len(vec) != 3:
            raise TranslationError('axis_value: string table entry')
        tab.append((key, vec))
        node = node[0].orelse
    s = '/-- `axis_value`: the table of axis names -/\ndef axisOfStr (s : String) : Option (Vec F) :=\n'
    for key, vec in tab:
        s += f'  if s = {_lstr(key)} then some (fun i => match i.val with | 0 => {_flit(vec[0])} | 1 => {_flit(vec[1])} | _ => {_flit(vec[2])}) else\n'
    out.append(s + '  none\n\n')
    arr = av[0].orelse
    ua = [ast.unparse(x) for x in arr]
    if not (len(arr) == 4 and ua[0] == 'axis = np.array(axis, dtype=float)' and ua[1].startswith('assert axis.shape == (3,)')
            and isinstance(arr[2], ast.Assert) and isinstance(arr[3], ast.If) and ast.unparse(arr[3].test) == 'cart_axes'
            and len(arr[3].body) == 1 and isinstance(arr[3].body[0], ast.Assert) and not arr[3].orelse):
        raise TranslationError('axis_value: checks of an array-valued axis changed')
    pins += [ua[0], 'assert axis.shape == (3,)']
    tra = ArrTr({'axis': ArrTr.ref('axis', (3,)), 'norm:axis': ArrTr.ref('nrm', ()), 'm': ArrTr.ref('m', (3,)),
                 'n': ArrTr.ref('n', (3,))}, '__mn_check')
    a, bq = _isclose(arr[2].test, tra, 'axis_value')
    if a.dims != ():
        raise TranslationError('axis_value: norm test')
    out.append('/-- unit-norm test of `axis_value` (`nrm` = np.linalg.norm(axis)) -/\n'
               f'def unitOk (tol nrm : F) : Bool := closeTo tol {_flit(0)} {a.fn([])} {bq}\n\n')
    t = arr[3].body[0].test
    if not (isinstance(t, ast.Compare) and isinstance(t.ops[0], ast.Eq) and ast.unparse(t.comparators[0]) == '1'
            and isinstance(t.left, ast.Call) and isinstance(t.left.func, ast.Attribute) and t.left.func.attr == 'sum'
            and not t.left.args):
        raise TranslationError('axis_value: Cartesian-alignment test')
    a, bq = _isclose(t.left.func.value, tra, 'axis_value')
    if a.dims != (3,):
        raise TranslationError('axis_value: Cartesian-alignment test')
    out.append('/-- `cart_axes`: exactly one component close to 1 -/\n'
               'def cartOk (tol : F) (axis : Vec F) : Bool :=\n'
               f'  (count3 fun i => closeTo tol {_flit(0)} {a.fn(["i"])} {bq}) == 1\n\n')
    a, bq = _isclose(mb[3].test, tra, '__mn_check')
    if a.dims != ():
        raise TranslationError('__mn_check: perpendicularity test')
    out.append('/-- perpendicularity test of `__mn_check` -/\n'
               f'def perpOk (tol : F) (m n : Vec F) : Bool := closeTo tol {_flit(0)} {a.fn([])} {bq}\n\n')
    # __find_transform
    ft = _fn_in(tree, '__find_transform', cls)[0]
    out.append(_find_transform(strip_doc(ft.body), 'findTransform', 'box.vector_crystal_to_cartesian(ξ_uvw)',
                               'box.plane_crystal_to_cartesian(slip_hkl)', 'VolterraDislocation.__find_transform'))
    # K_coeff, preln, character angle, getters
    for nm, par in (('K_coeff', '(Kt : Mat F) (b : Vec F)'), ('preln', '(pi : F) (Kt : Mat F) (b : Vec F)')):
        g = strip_doc(_fn_in(tree, nm, cls)[0].body)
        if not (len(g) == 1 and isinstance(g[0], ast.Return)):
            raise TranslationError(f'{nm}: body changed')
        trk = ArrTr({'self:b': ArrTr.ref('b', (3,)), 'self:Kt': ArrTr.ref('Kt', (3, 3)), 'np.pi': ArrTr.ref('pi', ())}, nm)
        a = trk.tr(g[0].value)
        if a.dims != ():
            raise TranslationError(f'{nm}: not a scalar')
        out.append(f'/-- `{nm}` of VolterraDislocation -/\ndef {nm.replace("_", "")} {par} : F :=\n  {a.fn([])}\n\n')
    ca = strip_doc(_fn_in(tree, 'characterangle', cls)[0].body)
    pins.append('characterangle: ' + ' ; '.join(ast.unparse(s) for s in ca))
    gets = []
    for nm in ('m', 'n', 'ξ', 'burgers', 'transform', 'tol', 'C'):
        g = strip_doc(_fn_in(tree, nm, cls)[0].body)
        gets.append((nm, ' ; '.join(ast.unparse(s) for s in g)))
    out.append(f'/-- what the getters of the base class return -/\ndef getters : List (String × String) := {_lsig(gets)}\n\n')


def _find_transform(body, name, xi_src, n_src, what):
    us = [ast.unparse(s) for s in body]
    want = [f'ξ_axis = {xi_src}', 'ξ_axis = ξ_axis / np.linalg.norm(ξ_axis)', f'n_axis = {n_src}']
    if us[:3] != want or us[-1] != 'return transform':
        raise TranslationError(f'{what}: Miller conversions / return changed')
    tr = ArrTr({'ξ_axis': ArrTr.ref('ξ0', (3,)), 'norm:ξ_axis': ArrTr.ref('nrm', ()), 'n_axis': ArrTr.ref('nAxis', (3,)),
                'm': ArrTr.ref('m', (3,)), 'n': ArrTr.ref('n', (3,))}, what)
    lets = tr.let('ξ_axis', body[1].value)
    for st in body[3:-1]:
        if not (isinstance(st, ast.Assign) and len(st.targets) == 1 and isinstance(st.targets[0], ast.Name)):
            raise TranslationError(f'{what}: statement {ast.unparse(st)[:60]}')
        lets += tr.let(st.targets[0].id, st.value)
    if tr.env.get('transform') is None or tr.env['transform'].dims != (3, 3):
        raise TranslationError(f'{what}: transform not built')
    return (f'/-- `{what}` (`ξ0` = {xi_src}, `nrm` its norm, `nAxis` = {n_src}) -/\n'
            f'def {name} (m n nAxis ξ0 : Vec F) (nrm : F) : Mat F :=\n{lets}  transform\n\n')


def _dispatcher(tree, out):
    fn = _fn_in(tree, 'solve_volterra_dislocation')[0]
    out.append(f'def sigDispatch : List (String × String) := {_lsig(_sig(fn, skip_self=False))}\n\n')
    body = strip_doc(fn.body)
    if not (len(body) == 1 and isinstance(body[0], ast.Try)):
        raise TranslationError('solve_volterra_dislocation is no longer one try statement')
    t = body[0]
    if t.orelse or t.finalbody or len(t.handlers) != 1 or len(t.body) != 1 or len(t.handlers[0].body) != 1 \
            or not isinstance(t.body[0], ast.Return) or not isinstance(t.handlers[0].body[0], ast.Return) \
            or t.handlers[0].type is None or not isinstance(t.body[0].value, ast.Call) \
            or not isinstance(t.handlers[0].body[0].value, ast.Call):
        raise TranslationError('solve_volterra_dislocation: try / except structure changed')
    first, second = t.body[0].value, t.handlers[0].body[0].value
    out.append(f'def dispatchFirst : String := {_lstr(ast.unparse(first.func))}\n'
               f'def dispatchCatches : String := {_lstr(ast.unparse(t.handlers[0].type))}\n'
               f'def dispatchSecond : String := {_lstr(ast.unparse(second.func))}\n'
               f'def dispatchFirstForward : List String × List (String × String) := {_lforward(*_call_forward(first))}\n'
               f'def dispatchSecondForward : List String × List (String × String) := {_lforward(*_call_forward(second))}\n\n'
               '/-- `try: return FIRST(...) except CATCHES: return SECOND(...)`: `firstOk` = the first constructor does not raise\n'
               '    CATCHES, `secondOk` = the second one does not raise -/\n'
               'def dispatch (firstOk secondOk : Bool) : Option Solver :=\n'
               '  if firstOk then some (solverOfName dispatchFirst) else if secondOk then some (solverOfName dispatchSecond) else none\n\n')


def _raises(fn):
    return [ast.unparse(n.exc.func) if isinstance(n.exc, ast.Call) else ast.unparse(n.exc)
            for n in ast.walk(fn) if isinstance(n, ast.Raise) and n.exc is not None]


def _iso_solve(tree, out, pins):
    fn = _fn_in(tree, 'solve', 'IsotropicVolterraDislocation')[0]
    out.append(f'def sigIsoSolve : List (String × String) := {_lsig(_sig(fn))}\n\n')
    body = strip_doc(fn.body)
    us = [ast.unparse(s) for s in body]
    want = ["if not C.is_normal('isotropic', atol=0.0, rtol=0.0001):\n    raise ValueError('C must be isotropic elastic constants')",
            "C = C.normalized_as('isotropic')"]
    if us[:2] != want:
        raise TranslationError('IsotropicVolterraDislocation.solve: isotropy test changed')
    pins += want
    if not (isinstance(body[2], ast.Expr) and isinstance(body[2].value, ast.Call)
            and ast.unparse(body[2].value.func) == 'VolterraDislocation.solve'):
        raise TranslationError('IsotropicVolterraDislocation.solve: base class call not found')
    out.append(f'def isoSuper : List String × List (String × String) := {_lforward(*_call_forward(body[2].value))}\n\n')
    st = body[3]
    if not (isinstance(st, ast.If) and not st.orelse and len(st.body) == 1 and isinstance(st.body[0], ast.Raise)
            and ast.unparse(st.body[0].exc.func) == 'ValueError' and isinstance(st.test, ast.Compare)
            and len(st.test.ops) == 1 and isinstance(st.test.ops[0], ast.Gt)):
        raise TranslationError('IsotropicVolterraDislocation.solve: in-plane test changed')
    tr = ArrTr({'self:b': ArrTr.ref('b', (3,)), 'self:n': ArrTr.ref('n', (3,)), 'tol': ArrTr.ref('tol', ())}, 'iso in-plane test')
    lhs, rhs = tr.tr(st.test.left), tr.tr(st.test.comparators[0])
    if lhs.dims or rhs.dims:
        raise TranslationError('in-plane test: not scalars')
    out.append('/-- in-plane test of IsotropicVolterraDislocation.solve: `true` = no ValueError -/\n'
               f'def isoInPlaneOk (tol : F) (b n : Vec F) : Bool :=\n  !(decide ({rhs.fn([])} < {lhs.fn([])}))\n\n')
    out.append(f'def isoRaises : List String := [{", ".join(_lstr(r) for r in _raises(fn))}]\n\n')


def _ec_transform(tree, out, pins):
    fn = _fn_in(tree, 'transform', 'ElasticConstants')[0]
    out.append(f'def sigTransform : List (String × String) := {_lsig(_sig(fn))}\n\n')
    body = strip_doc(fn.body)
    us = [ast.unparse(s) for s in body]
    if len(us) != 6 or us[0] != "axes = np.asarray(axes, dtype='float64')" or us[1] != 'T = axes_check(axes)' \
            or us[4] != 'C[abs(C / C.max()) < tol] = 0.0' or us[5] != 'return ElasticConstants(Cijkl=C)':
        raise TranslationError('ElasticConstants.transform: body changed')
    pins += [us[0], us[1], us[4], us[5]]
    tr = ArrTr({'T': ArrTr.ref('T', (3, 3)), 'attr:self.Cijkl': ArrTr.ref('C', (3, 3, 3, 3))}, 'ElasticConstants.transform')
    lets = tr.let('Q', body[2].value)
    if ast.unparse(body[3].targets[0]) != 'C':
        raise TranslationError('ElasticConstants.transform: rotated tensor')
    a = tr.tr(body[3].value)
    if a.dims != (3, 3, 3, 3):
        raise TranslationError('ElasticConstants.transform: shape')
    tr.cnt = 0
    out.append('/-- the rotation of `ElasticConstants.transform` (before the clean-up) -/\n'
               f'def rotC (T : Mat F) (C : Ten4 F) : Ten4 F :=\n{lets}  {tr.lam(a)}\n\n')


def translate_source():
    out = ['/- GENERATED by harness/props/c12.py from atomman/defect/{Stroh,VolterraDislocation,solve_volterra_dislocation,\n'
           '   dislocation_system_transform,IsotropicVolterraDislocation}.py and atomman/core/ElasticConstants.py — do not edit.\n'
           '   Every definition is assembled from the einsum index strings, operand orders, literals, operators, branch\n'
           '   conditions, signatures and call arguments read from the CURRENT source with `ast`;\n'
           '   lean/Proofs/C12_Source.lean proves each one equal to the hand model of lean/Atomman/C12.lean. -/\n'
           'import Atomman.C12\n'
           'set_option linter.unusedVariables false\n'
           'namespace Atomman.Gen.Stroh\nopen Atomman.C12\n\n'
           'section\nvariable {F : Type} [Add F] [Sub F] [Mul F] [Div F] [Neg F] [NatCast F]\n\n'
           '/-- `np.array([a, b, c])` of three vectors: the matrix with these rows -/\n'
           'def rows3 (a b c : Vec F) : Mat F := fun i => if i.val = 0 then a else if i.val = 1 then b else c\n\n']
    pins = []
    tree = ast.parse(cm.source(SRC_STROH))
    cls = 'Stroh'
    solve = _fn_in(tree, 'solve', cls)[0]
    out.append(f'def sigStrohSolve : List (String × String) := {_lsig(_sig(solve))}\n\n')
    chk = _stroh_solve(solve, out, pins)
    out.append(f'def strohRaises : List String := [{", ".join(_lstr(r) for r in _raises(solve))}]\n\n')
    # eta
    fn = _fn_in(tree, 'eta', cls)[0]
    body = strip_doc(fn.body)
    tr = ArrTr(_field_env(), 'Stroh.eta')
    tr.env['pos'] = ArrTr.ref('pos', (3,))
    if len(body) != 3 or not isinstance(body[2], ast.Return) or not (isinstance(body[2].value, ast.Attribute)
                                                                      and body[2].value.attr == 'T'):
        tr.bad('body is no longer x, y, return (...).T')
    lets = ''
    for st in body[:2]:
        if not (isinstance(st, ast.Assign) and isinstance(st.targets[0], ast.Name) and st.targets[0].id in ('x', 'y')):
            tr.bad(f'statement {ast.unparse(st)}')
        lets += tr.let(st.targets[0].id, st.value)
    a = tr.tr(body[2].value.value)      # `.T` puts the point axis first; per point the six values
    if a.dims != (6,):
        tr.bad(f'eta per point has shape {a.dims}')
    tr.cnt = 0
    out.append('/-- `Stroh.eta` at one point -/\n'
               f'def eta (m n : Vec F) (p : Fin 6 → F) (pos : Vec F) : Fin 6 → F :=\n{lets}  {tr.lam(a)}\n\n')
    # K_tensor
    fn = _fn_in(tree, 'K_tensor', cls)[0]
    body = strip_doc(fn.body)
    us = [ast.unparse(s) for s in body]
    if len(body) != 6 or not _is_ii(body[0]) or us[3:] != ['K = np.real_if_close(K, tol=self.tol)',
                                                          'K[np.isclose(K / K.max(), 0.0, atol=self.tol)] = 0.0', 'return K']:
        raise TranslationError('Stroh.K_tensor: body changed: ' + repr(us[3:]))
    pins += ['K_tensor: ' + x for x in us[3:5]]
    out.append(_updn_def('K_tensor', _updn(body[1].value, 'Stroh.K_tensor')))
    tr = ArrTr(_field_env(), 'Stroh.K_tensor')
    tr.env['ii'] = ArrTr.ref('I', ())
    tr.env['updn'] = ArrTr.ref('updn_K_tensor', (6,))
    a = tr.tr(body[2].value)
    if a.dims != (3, 3) or ast.unparse(body[2].targets[0]) != 'K':
        raise TranslationError('Stroh.K_tensor: K')
    tr.cnt = 0
    out.append('/-- `Stroh.K_tensor` before the round-off clean-up -/\n'
               f'def kTensor (I : F) (k : Fin 6 → F) (L : Fin 6 → Vec F) : Mat F :=\n  {tr.lam(a)}\n\n')
    # fields
    for nm, var, extra, rty in (('displacement', 'disp', '(lnη : Fin 6 → F)', 'Vec F'), ('strain', 'strain', '(pos : Vec F)', 'Mat F'),
                                ('stress', 'stress', '(pos : Vec F)', 'Mat F')):
        fn = _fn_in(tree, nm, cls)[0]
        updn, lets, fp = _stroh_field(fn, var, None)
        pins += [f'{nm}: ' + x for x in fp]
        out.append(_updn_def(nm, updn))
        head = '' if nm == 'displacement' else '  let η : Fin 6 → F := eta m n p pos\n'
        out.append(f'/-- `Stroh.{nm}` at one point' + (' (`lnη` = np.log(eta) there)' if nm == 'displacement' else '') + ' -/\n'
                   f'def {nm} {FIELD_PARAMS} {extra} : {rty} :=\n{head}{lets}  {var}\n\n')
    out.append('end\n\n')
    # ordered-field part: checks, orientation handling
    out.append('section\nvariable {F : Type} [Add F] [Sub F] [Mul F] [Div F] [Neg F] [NatCast F] [Zero F] [One F]\n'
               '  [LE F] [DecidableLE F] [LT F] [DecidableLT F]\n\n'
               'def count3 (p : Fin 3 → Bool) : Nat := (if p 0 then 1 else 0) + (if p 1 then 1 else 0) + (if p 2 then 1 else 0)\n\n')
    tb = ast.parse(cm.source(SRC_BASE))
    _base_class(tb, out, pins)
    td = ast.parse(cm.source(SRC_DST))
    fn = _fn_in(td, 'dislocation_system_transform')[0]
    out.append(f'def sigDST : List (String × String) := {_lsig(_sig(fn, skip_self=False))}\n\n')
    body = strip_doc(fn.body)
    k = [i for i, s in enumerate(body) if ast.unparse(s).startswith('ξ_axis = miller.vector_crystal_to_cartesian')]
    if len(k) != 1:
        raise TranslationError('dislocation_system_transform: Miller conversion not found')
    pins += ['dst: assert ' + ast.unparse(s.test) for s in body[:k[0]] if isinstance(s, ast.Assert)]
    out.append(_find_transform(body[k[0]:], 'dstTransform', 'miller.vector_crystal_to_cartesian(ξ_uvw, box)',
                               'miller.plane_crystal_to_cartesian(slip_hkl, box)', 'dislocation_system_transform'))
    ti = ast.parse(cm.source(SRC))
    _iso_solve(ti, out, pins)
    out.append('end\n\n')
    out.append('section\nvariable {F : Type} [Add F] [Sub F] [Mul F] [Div F] [Neg F] [NatCast F]\n\n')
    _ec_transform(ast.parse(cm.source(SRC_EC)), out, pins)
    out.append('end\n\n')
    out.append('/-- the solver a constructor name stands for -/\n'
               'def solverOfName (s : String) : Solver := if s = "Stroh" then .stroh else .iso\n\n')
    _dispatcher(ast.parse(cm.source(SRC_DISP)), out)
    # self-check table
    out.append('/-- the four self-checks in source order: (left-hand side, target) -/\n'
               f'def checkTargets : List (String × String) := {_lsig([(c[0], c[1]) for c in chk])}\n\n')
    out.append('/-- statements that are not Lean definitions, pinned as normalised text (ast.unparse) in source order -/\n'
               'def pins : List String :=\n  [' + ',\n   '.join(_lstr(p) for p in pins) + ']\n\n')
    # statement audit: theta() of the isotropic solver (branch of arctan, special cases on x = 0, the `>= pi` fold) is
    # modelled by hand (`thetaOf`); its statements are pinned so that an edit of the branch handling breaks a named obligation
    th = [ast.unparse(st) for st in strip_doc(_method(ti, 'IsotropicVolterraDislocation', 'theta').body)]
    out.append('/-- the statements of `IsotropicVolterraDislocation.theta` (normalised text), modelled by `C12.thetaOf` -/\n'
               'def thetaBody : List String :=\n  [' + ',\n   '.join(_lstr(t) for t in th) + ']\n\n')
    out.append('end Atomman.Gen.Stroh\n')
    return ''.join(out)


# ==========================================================================================
# property machinery
# ==========================================================================================
import math      # noqa: E402
import random    # noqa: E402
import time      # noqa: E402

PROP = 'C12'
GENERATED = ['IsoVolterra', 'StrohSource']
F = Fraction
TOL = 1e-8        # default `tol` of the solvers
TOLS = [TOL, TOL, TOL, 1e-6, 1e-5]     # the `tol` argument is varied: every clean-up / acceptance threshold must follow it
TOL_C = 1e-8      # ElasticConstants.transform is called without tol: its own default cleans the rotated stiffness
RTOL_NP = 1e-5    # numpy's default rtol of allclose (used by the code's self-checks and axes_check)


def _np():
    import numpy as np
    return np


# ------------------------------------------------------------------------------------------
# generators (everything JSON-serialisable, every random choice from the rng handed in)
# ------------------------------------------------------------------------------------------
CLASSES = ['cubic', 'hexagonal', 'tetragonal', 'orthorhombic', 'rhombohedral', 'monoclinic', 'triclinic']


def draw_lam(rng, mu):
    """Lame's lambda of the isotropic base medium (one draw): three times in four 0.3 .. 1.6 (Poisson's ratio 0.1 ..
    0.4), otherwise NEGATIVE, -0.03 .. -0.6 of mu: an auxetic medium, 3K < 2 mu, C12 < 0, Poisson's ratio -0.015 .. -0.75,
    still positive-definite (3 lam + 2 mu > 0).  Positive-definiteness, not the sign of a constant, is what the
    property quantifies over."""
    u = rng.random()
    if u < 0.75:
        return 0.3 + 1.3 * (u / 0.75)
    return -mu * (0.03 + 0.57 * (u - 0.75) / 0.25)


def gen_cij(rng, cls, aniso=1.0, scale=1.0, tiny=False):
    """6x6 stiffness of the given crystal class: isotropic base (lam, mu) plus class-shaped perturbations of relative
    size `aniso`; resampled until clearly positive-definite."""
    np = _np()
    for _ in range(200):
        mu = rng.uniform(0.4, 1.2)
        lam = draw_lam(rng, mu)
        c = np.zeros((6, 6))
        c[:3, :3] = lam
        for i in range(3):
            c[i, i] = lam + 2 * mu
            c[i + 3, i + 3] = mu

        def d(s=0.35):
            return aniso * rng.uniform(-s, s) * mu

        def sym(i, j, v):
            c[i, j] = c[j, i] = v
        if cls == 'isotropic':
            pass
        elif cls == 'cubic':
            v = d(0.6)
            for i in range(3):
                c[i + 3, i + 3] += v if abs(v) > 0.08 * mu * aniso else 0.2 * mu * aniso
        elif cls in ('hexagonal', 'rhombohedral'):
            sym(0, 2, c[0, 2] + d()); sym(1, 2, c[0, 2])
            c[2, 2] += d(); v = d(); c[3, 3] += v; c[4, 4] += v
            sym(0, 1, c[0, 1] + d())
            c[5, 5] = (c[0, 0] - c[0, 1]) / 2
            if cls == 'rhombohedral':
                v = d(0.25)
                sym(0, 3, v); sym(1, 3, -v); sym(4, 5, v)
                if rng.random() < 0.5:
                    w = d(0.15)
                    sym(0, 4, w); sym(1, 4, -w); sym(3, 5, -w)
        elif cls == 'tetragonal':
            sym(0, 2, c[0, 2] + d()); sym(1, 2, c[0, 2])
            c[2, 2] += d(); v = d(); c[3, 3] += v; c[4, 4] += v
            sym(0, 1, c[0, 1] + d()); c[5, 5] += d()
            if rng.random() < 0.5:
                w = d(0.2)
                sym(0, 5, w); sym(1, 5, -w)
        elif cls in ('orthorhombic', 'monoclinic'):
            for i in range(6):
                c[i, i] += d()
            for (i, j) in ((0, 1), (0, 2), (1, 2)):
                sym(i, j, c[i, j] + d())
            if cls == 'monoclinic':
                for (i, j) in ((0, 5), (1, 5), (2, 5), (3, 4)):
                    sym(i, j, d(0.2))
        elif cls == 'triclinic':
            for i in range(6):
                for j in range(i, 6):
                    sym(i, j, c[i, j] + d(0.2 if i != j else 0.35))
        else:
            raise ValueError(cls)
        if tiny and cls in ('rhombohedral', 'monoclinic', 'triclinic', 'tetragonal'):
            # symmetry-allowed coupling constants that are small but far above every round-off clean-up threshold
            # (1e-8 of the largest constant): a medium of its own, not a rounding artefact
            t = rng.choice([1e-4, 1e-6, 3e-7]) * rng.choice([1, -1]) * c.max()
            if cls == 'rhombohedral':
                sym(0, 3, t); sym(1, 3, -t); sym(4, 5, t)
            elif cls == 'tetragonal':
                sym(0, 5, t); sym(1, 5, -t)
            elif cls == 'monoclinic':
                sym(rng.choice([0, 1, 2]), 5, t)
            else:
                sym(rng.choice([0, 1, 2]), rng.choice([3, 4]), t)
        c = c * scale
        if np.linalg.eigvalsh(c).min() > 0.15 * mu * scale:
            return [[float(v) for v in row] for row in c]
    raise RuntimeError('no positive-definite sample')


def quat_rot(q):
    """exact rational rotation matrix of an integer quaternion (a, b, c, d) != 0."""
    a, b, c, d = (F(v) for v in q)
    n = a * a + b * b + c * c + d * d
    return [[(a * a + b * b - c * c - d * d) / n, 2 * (b * c - a * d) / n, 2 * (b * d + a * c) / n],
            [2 * (b * c + a * d) / n, (a * a - b * b + c * c - d * d) / n, 2 * (c * d - a * b) / n],
            [2 * (b * d - a * c) / n, 2 * (c * d + a * b) / n, (a * a - b * b - c * c + d * d) / n]]


QUATS = [(1, 0, 0, 0), (2, 1, 0, 0), (3, 0, 1, 0), (1, 1, 1, 0), (2, 0, 0, 1), (1, 2, 3, 4), (3, 1, -1, 2), (1, 1, 1, 1),
         (5, 2, 0, -1), (4, -1, 2, 2), (7, 1, 0, 0), (2, 3, -1, 1), (1, 0, 0, 1), (1, 0, 1, 0), (0, 1, 1, 0),
         # rotations close to the identity (angles 0.01, 0.024, 0.002 rad) and close to a half turn
         (200, 1, 0, 0), (100, 1, 2, -1), (1000, 0, 1, 0), (1, 200, 0, 0)]
INT_AXES = [[[1, 0, 0], [0, 1, 0], [0, 0, 1]], [[1, 1, 0], [-1, 1, 0], [0, 0, 1]], [[1, -1, 0], [1, 1, -2], [1, 1, 1]],
            [[1, 1, -2], [1, 1, 1], [1, -1, 0]], [[2, 0, 0], [0, 0.5, 0], [0, 0, 3]], [[0, 1, 0], [0, 0, 1], [1, 0, 0]],
            [[1, 2, 2], [2, 1, -2], [-2, 2, -1]], [[1, 0, 1], [0, 2, 0], [-1, 0, 1]]]
BOXES = [None, [[4.0, 0, 0], [0, 4.0, 0], [0, 0, 4.0]], [[3.0, 0, 0], [0, 3.0, 0], [0, 0, 5.0]],
         [[3.0, 0, 0], [0, 4.5, 0], [0, 0, 5.25]], [[3.0, 0, 0], [-1.5, 2.598076211353316, 0], [0, 0, 5.0]],
         [[3.0, 0, 0], [0.5, 2.5, 0], [0.25, -0.375, 4.0]],
         # strongly sheared / not reduced (a + b - ... shorter than the edges), flat, rotated (not LAMMPS-normal),
         # axis-permuted, left-handed
         [[3.0, 0, 0], [8.5, 2.5, 0], [7.25, -6.375, 4.0]], [[3.0, 0, 0], [0, 40.0, 0], [0, 0, 0.25]],
         [[1.8, -2.4, 0.0], [2.3, 1.1, 0.0], [0.45, 0.025, 4.0]], [[0, 0, 4.0], [3.0, 0, 0], [0, 2.5, 0]],
         [[3.0, 0, 0], [0, 2.5, 0], [0, 0, -4.0]]]
MILLER = [([1, -1, 0], [1, 1, 1]), ([1, 1, -2], [1, 1, 1]), ([1, 0, -1], [1, 1, 1]), ([0, 0, 1], [1, 1, 0]),
          ([1, 1, 1], [1, -1, 0]), ([1, 0, 0], [0, 1, 0]), ([0, 1, 0], [0, 0, 1]), ([1, -1, 1], [1, 1, 0]),
          ([1, 1, 0], [0, 0, 1]), ([2, -1, 0], [1, 2, 1]), ([1, 2, -3], [1, 1, 1]), ([1, 0, 0], [0, 1, 1])]
# Miller-Bravais [uvtw] / (hkil) for the hexagonal cell BOXES[4] (line in the plane: hu + kv + it + lw = 0)
MILLER4 = [([1, 1, -2, 0], [0, 0, 0, 1]), ([2, -1, -1, 0], [0, 1, -1, 0]), ([1, -2, 1, 0], [1, 0, -1, 1]),
           ([2, -1, -1, 0], [0, 0, 0, 1]), ([1, 1, -2, 3], [1, -1, 0, 0]), ([-1, 2, -1, 3], [1, 0, -1, 0])]
BURGERS4 = [[1 / 3, 1 / 3, -2 / 3, 0.0], [0.0, 0.0, 0.0, 1.0], [1 / 3, 1 / 3, -2 / 3, 1.0], [1 / 3, -2 / 3, 1 / 3, 0.0]]


# every zero pattern x sign pattern of three indices (26): a plane (hkl) / a line [uvw] is drawn for a pattern, its partner
# (a line in the plane: hu + kv + lw = 0) as the index cross product with a random integer vector
SIGN_PATTERNS = [(a, b, c) for a in (1, 0, -1) for b in (1, 0, -1) for c in (1, 0, -1) if a or b or c]


def _igcd3(v):
    g = 0
    for x in v:
        g = math.gcd(g, abs(int(x)))
    return g


def gen_miller(rng, plane_pat=None, line_pat=None, reduce=True):
    """(ξ_uvw, slip_hkl) with integer indices, hu + kv + lw = 0.  Either the plane or the line follows a prescribed pattern of
    zero / positive / negative indices (magnitudes 1 .. 3, not necessarily coprime); the other one is the cross product of
    the indices with a random integer vector (reduced to coprime indices)."""
    def draw(pat):
        return [sg * rng.choice([1, 1, 2, 3]) for sg in pat]

    def partner(v):
        for _ in range(50):
            r = [rng.randint(-2, 2) for _ in range(3)]
            w = [v[1] * r[2] - v[2] * r[1], v[2] * r[0] - v[0] * r[2], v[0] * r[1] - v[1] * r[0]]
            if any(w) and max(abs(x) for x in w) <= 9:
                g = _igcd3(w) if reduce else 1
                return [x // g for x in w]
        return [v[1], -v[0], 0] if (v[0] or v[1]) else [1, 0, 0]
    if line_pat is not None:
        u = draw(line_pat)
        return u, partner(u)
    h = draw(plane_pat or rng.choice(SIGN_PATTERNS))
    return partner(h), h


def gen_miller4(rng, pat=None):
    """Miller-Bravais ([uvtw], (hkil)) for a hexagonal cell: (h, k, l) follows the pattern, i = -(h + k); the line [UVW] in the
    plane is written with four indices u = (2U - V)/3 ... scaled to integers."""
    h3 = [sg * rng.choice([1, 1, 2]) for sg in (pat or rng.choice(SIGN_PATTERNS))]
    for _ in range(50):
        r = [rng.randint(-2, 2) for _ in range(3)]
        U = [h3[1] * r[2] - h3[2] * r[1], h3[2] * r[0] - h3[0] * r[2], h3[0] * r[1] - h3[1] * r[0]]
        if any(U) and max(abs(x) for x in U) <= 6:
            break
    else:
        U = [h3[1], -h3[0], 0] if (h3[0] or h3[1]) else [1, 0, 0]
    # [UVW] -> [uvtw] = [(2U - V), (2V - U), -(U + V), 3W] (integers; the common factor 1/3 does not change the direction)
    u4 = [2 * U[0] - U[1], 2 * U[1] - U[0], -(U[0] + U[1]), 3 * U[2]]
    g = _igcd3(u4[:3] + [0]) if any(u4[:3]) else 0
    g = math.gcd(g, abs(u4[3])) or 1
    u4 = [x // g for x in u4]
    return u4, [h3[0], h3[1], -(h3[0] + h3[1]), h3[2]]


def v3(u):
    """[uvtw] -> [UVW] = [u - t, v - t, w] (3-index vectors unchanged)."""
    return [u[0] - u[2], u[1] - u[2], u[3]] if len(u) == 4 else list(u)


def p3(h):
    """(hkil) -> (hkl)."""
    return [h[0], h[1], h[3]] if len(h) == 4 else list(h)


MN_STR = [('x', 'y'), ('y', 'z'), ('z', 'x'), ('y', 'x'), ('x', 'z'), ('z', 'y')]


def _fl(M):
    return [[float(v) for v in r] for r in M]


def gen_mn(rng, kind=None):
    """(m, n): strings or arrays (two rows of an exact rational rotation, rounded to double)."""
    kind = kind or rng.choice(['default', 'str', 'rot', 'rot'])
    if kind == 'default':
        return 'x', 'y'
    if kind == 'str':
        return rng.choice(MN_STR)
    R = quat_rot(rng.choice(QUATS))
    i, j = rng.choice([(0, 1), (1, 2), (2, 0), (1, 0)])
    return [float(v) for v in R[i]], [float(v) for v in R[j]]


NEAR_IDENTITY = [(200, 1, 0, 0), (100, 1, 2, -1), (1000, 0, 1, 0), (300, -2, 1, 1)]


LEN_EXPS = [-100, -60, -40, -34, -30, -27, -20, -10, -3, 3, 10, 20, 27, 30, 34, 40, 60, 100]
STIFF_EXPS = [-200, -100, -60, -40, -30, -27, -24, -20, -10, 10, 20, 24, 27, 30, 37, 40, 60, 100, 200]


def gen_scales(rng):
    """(stiffness scale, length scale): mostly 1 and the two historical factors, otherwise exact powers of two over the
    range in which the fourth powers the isotropic closed form takes of the coordinates (times mu b) stay doubles:
    the physics is homogeneous (u ~ length, strain ~ 1, stress and K ~ stiffness), every tolerance in the code that is
    absolute shows only away from 1."""
    cs = rng.choice([1.0, 1.0, 160.25, 0.0078125, 2.0 ** rng.choice(STIFF_EXPS), 2.0 ** rng.choice(STIFF_EXPS)])
    ls = rng.choice([1.0, 1.0, 1.0, 2.0 ** rng.choice(LEN_EXPS), 2.0 ** rng.choice(LEN_EXPS)])
    return cs, ls


def gen_spec(rng, cls=None, route=None, mn=None, aniso=1.0, near_identity=False, four_index=False, scales=None, tiny=None, tol=None):
    cls = cls or rng.choice(CLASSES)
    route = route or rng.choice(['default', 'transform', 'transform', 'axes', 'miller', 'miller'])
    if near_identity:
        route = rng.choice(['transform', 'axes'])
    if four_index:
        route = 'miller'
    scale, ls = scales if scales is not None else gen_scales(rng)
    tiny = (rng.random() < 0.35) if tiny is None else tiny
    spec = {'cls': cls, 'cij': gen_cij(rng, cls, aniso=aniso, scale=scale, tiny=tiny), 'route': route,
            'tol': rng.choice(TOLS) if tol is None else tol,
            'cart_axes': False, 'box': None, 'transform': None, 'xi_uvw': None, 'slip_hkl': None,
            'cscale': scale, 'lscale': 1.0}
    m, n = gen_mn(rng, mn)
    spec['m'], spec['n'] = m, n
    if route in ('transform', 'axes'):
        if near_identity:
            # crystal axes within 0.002 .. 0.025 rad of the solver axes: a rotation that must not be taken for none
            spec['transform'] = _fl(quat_rot(rng.choice(NEAR_IDENTITY)))
        elif rng.random() < 0.6:
            spec['transform'] = _fl(quat_rot(rng.choice(QUATS)))
        else:
            spec['transform'] = _fl(rng.choice(INT_AXES))
        spec['box'] = rng.choice([None, None, BOXES[1], BOXES[3], BOXES[5], rng.choice(BOXES[6:])])
    elif route == 'default':
        # no orientation argument at all: the Burgers vector is still a crystal vector of the box
        spec['box'] = rng.choice([None, BOXES[1], BOXES[3], BOXES[5], rng.choice(BOXES[6:])])
    four = False
    if route == 'miller':
        spec['xi_uvw'], spec['slip_hkl'] = rng.choice(MILLER) if rng.random() < 0.5 else gen_miller(rng)
        # (the left-handed cell only where crystal VECTORS are converted: which way the normal of a plane (hkl) points in a
        #  left-handed cell — atomman: against h a* + k b* + l c* — is property C16's business)
        spec['box'] = BOXES[4] if four_index else rng.choice(BOXES[:-1])
        if spec['box'] is BOXES[4] and (four_index or rng.random() < 0.6):
            four = True
            spec['xi_uvw'], spec['slip_hkl'] = rng.choice(MILLER4) if rng.random() < 0.5 else gen_miller4(rng)
    if spec['box'] is not None and rng.random() < 0.4:
        spec['origin'] = rng.choice([[5.0, -3.0, 2.0], [-1e3, 0.0, 0.5], [0.0, 0.0, -7.25]])
    bs = rng.choice([1.0, 2.5, 0.5])
    kind = rng.choice(['edge', 'screw', 'mixed', 'climb', 'any', 'crystal', 'smallcomp'])
    spec['bkind'] = kind
    if kind == 'smallcomp':
        # one or two components (along m, n, ξ) small but far above every round-off clean-up threshold
        f = [rng.choice([1e-3, 1e-5, 1e-6, 1e-7]) * rng.choice([1, -1]) if rng.random() < 0.6 else rng.choice([0.0, 0.5])
             for _ in range(2)]
        comps = [1.0] + f
        rng.shuffle(comps)
        spec['bframe'] = [bs * c for c in comps]
        kind = 'frame'
    if kind == 'crystal' or (route == 'miller' and rng.random() < 0.5):
        spec['bkind'] = 'crystal'
        spec['burgers'] = rng.choice([[0.5, -0.5, 0.0], [0.5, 0.0, -0.5], [1.0, 0.0, 0.0], [0.5, 0.5, 0.5],
                                      [0.0, 0.0, 1.0], [1.0, 1.0, 0.0], [0.0, 0.5, 0.5]])
        if four:
            spec['burgers'] = list(rng.choice(BURGERS4))
    elif kind == 'any':
        spec['burgers'] = [cm.dyadic(rng, -2, 2, 3) for _ in range(3)]
        if not any(spec['burgers']):
            spec['burgers'][0] = 1.0
    else:
        spec['burgers'] = kind      # resolved in the solver frame after m, n are known (see resolve_burgers)
        spec['bsize'] = bs
    return apply_length_scale(spec, ls, rng.random() < 0.5)


def apply_length_scale(spec, ls, via_box=False):
    """the same problem in another length unit (ls an exact power of two, or any factor): either the cell is scaled
    (the Burgers vector stays the same crystal vector) or, without a cell / by choice, the Burgers vector itself."""
    spec = dict(spec)
    spec['lscale'] = spec.get('lscale', 1.0) * ls
    if ls == 1.0:
        return spec
    named = isinstance(spec['burgers'], str)
    if spec['box'] is not None and (via_box or named):
        # named Burgers vectors are pulled back through the (scaled) cell by resolve_burgers: scale their size too
        spec['box'] = [[v * ls for v in r] for r in spec['box']]
        if spec.get('origin') is not None:
            spec['origin'] = [v * ls for v in spec['origin']]
        if named:
            if 'bframe' in spec:
                spec['bframe'] = [v * ls for v in spec['bframe']]
            spec['bsize'] = spec.get('bsize', 1.0) * ls
    elif named:
        if 'bframe' in spec:
            spec['bframe'] = [v * ls for v in spec['bframe']]
        spec['bsize'] = spec.get('bsize', 1.0) * ls
    else:
        spec['burgers'] = [v * ls for v in spec['burgers']]
    return spec


def apply_stiffness_scale(spec, cs):
    spec = dict(spec)
    spec['cij'] = [[v * cs for v in r] for r in spec['cij']]
    spec['cscale'] = spec.get('cscale', 1.0) * cs
    return spec


EPS_SWEEP = [0.0, 1e-12, 1e-10, 1e-9, 1e-8, 3e-8, 1e-7, 3e-7, 1e-6, 1e-5, 3e-5, 1e-4, 3e-4, 1e-3, 1e-2, 1e-1]
SWEEP_BKINDS = ['general', 'general', 'small-comp', 'inplane', 'climb', 'tiny-n', 'small-n', 'general']


def iso_cij(lam, mu, scale=1.0):
    np = _np()
    c = np.zeros((6, 6))
    c[:3, :3] = lam
    for i in range(3):
        c[i, i] = lam + 2 * mu
        c[i + 3, i + 3] = mu
    return c * scale


def gen_aniso_dir(rng, cls):
    """a direction D in stiffness space with the shape of the crystal class `cls`, max |D| = 1: the media of one sweep
    are  C(eps) = C_iso + eps mu D,  eps = 0 .. 0.1  (for `cubic`: Zener ratio - 1 proportional to eps)."""
    np = _np()
    d = np.zeros((6, 6))

    def sym(i, j, v):
        d[i, j] = d[j, i] = v

    def u():
        return rng.uniform(-1, 1)
    if cls == 'cubic':
        for i in range(3):
            d[i + 3, i + 3] = rng.choice([1.0, -1.0])
        v = u() * 0.5
        for (i, j) in ((0, 1), (0, 2), (1, 2)):
            sym(i, j, v)
    elif cls in ('hexagonal', 'tetragonal', 'rhombohedral'):
        sym(0, 2, u()); sym(1, 2, d[0, 2])
        d[2, 2] = u(); d[3, 3] = d[4, 4] = u()
        sym(0, 1, u()); d[0, 0] = d[1, 1] = u()
        d[5, 5] = (d[0, 0] - d[0, 1]) / 2
        if cls == 'tetragonal':
            d[5, 5] = u()
        if cls == 'rhombohedral':
            v = u()
            sym(0, 3, v); sym(1, 3, -v); sym(4, 5, v)
    elif cls in ('orthorhombic', 'monoclinic'):
        for i in range(6):
            d[i, i] = u()
        for (i, j) in ((0, 1), (0, 2), (1, 2)):
            sym(i, j, u())
        if cls == 'monoclinic':
            for (i, j) in ((0, 5), (1, 5), (2, 5), (3, 4)):
                sym(i, j, u())
    else:
        for i in range(6):
            for j in range(i, 6):
                sym(i, j, u())
    d = d / np.abs(d).max()
    return [[float(v) for v in row] for row in d]


def gen_sweep(rng, cls=None, bkind=None, tol=None):
    """one isotropic base medium, one anisotropy direction, one orientation and one Burgers vector given by its
    components along m, n, ξ (general: all three non-zero); the dispatcher is run at every eps of EPS_SWEEP."""
    np = _np()
    cs, ls = gen_scales(rng)
    sw = gen_spec(rng, cls='isotropic', scales=(1.0, 1.0))
    sw['dcls'] = cls or rng.choice(CLASSES)
    sw['mu'] = rng.uniform(0.4, 1.2)
    sw['lam'] = draw_lam(rng, sw['mu'])
    sw['scale'] = sw['cscale'] = cs
    sw['dir'] = gen_aniso_dir(rng, sw['dcls'])
    sw['cij'] = None
    while sw['lam'] < 0 and min(np.linalg.eigvalsh(iso_cij(sw['lam'], sw['mu']) + sg_ * EPS_SWEEP[-1] * sw['mu'] * np.array(sw['dir'])).min()
                                for sg_ in (1.0, 0.5)) < 0.15 * sw['mu']:
        sw['lam'] /= 2          # an auxetic base medium must stay clearly positive-definite over the whole sweep
    if tol is not None:
        sw['tol'] = tol
    bkind = bkind or rng.choice(SWEEP_BKINDS)
    sg = lambda: rng.choice([1.0, -1.0])         # noqa: E731
    be, bn_, bs = (sg() * rng.uniform(0.3, 1.5) for _ in range(3))
    if bkind == 'inplane':
        bn_ = 0.0
        if rng.random() < 0.3:
            be, bs = rng.choice([(be, 0.0), (0.0, bs)])
    elif bkind == 'climb':
        be, bs = rng.choice([(0.0, 0.0), (0.0, bs), (be, 0.0)])
    elif bkind == 'small-comp':
        f = [rng.choice([1e-3, 1e-5, 1e-6]) * sg(), rng.choice([1e-3, 1e-6, 0.4]) * sg(), 1.0]
        rng.shuffle(f)
        be, bn_, bs = f
    elif bkind in ('tiny-n', 'small-n'):
        m, n = mn_vectors(sw)
        bmax = float(np.abs(be * m + bs * np.cross(m, n)).max())
        t = sw['tol']
        f = rng.choice([0.25 * t, 0.5 * t, 0.05 * t]) if bkind == 'tiny-n' else rng.choice([2 * t, 100 * t, 1e-3, 4 * t])
        bn_ = sg() * f * bmax
    sw['bkind'] = 'frame:' + bkind
    sw['burgers'] = 'frame'
    sw['bframe'] = [float(be), float(bn_), float(bs)]
    return apply_length_scale(sw, ls, rng.random() < 0.5)


def sweep_spec(sw, eps):
    np = _np()
    spec = dict(sw)
    c = iso_cij(sw['lam'], sw['mu']) + eps * sw['mu'] * np.array(sw['dir'])
    spec['cij'] = [[float(v) for v in row] for row in (c * sw['scale'])]
    spec['cls'] = sw['dcls'] if eps else 'isotropic'
    return spec


def iso_full_oracle(mu, nu, be, bn_, bs, x, y):
    """the complete closed-form isotropic solution (Hirth & Lothe; the part for b along n is the edge solution turned by
    90 degrees with its cut moved back to the half-plane y = 0, x < 0), independent of the implementation: components
    in the m, n, ξ frame of the displacement (up to a rigid translation), strain and stress."""
    np = _np()
    r2 = x * x + y * y
    th = math.atan2(y, x)
    a = 1 / (2 * math.pi)
    q = 1 / (4 * (1 - nu))
    um = a * (be * (th + 2 * q * x * y / r2) + bn_ * ((1 - 2 * nu) * q * math.log(r2) + q * (y * y - x * x) / r2))
    un = a * (be * (-(1 - 2 * nu) * q * math.log(r2) - q * (x * x - y * y) / r2) + bn_ * (th - 2 * q * x * y / r2))
    uz = a * bs * th
    D = mu / (2 * math.pi * (1 - nu))
    sxx = D * (-be * y * (3 * x * x + y * y) + bn_ * x * (x * x - y * y)) / r2 ** 2
    syy = D * (be * y * (x * x - y * y) + bn_ * x * (x * x + 3 * y * y)) / r2 ** 2
    sxy = D * (be * x * (x * x - y * y) + bn_ * y * (x * x - y * y)) / r2 ** 2
    szz = nu * (sxx + syy)
    sxz = -mu * bs / (2 * math.pi) * y / r2
    syz = mu * bs / (2 * math.pi) * x / r2
    S = np.array([[sxx, sxy, sxz], [sxy, syy, syz], [sxz, syz, szz]])
    E = (S - nu / (1 + nu) * (sxx + syy + szz) * np.eye(3)) / (2 * mu)
    return np.array([um, un, uz]), E, S


def _mkbox(spec):
    """the cell of the problem (with its origin, which no crystal vector may depend on); the unit cube without one."""
    import atomman as am
    np = _np()
    if spec['box'] is None:
        return am.Box()
    if spec.get('origin') is not None:
        return am.Box(vects=np.array(spec['box'], dtype=float), origin=np.array(spec['origin'], dtype=float))
    return am.Box(vects=np.array(spec['box'], dtype=float))


def mn_vectors(spec):
    np = _np()
    ax = {'x': [1.0, 0.0, 0.0], 'y': [0.0, 1.0, 0.0], 'z': [0.0, 0.0, 1.0]}
    m = np.array(ax[spec['m']] if isinstance(spec['m'], str) else spec['m'], dtype=float)
    n = np.array(ax[spec['n']] if isinstance(spec['n'], str) else spec['n'], dtype=float)
    return m, n


def resolve_burgers(spec):
    """named Burgers vectors are given in the *solver* frame (edge = along m, screw = along m x n, ...), so they are
    pulled back through the orientation transform to the crystal frame the API expects."""
    np = _np()
    if not isinstance(spec['burgers'], str):
        return list(spec['burgers'])
    m, n = mn_vectors(spec)
    xi = np.cross(m, n)
    s = spec.get('bsize', 1.0)
    if spec['burgers'] == 'frame':
        be, bn_, bs = spec['bframe']            # components along m, n, ξ of the solver frame
        want = be * m + bn_ * n + bs * xi
    else:
        want = {'edge': s * m, 'screw': s * xi, 'mixed': s * (0.5 * m + 0.75 * xi),
                'climb': s * (0.5 * m + 0.25 * n - 0.5 * xi)}[spec['burgers']]
    T = np.eye(3)
    if spec['route'] == 'miller':
        import atomman as am
        box = _mkbox(spec)
        xa = box.vector_crystal_to_cartesian(spec['xi_uvw'])
        xa = xa / np.linalg.norm(xa)
        na = box.plane_crystal_to_cartesian(spec['slip_hkl'])
        T = np.array([m, n, xi]).T.dot(np.array([np.cross(na, xa), na, xa]))
    elif spec['transform'] is not None:
        T = np.array(spec['transform'], dtype=float)
        T = (T.T / np.linalg.norm(T, axis=1)).T
    b = T.T.dot(want)
    if spec['box'] is not None:
        b = b.dot(np.linalg.inv(np.array(spec['box'], dtype=float)))
    return [float(v) for v in b]


def solver_kwargs(spec):
    import atomman as am
    np = _np()
    kw = {'m': spec['m'], 'n': spec['n'], 'tol': spec['tol'], 'cart_axes': spec['cart_axes']}
    if spec['box'] is not None:
        kw['box'] = _mkbox(spec)
    if spec['route'] == 'transform':
        kw['transform'] = np.array(spec['transform'], dtype=float)
    elif spec['route'] == 'axes':
        kw['axes'] = np.array(spec['transform'], dtype=float)
    elif spec['route'] == 'miller':
        kw['ξ_uvw'] = spec['xi_uvw']
        kw['slip_hkl'] = spec['slip_hkl']
    return kw


def build(spec, which='stroh'):
    import atomman as am
    np = _np()
    C = am.ElasticConstants(Cij=np.array(spec['cij'], dtype=float))
    b = resolve_burgers(spec)
    cls = {'stroh': am.defect.Stroh, 'iso': am.defect.IsotropicVolterraDislocation,
           'auto': am.defect.solve_volterra_dislocation}[which]
    return cls(C, b, **solver_kwargs(spec))


def gen_points(rng, s, k, special=True, ls=1.0):
    """field points: generic, on the m / n axes, close to the cut, far and near, with arbitrary offset along ξ; `ls` is
    the length unit of the problem (all distances are multiples of it)."""
    np = _np()
    m, n, xi = s.m, s.n, s.ξ
    pts = []
    for i in range(k):
        r = rng.choice([1.0, 1.0, 0.125, 8.0, 100.0, 0.01]) * ls
        kind = rng.choice(['gen', 'gen', 'gen', 'dy', 'xpos', 'yax', 'nearcut', 'nearcut2', 'oncut']) if special else 'gen'
        if kind == 'gen':
            x, y = rng.uniform(-1, 1) * r, rng.uniform(-1, 1) * r
        elif kind == 'dy':
            x, y = cm.dyadic(rng, -4, 4, 3) * ls, cm.dyadic(rng, -4, 4, 3) * ls
            if y == 0:
                y = 0.5 * ls
        elif kind == 'xpos':
            x, y = abs(rng.uniform(0.1, 1)) * r, 0.0
        elif kind == 'yax':
            x, y = 0.0, rng.choice([-1, 1]) * rng.uniform(0.1, 1) * r
        elif kind == 'nearcut':
            x, y = -rng.uniform(0.1, 1) * r, rng.choice([-1, 1]) * r * 1e-9
        elif kind == 'oncut':
            # exactly on the cut half-plane in an axis-aligned frame (value there: as coded, theta = -pi; the Stroh
            # displacement is complex there); in a rotated frame this is a point within round-off of the cut
            x, y = -abs(cm.dyadic(rng, 0.125, 4, 3)) * ls, rng.choice([0.0, -0.0])
        else:
            x, y = -rng.uniform(0.1, 1) * r, rng.choice([-1, 1]) * r * rng.uniform(1e-4, 1e-2)
        z = rng.choice([0.0, rng.uniform(-5, 5)]) * ls
        pts.append([float(v) for v in (x * m + y * n + z * xi)])
    return pts


# ------------------------------------------------------------------------------------------
# wire helpers
# ------------------------------------------------------------------------------------------
def cfrs(arr):
    np = _np()
    out = []
    for z in np.asarray(arr, dtype=complex).ravel().tolist():
        out.append(cm.fr(z.real))
        out.append(cm.fr(z.imag))
    return ' '.join(out)


def cplx(fr_list):
    """[re, im, re, im, ...] Fractions -> list of python complex (floats) and the exact pairs."""
    return [complex(float(fr_list[i]), float(fr_list[i + 1])) for i in range(0, len(fr_list), 2)]


def problem_wire(s):
    return ' '.join([cm.frs(s.C.Cij), cm.frs(s.m), cm.frs(s.n), cm.frs(s.burgers), cfrs(s.p), cfrs(s.A), cfrs(s.L),
                     cfrs(s.k)])


def all_finite(s):
    np = _np()
    return all(np.isfinite(np.asarray(a)).all() for a in (s.p, s.A, s.L, s.k))


# ------------------------------------------------------------------------------------------
# correspondence
# ------------------------------------------------------------------------------------------
N_STROH_C = 159        # complex numbers in the reply of `stroh`


def _track(ctx, name, ratio):
    d = ctx.extra.setdefault('max_residual_over_bound', {})
    if ratio > d.get(name, 0.0):
        d[name] = float(ratio)


def _spec_sample(spec):
    return {k: spec[k] for k in ('cls', 'route', 'm', 'n', 'xi_uvw', 'slip_hkl', 'bkind')}


def _orientation_case(ctx, spec, s):
    """__mn_check, axes_check / __find_transform, rotation of C and b: model vs the solver's stored values."""
    import atomman as am
    np = _np()
    rep = {'op': 'orient', 'spec': spec}
    tol = spec['tol']
    m, n = mn_vectors(spec)
    if not isinstance(spec['m'], str) or not isinstance(spec['n'], str):
        out = ctx.driver.ask(f'mn {cm.fr(tol)} {int(spec["cart_axes"])} {cm.frs(m)} {cm.frs(n)}')
        ctx.stats.case('mn-accept', (tuple(m), tuple(n)))
        if out != '1':
            ctx.disagree('mn:accept', f'implementation accepted m={m.tolist()}, n={n.tolist()}, model says {out}', rep)
    box = _mkbox(spec)
    if spec['route'] in ('transform', 'axes'):
        ax = np.array(spec['transform'], dtype=float)
        norms = np.linalg.norm(ax, axis=1)
        out = ctx.driver.ask(f'axes {cm.fr(1e-8)} {cm.fr(RTOL_NP)} {cm.frs(ax)} {cm.frs(norms)}')
        ctx.stats.case('axes_check', tuple(ax.ravel()))
        nres = max(abs(float(F(float(norms[i])) ** 2 - sum(F(float(v)) ** 2 for v in ax[i]))) for i in range(3))
        if nres > 1e-14 * float(norms.max()) ** 2:
            ctx.disagree('axes:norm', f'row norms of the axes are not their square roots (residual {nres})', rep)
        if out.startswith('err:') or not cm.allclose(s.transform.ravel(), cm.unfrs(out), 0, 1e-14):
            ctx.disagree('axes_check', f'stored transform differs from the normalised axes: model {out[:80]}', rep)
    elif spec['route'] == 'miller':
        xi_axis = box.vector_crystal_to_cartesian(spec['xi_uvw'])
        xi_axis = xi_axis / np.linalg.norm(xi_axis)
        n_axis = box.plane_crystal_to_cartesian(spec['slip_hkl'])
        # the model's own line u a + v b + w c and normal h b x c + k c x a + l a x b (exact): the implementation's unit vectors
        # must be POSITIVE multiples of them (right-handed cells; in a left-handed cell the side is property C16's business)
        V = np.array(spec['box'] if spec['box'] is not None else np.eye(3), dtype=float)
        mo = ctx.driver.ask(f'miller {cm.frs(V)} {cm.frs(np.array(v3(spec["xi_uvw"]), dtype=float))} {cm.frs(np.array(p3(spec["slip_hkl"]), dtype=float))}')
        ctx.stats.case('miller-normal', (str(spec['box']), tuple(spec['xi_uvw']), tuple(spec['slip_hkl'])),
                       sample={'op': 'miller', 'xi_uvw': spec['xi_uvw'], 'slip_hkl': spec['slip_hkl'], 'box': spec['box']})
        if mo.startswith('err:'):
            ctx.disagree('miller:driver-error', f'model refused: {mo}', rep)
        else:
            mv = [float(x) for x in cm.unfrs(mo)]
            righth = float(np.linalg.det(V)) > 0
            for nm, mine, theirs, sg in (('line', mv[:3], xi_axis, 1.0), ('plane normal', mv[3:], n_axis, 1.0)):
                u_ = np.array(mine) / float(np.linalg.norm(mine))
                if nm == 'plane normal' and not righth and float(np.dot(u_, theirs)) < 0:
                    sg = -1.0
                if float(np.abs(sg * u_ - theirs).max()) > 1e-12:
                    ctx.disagree('miller:' + nm.split()[-1], f'{nm} of ξ_uvw={spec["xi_uvw"]}, slip_hkl={spec["slip_hkl"]} in the cell {spec["box"]}: '
                                 f'implementation {np.asarray(theirs).tolist()}, model (normalised) {(sg * u_).tolist()}', rep)
        out = ctx.driver.ask(f'ft {cm.frs(m)} {cm.frs(n)} {cm.frs(n_axis)} {cm.frs(xi_axis)}')
        ctx.stats.case('find_transform', (tuple(m), tuple(n), tuple(spec['xi_uvw']), tuple(spec['slip_hkl'])),
                       sample={'op': '__find_transform', 'xi_uvw': spec['xi_uvw'], 'slip_hkl': spec['slip_hkl'],
                               'm': spec['m'], 'n': spec['n']})
        if out.startswith('err:') or not cm.allclose(s.transform.ravel(), cm.unfrs(out), 0, 1e-14):
            ctx.disagree('find_transform', f'transform from ξ_uvw={spec["xi_uvw"]}, slip_hkl={spec["slip_hkl"]}, '
                         f'm={spec["m"]}, n={spec["n"]} differs from the model', rep)
        # the stand-alone utility must give the same matrix
        T2 = am.defect.dislocation_system_transform(spec['xi_uvw'], spec['slip_hkl'], m=m, n=n, box=box)
        ctx.stats.case('dislocation_system_transform', (tuple(m), tuple(n), tuple(spec['xi_uvw']), tuple(spec['slip_hkl']), str(spec['box'])))
        if out.startswith('err:') or not cm.allclose(np.asarray(T2).ravel(), cm.unfrs(out), 0, 1e-14):
            ctx.disagree('dislocation_system_transform', f'dislocation_system_transform(ξ_uvw={spec["xi_uvw"]}, slip_hkl='
                         f'{spec["slip_hkl"]}, m={spec["m"]}, n={spec["n"]}) differs from the model', rep)
        # the transform must take the slip-plane normal to n and the line direction to m x n (exact check)
        Tq = [[F(float(v)) for v in r] for r in s.transform]
        for nm, src, dst in (('n', n_axis, n), ('ξ', xi_axis, np.cross(m, n))):
            img = [sum(Tq[i][j] * F(float(src[j])) for j in range(3)) for i in range(3)]
            if not cm.allclose(dst, img, 0, 1e-12):
                ctx.disagree('find_transform:frame', f'transform does not map the crystal {nm} axis to the solver {nm} axis', rep)
    # rotation of C and of the Burgers vector
    cij = np.array(spec['cij'], dtype=float)
    b = np.array(v3(resolve_burgers(spec)), dtype=float)       # Miller-Bravais -> Miller is C16's business
    out = ctx.driver.ask(f'orient {cm.fr(TOL_C)} {cm.fr(tol)} {cm.frs(s.transform)} {cm.frs(box.vects)} {cm.frs(cij)} {cm.frs(b)}')
    ctx.stats.case('rotate-C-b', (tuple(cij.ravel()), tuple(s.transform.ravel()), tuple(b)),
                   sample={'op': 'rotate C, b', **_spec_sample(spec)})
    if out.startswith('err:'):
        ctx.disagree('orient:driver-error', f'model refused: {out}', rep)
        return
    vals = cm.unfrs(out)
    big = float(np.abs(cij).max())
    # entries within tol*max of the round-off clean-up threshold may be zeroed on one side only: atol 2 tol max
    if not cm.allclose(s.C.Cij.ravel(), vals[:36], 1e-12, 2.5 * TOL_C * big):
        ctx.disagree('rotate:C', f'rotated stiffness differs from the model ({spec["cls"]}, route {spec["route"]})', rep)
    bb = float(np.abs(s.burgers).max())
    if not cm.allclose(s.burgers, vals[36:39], 1e-12, 2.5 * tol * bb):
        ctx.disagree('rotate:b', f'rotated Burgers vector {s.burgers.tolist()} differs from the model '
                     f'{[float(v) for v in vals[36:39]]}', rep)
    if not (np.array_equal(s.m, m) and np.array_equal(s.n, n) and np.array_equal(s.ξ, np.cross(m, n))):
        ctx.disagree('frame', 'stored m, n, ξ are not the requested axes and their cross product', rep)


def _stroh_case(ctx, spec, s):
    """eigen-solver output of the real solver -> residuals of every hypothesis of the theorems, K tensor, closure."""
    np = _np()
    rep = {'op': 'stroh', 'spec': spec}
    tol = spec['tol']
    sk = s.k ** .5
    line = f'stroh {cm.fr(tol)} {cm.fr(RTOL_NP)} {cm.fr(np.pi)} {problem_wire(s)} {cfrs(sk)}'
    out = ctx.driver.ask(line)
    ctx.stats.case('stroh', line[:4000], sample={'op': 'Stroh.solve', **_spec_sample(spec),
                                                'p': [str(z) for z in s.p]})
    if out.startswith('err:'):
        ctx.disagree('stroh:driver-error', f'model refused: {out}', rep)
        return
    vals = cm.unfrs(out)
    conj, acc = vals[0], vals[1]
    cs = cplx(vals[2:2 + 2 * N_STROH_C])
    tail = [float(v) for v in vals[2 + 2 * N_STROH_C:]]
    top, bot, sext, lres = (np.array(cs[18 * i:18 * i + 18]).reshape(6, 3) for i in range(4))
    o = 72
    kres, skres = np.array(cs[o:o + 6]), np.array(cs[o + 6:o + 12])
    o += 12
    cAL, cAA, cLL = (np.array(cs[o + 9 * i:o + 9 * i + 9]) for i in range(3))
    o += 27
    cST = np.array(cs[o:o + 36])
    o += 36
    Kt = np.array(cs[o:o + 9]).reshape(3, 3)
    jump = np.array(cs[o + 9:o + 12])
    Kc, kcoef, preln = np.array(tail[:9]).reshape(3, 3), tail[9], tail[10]
    if conj != 1:
        ctx.disagree('stroh:conj-pairs', 'eigen-solver output is not listed as adjacent exact conjugate pairs '
                     '(hypothesis ConjPairs of K_real_partial)', rep)
    if acc != 1:
        ctx.disagree('stroh:accept', 'implementation accepted the eigen-solver output, the model\'s self-checks refuse it', rep)
    # --- residual bounds: eps-level backward error of eig, scaled row-wise with the magnitudes entering each row
    C4 = s.C.Cijkl
    mm = np.einsum('i,ijkl,l', s.m, C4, s.m); mn = np.einsum('i,ijkl,l', s.m, C4, s.n)
    nm = np.einsum('i,ijkl,l', s.n, C4, s.m); nn = np.einsum('i,ijkl,l', s.n, C4, s.n)
    NB = -np.linalg.inv(nn); NA = NB.dot(nm); NC = mn.dot(NA) + mm; ND = mn.dot(NB)
    aA, aL, ap = np.abs(s.A), np.abs(s.L), np.abs(s.p)[:, None]
    cond = float(np.linalg.cond(np.hstack([s.A, s.L / float(np.abs(C4).max())]).T))     # (A is unitless, L carries the unit of C)
    eps = 1e-13 * max(cond, 1.0)
    sc_top = (aA.dot(np.abs(NA).T) + aL.dot(np.abs(NB).T) + ap * aA).max(axis=1, keepdims=True)
    sc_bot = (aA.dot(np.abs(NC).T) + aL.dot(np.abs(ND).T) + ap * aL).max(axis=1, keepdims=True)
    cmax = float(np.abs(C4).max())
    sc_sext = cmax * (1 + ap + ap * ap) * aA.max(axis=1, keepdims=True)
    sc_l = cmax * (1 + ap) * aA.max(axis=1, keepdims=True) + aL.max(axis=1, keepdims=True)
    checks = [('eigen-top', top, sc_top * eps), ('eigen-bottom', bot, sc_bot * eps),
              ('sextic', sext, sc_sext * eps * 10), ('L=-(nm+p nn)A', lres, sc_l * eps * 10),
              # k = 1 / (2 A.L) from the stored doubles (L and k carry one more rounding each since repo fix 540bb56): relative
              # round-off of the complex dot product, amplified by its cancellation
              ('k', kres, np.abs(s.k) * np.maximum(1e-13, 8e-15 * (aA * aL).sum(axis=1) / np.abs((s.A * s.L).sum(axis=1)))),
              ('sqrt k', skres, np.abs(s.k) * 1e-14)]
    for name, res, bound in checks:
        ratio = float((np.abs(res) / bound).max())
        _track(ctx, name, ratio)
        if ratio > 1.0:
            ctx.disagree('stroh:' + name, f'residual of `{name}` recomputed by the model from the solver\'s p, A, L, k is '
                         f'{float(np.abs(res).max()):.3e}, {ratio:.2e} x the round-off bound', rep)
    # the four self-checks: the code itself demands |.| <= tol (+1e-5 on the diagonal); the model recomputes them
    # (sum k A A has the unit of 1/C, sum k L L that of C: the code compares them scaled by max|C_ijkl|)
    cmx = float(np.abs(s.C.Cijkl).max())
    for name, res in (('sum k A L = 1', cAL), ('sum k A A = 0', cAA * cmx), ('sum k L L = 0', cLL / cmx), ('6x6 orthogonality', cST)):
        r = float(np.abs(res).max())
        _track(ctx, name, r / (tol + RTOL_NP))
        if r > tol + RTOL_NP:
            ctx.disagree('stroh:selfcheck', f'self-check `{name}` recomputed by the model is off by {r:.3e}', rep)
    bmax = float(np.abs(s.burgers).max())
    r = float(np.abs(jump).max())
    _track(ctx, 'burgers closure', r / ((tol + RTOL_NP) * 3 * bmax))
    if r > (tol + RTOL_NP) * 3 * bmax:
        ctx.disagree('stroh:closure', f'model displacement jump differs from b by {r:.3e}', rep)
    # K tensor, K_coeff, preln
    Kimpl = s.K_tensor
    kb = float(np.abs(Kt).max())
    if np.iscomplexobj(Kimpl) or float(np.abs(Kt.imag).max()) > tol:
        ctx.disagree('K:real', f'K_tensor is not real (max |Im| {float(np.abs(Kt.imag).max()):.3e})', rep)
    elif not np.allclose(Kimpl, Kc, rtol=1e-10, atol=2.5 * tol * kb):
        ctx.disagree('K_tensor', f'K_tensor differs from the model: {Kimpl.tolist()} vs {Kc.tolist()}', rep)
    else:
        bq = s.burgers
        if not (cm.close(s.K_coeff, F(kcoef), 1e-9, 5 * tol * kb) and cm.close(s.preln, F(preln), 1e-9, 5 * tol * kb * float(bq.dot(bq)))):
            ctx.disagree('K_coeff', f'K_coeff/preln {s.K_coeff}, {s.preln} differ from the model {kcoef}, {preln}', rep)
    ctx.stats.case('K_tensor', tuple(np.asarray(Kimpl).ravel().tolist()))


def _field_scales(s, pts):
    """magnitudes of the sums the implementation evaluates (for the round-off bound of the comparison)."""
    np = _np()
    eta = s.eta(pts)
    eta = eta.reshape(-1, 6)
    updn = np.array([1, -1, 1, -1, 1, -1])
    kLb = np.abs(s.k * updn * s.L.dot(s.burgers))
    aA = np.abs(s.A).max(axis=1)
    mpn = np.abs(s.m + np.outer(s.p, s.n)).max(axis=1)
    su = (kLb * aA * np.abs(np.log(eta))).sum(axis=1) / (2 * np.pi)
    se = (kLb * aA * mpn / np.abs(eta)).sum(axis=1) / (2 * np.pi)
    ss = se * 9 * float(np.abs(s.C.Cijkl).max())
    return eta, su, se, ss


def _field_case(ctx, spec, s, pts):
    np = _np()
    P = np.array(pts, dtype=float)
    rep = {'op': 'field', 'spec': spec, 'points': pts}
    eta, su, se, ss = _field_scales(s, P)
    ln = np.log(eta)
    body = ' '.join(cm.frs(P[i]) + ' ' + cfrs(ln[i]) for i in range(len(P)))
    out = ctx.driver.ask(f'field {cm.fr(np.pi)} {problem_wire(s)} {len(P)} {body}')
    if out.startswith('err:'):
        ctx.disagree('field:driver-error', f'model refused: {out}', rep)
        return
    vals = cplx(cm.unfrs(out))
    single = len(P) == 1
    arg = P[0] if single else P
    U, E, S = s.displacement(arg), s.strain(arg), s.stress(arg)
    shapes_ok = (U.shape, E.shape, S.shape) == (((3,), (3, 3), (3, 3)) if single else ((len(P), 3), (len(P), 3, 3), (len(P), 3, 3)))
    if not shapes_ok:
        ctx.disagree('field:shape', f'field arrays have shapes {U.shape}, {E.shape}, {S.shape} for {len(P)} points', rep)
        return
    U, E, S = (np.asarray(a).reshape((len(P),) + a.shape[(0 if single else 1):]) for a in (U, E, S))
    _real_if_close_case(ctx, rep, spec, vals, U, E, S, su, se, ss)
    for i in range(len(P)):
        row = vals[27 * i:27 * i + 27]
        m_eta, m_u = np.array(row[:6]), np.array(row[6:9])
        m_e, m_s = np.array(row[9:18]).reshape(3, 3), np.array(row[18:27]).reshape(3, 3)
        ctx.stats.case('field-point', (tuple(P[i]), tuple(s.p), tuple(s.burgers)),
                       sample={'op': 'displacement/strain/stress', 'pos': P[i].tolist(), **_spec_sample(spec),
                               'displacement': np.real(U[i]).tolist()})
        r1 = dict(rep, index=i)
        if not np.allclose(eta[i], m_eta, rtol=1e-13, atol=1e-13 * float(np.abs(P[i]).max()) * (1 + float(np.abs(s.p).max()))):
            ctx.disagree('eta', f'eta at {P[i].tolist()} differs from x.m + p x.n', r1)
            continue
        for name, impl, model, scale in (('displacement', U[i], m_u, su[i]), ('strain', E[i], m_e, se[i]),
                                         ('stress', S[i], m_s, ss[i])):
            bound = 1e-11 * scale + 1e-300
            if np.iscomplexobj(impl):
                d = float(np.abs(impl - model).max())
            else:
                d = max(float(np.abs(impl - model.real).max()), 0.0)
            _track(ctx, name, d / bound)
            if d > bound:
                ctx.disagree(name, f'{name} at {P[i].tolist()} differs from the model by {d:.3e} '
                             f'({d / bound:.2e} x the round-off bound): {np.asarray(impl).tolist()} vs {model.tolist()}', r1)


def _real_if_close_case(ctx, rep, spec, vals, U, E, S, su, se, ss):
    """the coded `real_if_close` (repo fix fc87dd0): the whole result is returned real iff every |Im| <= tol x max|result|;
    decided here on the model's exact values, with the round-off bound of the sums as the undecided band."""
    np = _np()
    npts = len(su)
    for name, impl, sl, shape, scale in (('displacement', U, slice(6, 9), (3,), su), ('strain', E, slice(9, 18), (3, 3), se),
                                         ('stress', S, slice(18, 27), (3, 3), ss)):
        M = np.array([vals[27 * i:27 * i + 27][sl] for i in range(npts)])
        big, im = float(np.abs(M).max()), float(np.abs(M.imag).max())
        band = 1e-11 * float(np.max(scale)) + 1e-300
        if im <= spec['tol'] * big - band and np.iscomplexobj(impl):
            ctx.disagree(name + ':complex', f'{name} is returned complex although the imaginary part of the model value ({im:.3e}) is below '
                         f'tol x max|{name}| = {spec["tol"] * big:.3e}', rep)
        elif im > spec['tol'] * big + band and not np.iscomplexobj(impl):
            ctx.disagree(name + ':imag', f'{name} is returned real although the model value has an imaginary part {im:.3e} above '
                         f'tol x max|{name}| = {spec["tol"] * big:.3e}', rep)


def _iso_case(ctx, spec, s, pts):
    """IsotropicVolterraDislocation vs the generated closed form + hand-written plumbing."""
    import warnings
    np = _np()
    P = np.array(pts, dtype=float)
    rep = {'op': 'iso', 'spec': spec, 'points': pts}
    tol = spec['tol']
    exact_frame = isinstance(spec['m'], str) and isinstance(spec['n'], str)
    x, y = P.dot(s.m), P.dot(s.n)
    with warnings.catch_warnings():
        warnings.simplefilter('ignore')
        with np.errstate(all='ignore'):
            atn = np.arctan(y / x)
            logv = np.log(x ** 2 + y ** 2)
    body = ' '.join(f'{cm.frs(P[i])} {cm.fr(atn[i])} {cm.fr(logv[i])}' for i in range(len(P)))
    out = ctx.driver.ask(f'iso {cm.fr(np.pi)} {cm.frs(s.m)} {cm.frs(s.n)} {cm.frs(s.burgers)} {cm.fr(s.mu)} {cm.fr(s.nu)} '
                         f'{len(P)} {body}')
    if out.startswith('err:'):
        ctx.disagree('iso:driver-error', f'model refused: {out}', rep)
        return
    vals = [float(v) for v in cm.unfrs(out)]
    single = len(P) == 1
    arg = P[0] if single else P
    TH, U, E, S = s.theta(arg if not single else P), s.displacement(arg), s.strain(arg), s.stress(arg)
    if (U.shape, E.shape, S.shape) != (((3,), (3, 3), (3, 3)) if single else ((len(P), 3), (len(P), 3, 3), (len(P), 3, 3))):
        ctx.disagree('iso:shape', f'field arrays have shapes {U.shape}, {E.shape}, {S.shape} for {len(P)} points', rep)
        return
    U, E, S = (np.asarray(a).reshape((len(P),) + a.shape[(0 if single else 1):]) for a in (U, E, S))
    babs = float(np.abs(s.burgers).max())
    for i in range(len(P)):
        row = vals[24 * i:24 * i + 24]
        mx, my, mth = row[:3]
        m_u, m_e, m_s = np.array(row[3:6]), np.array(row[6:15]).reshape(3, 3), np.array(row[15:24]).reshape(3, 3)
        r = math.hypot(x[i], y[i])
        # a rotated frame rounds x = pos.m: the branch of theta is decided by the sign of a number of size 1e-16 r
        edge = (not exact_frame) and (abs(mx) < 1e-12 * r or (mx < 0 and abs(my) < 1e-12 * r))
        ctx.stats.case('iso-point', (tuple(P[i]), s.mu, s.nu, tuple(s.burgers), tuple(s.m), tuple(s.n)), nontrivial=not edge,
                       sample={'op': 'isotropic fields', 'pos': P[i].tolist(), 'theta': float(TH[i]), 'm': spec['m'], 'n': spec['n']})
        if edge:
            continue
        r1 = dict(rep, index=i)
        if abs(TH[i] - mth) > 1e-14:
            ctx.disagree('iso:theta', f'theta at x={x[i]!r}, y={y[i]!r} is {TH[i]!r}, model {mth!r}', r1)
            continue
        lg = abs(logv[i]) + math.pi + 1
        for name, impl, model, scale in (('iso displacement', U[i], m_u, babs * lg), ('iso strain', E[i], m_e, babs / r),
                                         ('iso stress', S[i], m_s, babs / r * s.mu * 4 / (1 - s.nu))):
            d = float(np.abs(impl - model).max())
            bound = 1e-12 * scale
            _track(ctx, name, d / bound)
            if d > bound:
                ctx.disagree(name, f'{name} at {P[i].tolist()} differs from the generated closed form by {d:.3e}: '
                             f'{impl.tolist()} vs {model.tolist()}', r1)


def _isok_case(ctx, spec, s):
    np = _np()
    rep = {'op': 'isok', 'spec': spec}
    bulk = s.C.bulk()
    out = ctx.driver.ask(f'isok {cm.fr(spec["tol"])} {cm.fr(np.pi)} {cm.frs(s.m)} {cm.frs(s.n)} {cm.frs(s.burgers)} '
                         f'{cm.fr(s.mu)} {cm.fr(bulk)}')
    ctx.stats.case('iso-K', (s.mu, bulk, tuple(s.m), tuple(s.n), tuple(s.burgers)),
                   sample={'op': 'isotropic K_tensor', 'mu': float(s.mu), 'nu': float(s.nu)})
    if out.startswith('err:'):
        ctx.disagree('isok:driver-error', f'model refused: {out}', rep)
        return
    v = [float(t) for t in cm.unfrs(out)]
    if abs(v[0] - s.nu) > 1e-14:
        ctx.disagree('iso:nu', f'Poisson ratio {s.nu!r} differs from (3K-2mu)/(2(3K+mu)) = {v[0]!r}', rep)
    K = np.array(v[1:10]).reshape(3, 3)
    kb = float(np.abs(K).max())
    if not np.allclose(s.K_tensor, K, rtol=1e-12, atol=2.5 * spec['tol'] * kb):
        ctx.disagree('iso:K_tensor', f'isotropic K_tensor {s.K_tensor.tolist()} differs from the model {K.tolist()}', rep)
    elif not (abs(s.K_coeff - v[10]) <= 1e-9 * kb and abs(s.preln - v[11]) <= 1e-9 * kb * float(s.burgers.dot(s.burgers))):
        ctx.disagree('iso:K_coeff', f'K_coeff/preln {s.K_coeff}, {s.preln} differ from the model {v[10]}, {v[11]}', rep)


def _outcome(spec, which='stroh'):
    """'ok' | 'err:assert' | 'err:value' | 'raised ...' of constructing the real solver."""
    try:
        build(spec, which)
        return 'ok'
    except AssertionError:
        return 'err:assert'
    except ValueError:
        return 'err:value'
    except Exception as e:  # noqa
        return f'raised {type(e).__name__}: {e}'


def gen_refusals(rng, k):
    """specs with malformed orientation input, paired with nothing: the model decides what should happen."""
    np = _np()
    out = []
    for it in range(k):
        spec = gen_spec(rng, cls=rng.choice(['cubic', 'orthorhombic']), route=rng.choice(['default', 'transform']), mn='rot')
        spec['burgers'] = [1.0, 0.5, 0.25]
        # kinds, the solver's tol and the borderline deviations are enumerated (first 81 cases), then drawn at random
        spec['tol'] = [1e-8, 1e-6, 1e-5][(it // 9) % 3]
        pick = (lambda lst: lst[(it // 27) % len(lst)]) if it < 81 else rng.choice       # noqa: E731
        t8 = spec['tol'] / 1e-8            # borderline deviations scale with the solver's tol
        m, n = (np.array(v) for v in mn_vectors(spec))
        kind = ['m-norm', 'n-norm', 'angle', 'cart', 'cart-ok', 'axes-skew', 'axes-left', 'n-norm', 'angle'][it % 9]
        spec['malformed'] = kind
        if kind in ('m-norm', 'n-norm'):
            f = 1 + pick([0.5e-8 * t8, -2e-8 * t8, -0.5e-8 * t8, 2e-8 * t8, 1e-3, 1.0, -0.5, 1e-6, 0.25])
            if kind == 'm-norm':
                m = m * f
            else:
                n = n * f
            spec['factor'] = f
        elif kind == 'angle':
            e = pick([0.5e-8 * t8, 2e-8 * t8, -0.5e-8 * t8, -2e-8 * t8, 1e-3, 0.1, 1e-6])
            n = n * math.cos(e) + m * math.sin(e)
            spec['angle'] = e
        elif kind == 'cart':
            spec['cart_axes'] = True
        elif kind == 'cart-ok':
            spec['cart_axes'] = True
            m, n = rng.choice([([1.0, 0, 0], [0, 1.0, 0]), ([0, 0, 1.0], [1.0, 0, 0]), ([-1.0, 0, 0], [0, 1.0, 0]),
                               ([0, 1.0, 0], [0, 0, -1.0]), ([1.0, 1e-9, 0], [0, 1.0, 0])])
            m, n = np.array(m), np.array(n)
        elif kind == 'axes-skew':
            spec['route'] = 'transform'
            e = rng.choice([0.1, 1e-3, 1e-6, 1e-9])
            spec['transform'] = [[1.0, e, 0.0], [0.0, 1.0, 0.0], [0.0, 0.0, 1.0]]
            spec['skew'] = e
        elif kind == 'axes-left':
            spec['route'] = 'transform'
            spec['transform'] = rng.choice([[[1.0, 0, 0], [0, 1.0, 0], [0, 0, -1.0]], [[0, 1.0, 0], [1.0, 0, 0], [0, 0, 1.0]],
                                            [[1.0, 1.0, 0], [-1.0, 1.0, 0], [0, 0, -2.0]]])
        spec['m'], spec['n'] = [float(v) for v in m], [float(v) for v in n]
        out.append(spec)
    return out


def _refusal_case(ctx, spec):
    np = _np()
    rep = {'op': 'refusal', 'spec': spec}
    impl = _outcome(spec)
    m, n = mn_vectors(spec)
    model = ctx.driver.ask(f'mn {cm.fr(spec["tol"])} {int(spec["cart_axes"])} {cm.frs(m)} {cm.frs(n)}')
    if model == '1' and spec['route'] in ('transform', 'axes'):
        ax = np.array(spec['transform'], dtype=float)
        norms = np.linalg.norm(ax, axis=1)
        o = ctx.driver.ask(f'axes {cm.fr(1e-8)} {cm.fr(RTOL_NP)} {cm.frs(ax)} {cm.frs(norms)}')
        model = o if o.startswith('err:') else '1'
    model = 'ok' if model == '1' else model
    ctx.stats.case('malformed:' + spec['malformed'], (spec['malformed'], tuple(m), tuple(n), str(spec['transform'])),
                   sample={'op': 'malformed orientation', 'kind': spec['malformed'], 'm': spec['m'], 'n': spec['n'],
                           'implementation': impl, 'model': model})
    if impl != model:
        ctx.disagree('refusal:' + spec['malformed'], f'malformed orientation ({spec["malformed"]}, m={spec["m"]}, n={spec["n"]}, '
                     f'cart_axes={spec["cart_axes"]}, transform={spec["transform"]}): implementation {impl}, model {model}', rep)


def gen_iso_spec(rng):
    # the isotropic solver is for Burgers vectors in the slip plane: always edge / screw / mixed in the solver frame
    spec = gen_spec(rng, cls='isotropic')
    if not isinstance(spec['burgers'], str) or spec['burgers'] in ('climb', 'frame'):
        spec['burgers'] = rng.choice(['edge', 'screw', 'mixed'])
        spec['bkind'] = spec['burgers']
        spec['bsize'] = rng.choice([1.0, 2.5, 0.5])
    return spec


def _dispatch_case(ctx, sw, eps):
    """solve_volterra_dislocation and the acceptance of the isotropic solver against the model's `dispatch` /
    `isoInPlaneOk`: inputs of the model are the outcome of the real Stroh attempt, the value of C.is_normal('isotropic',
    atol=0, rtol=1e-4) (property C11) and the rotated Burgers vector and n axis as stored by the base class."""
    import atomman as am
    np = _np()
    spec = sweep_spec(sw, eps)
    rep = {'op': 'dispatch', 'sweep': sw, 'eps': eps}
    C = am.ElasticConstants(Cij=np.array(spec['cij'], dtype=float))
    try:
        base = am.defect.VolterraDislocation(C, resolve_burgers(spec), **solver_kwargs(spec))
    except Exception as e:  # noqa
        ctx.disagree('dispatch:base-raises', f'orientation handling refused a valid orientation: {type(e).__name__}: {e}', rep)
        return
    oS, oI = _outcome(spec, 'stroh'), _outcome(spec, 'iso')
    oA, A = _outcome_obj(spec, 'auto')
    impl = oA if oA != 'ok' else type(A).__name__
    iso_n = bool(C.is_normal('isotropic', atol=0.0, rtol=1e-4))
    ctx.stats.case('dispatch', (eps, str(spec['cij']), tuple(base.burgers), tuple(base.n)),
                   sample={'op': 'solve_volterra_dislocation', 'eps': eps, 'anisotropy': sw['dcls'], 'b_frame': sw['bframe'],
                           'stroh': oS, 'iso': oI, 'returned': impl})
    if oS not in ('ok', 'err:value') or oI not in ('ok', 'err:value'):
        ctx.disagree('dispatch:raises', f'a solver raised something else than ValueError: Stroh {oS}, isotropic {oI}', rep)
        return
    tail = f'{cm.frs(base.burgers)} {cm.frs(base.n)}'
    out = ctx.driver.ask(f'dispatch {cm.fr(spec["tol"])} {int(oS == "ok")} {int(iso_n)} {tail}')
    model = out if out.startswith('err:') else {1: 'Stroh', 2: 'IsotropicVolterraDislocation'}.get(int(cm.unfrs(out)[0]), out)
    if model != impl:
        ctx.disagree('dispatch', f'solve_volterra_dislocation gives {impl}, the model {model} (anisotropy {eps}, Stroh alone: {oS}, '
                     f'is_normal(isotropic): {iso_n}, b = {base.burgers.tolist()}, n = {base.n.tolist()})', rep)
    out = ctx.driver.ask(f'dispatch {cm.fr(spec["tol"])} 0 {int(iso_n)} {tail}')
    model = 'err:value' if out.startswith('err:') else 'ok'
    if out.startswith('err:') and out != 'err:value':
        ctx.disagree('dispatch:driver-error', f'model refused: {out}', rep)
    elif model != oI:
        ctx.disagree('iso:accept', f'IsotropicVolterraDislocation: {oI}, the model (is_normal and |b.n| <= tol max|b|): {model} '
                     f'(anisotropy {eps}, is_normal(isotropic): {iso_n}, b = {base.burgers.tolist()}, n = {base.n.tolist()})', rep)


def _seq_case(ctx, spec, rng, force=()):
    """object-level correspondence: ONE Stroh object and ONE coordinate array live through a history of in-place edits
    (of the array, and of the argument objects the caller kept) and reads; the model's `World` (Atomman.C12: the solved
    object holds copies, a read is a function of the object and of the array's current contents) runs the same history;
    every read is compared."""
    import atomman as am
    np = _np()
    C, b, kw = _mutable_args(spec)
    st, s = _call(am.defect.Stroh, C, b, **kw)
    if st != 'ok':
        return
    ls = spec.get('lscale', 1.0)
    wire = problem_wire(s)                  # the problem as solved: from here on only the model remembers it
    p0, A0, L0, k0, b0, m0, n0 = s.p, s.A, s.L, s.k, s.burgers.copy(), s.m.copy(), s.n.copy()
    cmax = float(np.abs(s.C.Cijkl).max())
    updn = np.array([1, -1, 1, -1, 1, -1])
    kLb = np.abs(k0 * updn * L0.dot(b0))
    aA = np.abs(A0).max(axis=1)
    mpn = np.abs(m0 + np.outer(p0, n0)).max(axis=1)
    npts = rng.choice([1, 2, 3])
    P = np.array(gen_points(rng, s, npts, special=False, ls=ls))
    steps, reads = [], []
    hist = []
    R2 = _rot_float(quat_rot(rng.choice(QUATS[1:8])))
    rep = {'op': 'seq', 'spec': spec}

    def read():
        cur = P.copy()
        eta = cur.dot(m0)[:, None] + cur.dot(n0)[:, None] * p0[None, :]      # independent of the object under test
        ln = np.log(eta)
        steps.append('0 ' + ' '.join(cfrs(ln[i]) for i in range(npts)))
        order = ['eta', 'displacement', 'strain', 'stress']
        rng.shuffle(order)
        got = {}
        for f in order:
            stf, v = _call(getattr(s, f), P)
            got[f] = (stf, None if v is None else np.array(v, copy=True))
        reads.append((cur, eta, ln, got, list(hist)))
    read()
    todo = list(force)
    for _ in range(rng.choice([4, 6, 8])):
        kind = todo.pop(0) if todo else rng.choice(['set', 'scale', 'scale', 'shift', 'col', 'all', 'argB', 'argM', 'argN', 'argC', 'argT', 'read'])
        if kind == 'set':
            i = rng.randrange(npts)
            x = np.array(gen_points(rng, s, 1, special=False, ls=ls)[0])
            P[i] = x
            steps.append(f'1 {i} {cm.frs(x)}')
        elif kind == 'scale':
            t = rng.choice([2.0, 0.5, 4.0, -1.0, 0.25])
            P *= t
            steps.append(f'2 {cm.fr(t)}')
        elif kind == 'shift':
            d = np.array([cm.dyadic(rng, -1, 1, 4) * ls for _ in range(3)])
            P += d
            steps.append(f'3 {cm.frs(d)}')
        elif kind == 'col':
            j, h = rng.randrange(3), cm.dyadic(rng, -1, 1, 6) * ls
            P[:, j] += h
            steps.append(f'4 {j} {cm.fr(h)}')
        elif kind == 'all':
            Q = np.array(gen_points(rng, s, npts, special=False, ls=ls))
            np.copyto(P, Q)
            steps.append(f'5 {cm.frs(Q)}')
        elif kind == 'argB':
            v = np.array([rng.uniform(-2, 2) * ls for _ in range(len(b))])
            b[:] = v
            steps.append(f'6 {cm.frs(v[:3])}')
        elif kind in ('argM', 'argN'):
            key = 'm' if kind == 'argM' else 'n'
            if not isinstance(kw[key], np.ndarray):
                continue
            v = R2[0] if key == 'm' else R2[1]
            kw[key][:] = v
            steps.append(f'{7 if key == "m" else 8} {cm.frs(v)}')
        elif kind == 'argC':
            f = rng.choice([2.0, 0.5, 3.0])
            C.Cij = C.Cij * f
            steps.append(f'9 {cm.fr(f)}')
        elif kind == 'argT':
            key = 'transform' if 'transform' in kw else ('axes' if 'axes' in kw else None)
            if key is None:
                continue
            kw[key][:] = R2
            steps.append(f'10 {cm.frs(R2)}')
        hist.append(kind)
        if kind != 'read' and rng.random() < 0.3:
            continue
        read()
    if hist and hist[-1] != 'read':
        read()
    line = f'seq {cm.fr(np.pi)} {wire} {npts} {cm.frs(reads[0][0])} {len(steps)} ' + ' '.join(steps)
    out = ctx.driver.ask(line)
    ctx.stats.case('seq', line[:3000], sample={'op': 'history on one object and one array', 'history': hist, **_spec_sample(spec)})
    if out.startswith('err:'):
        ctx.disagree('seq:driver-error', f'model refused: {out}', rep)
        return
    vals = cplx(cm.unfrs(out))
    if len(vals) != 27 * npts * len(reads):
        ctx.disagree('seq:driver-error', f'model returned {len(vals)} numbers for {len(reads)} reads of {npts} points', rep)
        return
    for q, (cur, eta, ln, got, h) in enumerate(reads):
        r1 = dict(rep, history=h, points=cur.tolist())
        bad = [f'{f}: {stf}' for f, (stf, v) in got.items() if stf != 'ok']
        if bad:
            ctx.disagree('seq:raises', f'after the history {h} the implementation {bad}', r1)
            return
        su = (kLb * aA * np.abs(ln)).sum(axis=1) / (2 * np.pi)
        se = (kLb * aA * mpn / np.abs(eta)).sum(axis=1) / (2 * np.pi)
        ss = se * 9 * cmax
        for i in range(npts):
            row = vals[27 * (q * npts + i):27 * (q * npts + i) + 27]
            m_eta, m_u = np.array(row[:6]), np.array(row[6:9])
            m_e, m_s = np.array(row[9:18]).reshape(3, 3), np.array(row[18:27]).reshape(3, 3)
            if not np.allclose(eta[i], m_eta, rtol=1e-12, atol=1e-12 * float(np.abs(cur[i]).max()) * (1 + float(np.abs(p0).max()))):
                ctx.disagree('seq:positions', f'harness and model disagree on the array contents after {h} (harness bug)', r1)
                return
            for name, impl, model, scale in (('eta', got['eta'][1].reshape(npts, 6)[i], m_eta, float(np.abs(eta[i]).max()) * 1e-2),
                                             ('displacement', got['displacement'][1].reshape(npts, 3)[i], m_u, su[i]),
                                             ('strain', got['strain'][1].reshape(npts, 3, 3)[i], m_e, se[i]),
                                             ('stress', got['stress'][1].reshape(npts, 3, 3)[i], m_s, ss[i])):
                bound = 1e-11 * scale + 1e-300
                d = float(np.abs(impl - (model if np.iscomplexobj(impl) else model.real)).max())
                _track(ctx, 'seq ' + name, d / bound)
                if d > bound:
                    ctx.disagree('seq:' + name, f'{name} read after the history {h} at {cur[i].tolist()} differs from the model (the solved '
                                 f'object and the CURRENT contents of the array) by {d:.3e} ({d / bound:.2e} x the round-off bound): '
                                 f'{np.asarray(impl).tolist()} vs {model.tolist()}', r1)
                    return


BASE_CONFLICTS = [None, None, None, 'xi-only', 'hkl-only', 'miller+transform', 'miller+axes', 'transform+axes',
                  'line-off-plane', 'axes-skew', 'axes-left', 'm-norm', 'angle', 'cart']


def gen_base_spec(rng, it):
    """one call of VolterraDislocation.solve: a valid problem of gen_spec, or one with conflicting / malformed options."""
    np = _np()
    spec = gen_spec(rng, cls=rng.choice(['cubic', 'orthorhombic', 'triclinic']), mn=rng.choice([None, 'rot']))
    spec['burgers'] = resolve_burgers(spec)
    cf = BASE_CONFLICTS[it % len(BASE_CONFLICTS)]
    spec['conflict'] = cf
    R = _fl(quat_rot(rng.choice(QUATS)))
    mil = rng.choice(MILLER)
    if cf in ('xi-only', 'hkl-only', 'miller+transform', 'miller+axes', 'line-off-plane'):
        spec['route'] = 'miller'
        spec['transform'] = None
        spec['xi_uvw'], spec['slip_hkl'] = list(mil[0]), list(mil[1])
        if spec['box'] is not None and len(spec['box']) != 3:
            spec['box'] = None
        if cf == 'line-off-plane':
            spec['xi_uvw'] = rng.choice([[1, 0, 0], [1, 1, 1], [2, -1, 3]])
            spec['slip_hkl'] = rng.choice([[1, 1, 1], [1, 0, 1]])
    if cf == 'transform+axes':
        spec['route'] = 'transform'
        spec['transform'] = R
    if cf == 'axes-skew':
        spec['route'] = rng.choice(['transform', 'axes'])
        e = rng.choice([0.1, 1e-3, 1e-6, 3e-8, 1e-9])
        spec['transform'] = [[1.0, e, 0.0], [0.0, 1.0, 0.0], [0.0, 0.0, 1.0]]
    if cf == 'axes-left':
        spec['route'] = rng.choice(['transform', 'axes'])
        spec['transform'] = rng.choice([[[1.0, 0, 0], [0, 1.0, 0], [0, 0, -1.0]], [[0, 2.0, 0], [1.0, 0, 0], [0, 0, 1.0]]])
    if cf in ('m-norm', 'angle', 'cart'):
        m, n = (np.array(v) for v in mn_vectors(spec))
        if cf == 'm-norm':
            f = 1 + rng.choice([0.5, -0.5, 2, -2, 100]) * spec['tol']
            if rng.random() < 0.5:
                m = m * f
            else:
                n = n * f
        elif cf == 'angle':
            e = rng.choice([0.5, -0.5, 2, -2, 1e3]) * spec['tol']
            n = n * math.cos(e) + m * math.sin(e)
        else:
            spec['cart_axes'] = True
            if rng.random() < 0.5:
                m, n = rng.choice([([0, 0, 1.0], [1.0, 0, 0]), ([-1.0, 0, 0], [0, 1.0, 0]), ([1.0, 1e-9, 0], [0, 1.0, 0])])
                m, n = np.array(m), np.array(n)
        spec['m'], spec['n'] = [float(v) for v in m], [float(v) for v in n]
    return spec


def base_kwargs(spec):
    np = _np()
    kw = solver_kwargs(spec)
    cf = spec.get('conflict')
    R = np.array([[0.0, 1.0, 0.0], [-1.0, 0.0, 0.0], [0.0, 0.0, 1.0]])
    if cf == 'xi-only':
        del kw['slip_hkl']
    elif cf == 'hkl-only':
        del kw['ξ_uvw']
    elif cf == 'miller+transform':
        kw['transform'] = R
    elif cf == 'miller+axes':
        kw['axes'] = R
    elif cf == 'transform+axes':
        kw['axes'] = R
    return kw


def _base_case(ctx, spec):
    """the whole of VolterraDislocation.solve against the model's baseSolve: which route, which refusal (class), the stored
    transform, stiffness and Burgers vector."""
    import atomman as am
    np = _np()
    rep = {'op': 'base', 'spec': spec}
    kw = base_kwargs(spec)
    C = am.ElasticConstants(Cij=np.array(spec['cij'], dtype=float))
    b = list(spec['burgers'])
    try:
        s = am.defect.VolterraDislocation(C, b, **kw)
        impl = 'ok'
    except AssertionError:
        impl = 'err:assert'
    except ValueError:
        impl = 'err:value'
    except Exception as e:  # noqa
        impl = f'raised {type(e).__name__}: {e}'
    m, n = mn_vectors(spec)
    box = _mkbox(spec)
    z3, z9 = np.zeros(3), np.zeros(9)
    T = kw.get('transform')
    A = kw.get('axes')
    given = T if T is not None else A
    norms = np.linalg.norm(np.asarray(given, dtype=float), axis=1) if given is not None else np.ones(3)
    n_axis, xi_axis = z3, z3
    Tpy = np.eye(3)
    if 'ξ_uvw' in kw and 'slip_hkl' in kw:
        xi_axis = box.vector_crystal_to_cartesian(kw['ξ_uvw'])
        xi_axis = xi_axis / np.linalg.norm(xi_axis)
        n_axis = box.plane_crystal_to_cartesian(kw['slip_hkl'])
        Tpy = np.array([m, n, np.cross(m, n)]).T.dot(np.array([np.cross(n_axis, xi_axis), n_axis, xi_axis]))
    elif given is not None:
        Tpy = (np.asarray(given, dtype=float).T / norms).T
    norms2 = np.linalg.norm(Tpy, axis=1)
    b3 = np.array(v3(b), dtype=float)
    line = ' '.join(['base', cm.fr(spec['tol']), cm.fr(1e-8), cm.fr(RTOL_NP), str(int(bool(spec['cart_axes']))),
                     str(int(isinstance(spec['m'], str))), str(int(isinstance(spec['n'], str))), cm.frs(m), cm.frs(n),
                     str(int('ξ_uvw' in kw)), str(int('slip_hkl' in kw)),
                     str(int(T is not None)), cm.frs(np.asarray(T, dtype=float).ravel() if T is not None else z9),
                     str(int(A is not None)), cm.frs(np.asarray(A, dtype=float).ravel() if A is not None else z9),
                     cm.frs(norms), cm.frs(norms2), cm.frs(n_axis), cm.frs(xi_axis), cm.frs(box.vects),
                     cm.frs(np.array(spec['cij'], dtype=float)), cm.frs(b3)])
    out = ctx.driver.ask(line)
    model = out if out.startswith('err:') else 'ok'
    ctx.stats.case('base:' + str(spec.get('conflict')), (str(spec.get('conflict')), spec['route'], str(spec['m']), str(spec['n']),
                                                       str(spec['transform']), str(spec['xi_uvw']), str(spec['slip_hkl'])),
                   nontrivial=impl == 'ok' or spec.get('conflict') is not None,
                   sample={'op': 'VolterraDislocation.solve', 'options': sorted(kw), 'conflict': spec.get('conflict'),
                           'implementation': impl, 'model': model})
    if impl != model:
        ctx.disagree('base:outcome', f'VolterraDislocation(C, b, {", ".join(sorted(kw))}) [{spec.get("conflict")}]: implementation '
                     f'{impl}, model {model} (route {spec["route"]}, m={spec["m"]}, n={spec["n"]}, transform={spec["transform"]}, '
                     f'ξ_uvw={spec["xi_uvw"]}, slip_hkl={spec["slip_hkl"]})', rep)
        return
    if impl != 'ok':
        return
    vals = cm.unfrs(out)
    if not cm.allclose(s.transform.ravel(), vals[:9], 0, 1e-13):
        ctx.disagree('base:transform', f'stored transform {s.transform.tolist()} differs from the model '
                     f'{[float(v) for v in vals[:9]]} (options {sorted(kw)})', rep)
    big = float(np.abs(np.array(spec['cij'])).max())
    if not cm.allclose(s.C.Cij.ravel(), vals[9:45], 1e-12, 2.5 * TOL_C * big):
        ctx.disagree('base:C', f'stored stiffness differs from the model (options {sorted(kw)}, {spec["cls"]})', rep)
    bb = float(np.abs(s.burgers).max())
    if not cm.allclose(s.burgers, vals[45:48], 1e-12, 2.5 * spec['tol'] * bb):
        ctx.disagree('base:burgers', f'stored Burgers vector {s.burgers.tolist()} differs from the model '
                     f'{[float(v) for v in vals[45:48]]} (options {sorted(kw)})', rep)


def _cguard(ctx, name, spec, fn):
    """an exception inside one correspondence case (a zero Burgers vector, nan, a shape the implementation suddenly returns)
    is a disagreement to report with the case, never a crash of the harness."""
    try:
        fn()
    except Exception as e:  # noqa
        import traceback
        tb = traceback.extract_tb(e.__traceback__)[-1]
        ctx.disagree(f'{name}:raises', f'{name}: {type(e).__name__}: {e} ({tb.filename.rsplit("/", 1)[-1]}:{tb.lineno} {tb.name})',
                     {'op': name, 'spec': spec})


def correspond(ctx):
    np = _np()
    rng = ctx.rng
    t0 = time.time()
    n_deg = 0
    for it in range(ctx.n(36, 400)):
        spec = gen_spec(rng, cls=CLASSES[it % len(CLASSES)], near_identity=it % 9 == 4, four_index=it % 9 == 7)
        out = _outcome(spec)
        if out != 'ok':
            # exact eigenvalue degeneracy (e.g. line along the six-fold axis) is outside the property's quantifier
            ctx.stats.case('stroh-refused', str(spec), nontrivial=False)
            n_deg += 1
            if out != 'err:value' or spec['cls'] not in ('hexagonal', 'tetragonal', 'rhombohedral'):
                ctx.disagree('stroh:raises', f'Stroh refused a generic {spec["cls"]} problem: {out}', {'op': 'stroh', 'spec': spec})
            continue
        s = build(spec)
        _cguard(ctx, 'orient', spec, lambda: _orientation_case(ctx, spec, s))
        _cguard(ctx, 'stroh', spec, lambda: _stroh_case(ctx, spec, s))
        npts = rng.choice([1, 1, 3, 6, 9])
        _cguard(ctx, 'field', spec, lambda: _field_case(ctx, spec, s, gen_points(rng, s, npts, ls=spec['lscale'])))
        if it % 2 == 0:
            _cguard(ctx, 'seq', spec, lambda: _seq_case(ctx, spec, rng))
        if it % 4 == 1:
            v = _identity_variants(spec)[(it // 4) % 3]
            if _outcome(v) == 'ok':
                _cguard(ctx, 'seq', v, lambda: _seq_case(ctx, v, rng, force=['argC', 'scale']))
    ctx.extra['degenerate_refused'] = n_deg
    ctx.extra['t_stroh_s'] = round(time.time() - t0, 2)
    t1 = time.time()
    for it in range(ctx.n(16, 160)):
        spec = gen_iso_spec(rng)
        try:
            s = build(spec, 'iso')
        except Exception as e:  # noqa
            ctx.disagree('iso:raises', f'IsotropicVolterraDislocation refused an isotropic problem: {type(e).__name__}: {e}',
                         {'op': 'iso', 'spec': spec})
            continue
        _cguard(ctx, 'orient', spec, lambda: _orientation_case(ctx, spec, s))
        _cguard(ctx, 'isok', spec, lambda: _isok_case(ctx, spec, s))
        _cguard(ctx, 'iso', spec, lambda: _iso_case(ctx, spec, s, gen_points(rng, s, rng.choice([1, 4, 8, 12]), ls=spec['lscale'])))
    for spec in gen_refusals(rng, ctx.n(54, 270)):
        _cguard(ctx, 'refusal', spec, lambda: _refusal_case(ctx, spec))
    for it in range(ctx.n(56, 420)):
        spec = gen_base_spec(rng, it)
        _cguard(ctx, 'base', spec, lambda: _base_case(ctx, spec))
    ctx.extra['t_iso_refusals_s'] = round(time.time() - t1, 2)
    t2 = time.time()
    for it in range(ctx.n(14, 84)):
        bk = SWEEP_BKINDS[(it + it // 7) % len(SWEEP_BKINDS)]
        sw = gen_sweep(rng, cls=CLASSES[it % len(CLASSES)], bkind=bk, tol=[1e-6, 1e-5, 1e-8][it % 3] if bk.endswith('-n') else None)
        for eps in EPS_SWEEP:
            _cguard(ctx, 'dispatch', sw, lambda: _dispatch_case(ctx, sw, eps))
    ctx.extra['t_dispatch_s'] = round(time.time() - t2, 2)



# ------------------------------------------------------------------------------------------
# search: the property's clauses evaluated on the REAL code (no Lean model involved)
# ------------------------------------------------------------------------------------------
def _frame_point(s, r, th, z=0.0):
    np = _np()
    return r * math.cos(th) * s.m + r * math.sin(th) * s.n + z * s.ξ


def _richardson(f, X, h):
    """4th-order central difference of f (vectorised over points) along the three lab axes:
       returns D[j] = d f / d x_j at X."""
    np = _np()
    pts = []
    for j in range(3):
        e = np.zeros(3)
        e[j] = 1.0
        pts += [X + h * e, X - h * e, X + h / 2 * e, X - h / 2 * e]
    v = f(np.array(pts))
    D = []
    for j in range(3):
        a, b, c, d = v[4 * j:4 * j + 4]
        D.append((4 * (c - d) / h - (a - b) / (2 * h)) / 3)
    return D


def _exact_C_strain(C4, eps):
    """sigma_ij = sum_kl C_ijkl eps_kl in exact rational arithmetic on the doubles."""
    Cq = [[[[F(float(C4[i][j][k][l])) for l in range(3)] for k in range(3)] for j in range(3)] for i in range(3)]
    Eq = [[F(float(eps[k][l])) for l in range(3)] for k in range(3)]
    sig = [[sum(Cq[i][j][k][l] * Eq[k][l] for k in range(3) for l in range(3)) for j in range(3)] for i in range(3)]
    mag = [[sum(abs(Cq[i][j][k][l] * Eq[k][l]) for k in range(3) for l in range(3)) for j in range(3)] for i in range(3)]
    return sig, mag


def _posdef_exact(K):
    """Sylvester's criterion in exact arithmetic on the symmetrised doubles."""
    q = [[(F(float(K[i][j])) + F(float(K[j][i]))) / 2 for j in range(3)] for i in range(3)]
    m1 = q[0][0]
    m2 = q[0][0] * q[1][1] - q[0][1] * q[1][0]
    m3 = (q[0][0] * (q[1][1] * q[2][2] - q[1][2] * q[2][1]) - q[0][1] * (q[1][0] * q[2][2] - q[1][2] * q[2][0])
          + q[0][2] * (q[1][0] * q[2][1] - q[1][1] * q[2][0]))
    return m1 > 0 and m2 > 0 and m3 > 0


def _clauses(ctx, spec, s, rng, kind):
    """every field clause of the property at a few points of one solved problem."""
    np = _np()
    rep0 = {'op': 'clauses', 'solver': kind, 'spec': spec}
    ls = spec.get('lscale', 1.0)           # the length unit of the problem: every distance below is a multiple of it
    b = s.burgers
    bn = float(np.linalg.norm(b))
    C4 = s.C.Cijkl
    cmax = float(np.abs(C4).max())
    # ---- K tensor -----------------------------------------------------------------------
    K = s.K_tensor
    ctx.stats.case('oracle:K', (kind, str(spec['cij']), str(spec['m']), str(spec['n']), str(spec['transform'])),
                   sample={'op': 'K_tensor', 'solver': kind, **_spec_sample(spec), 'K': np.real(K).tolist()})
    if np.iscomplexobj(K):
        ctx.violate('K:complex', f'K_tensor is complex for a positive-definite {spec["cls"]} medium', rep0)
    else:
        kmax = float(np.abs(K).max())
        if float(np.abs(K - K.T).max()) > 1e-12 * kmax:
            ctx.violate('K:symmetric', f'K_tensor is not symmetric: {K.tolist()}', rep0)
        elif not _posdef_exact(K):
            ctx.violate('K:posdef', f'K_tensor is not positive-definite: {K.tolist()}', rep0)
        kc = float(b.dot(K.dot(b)) / b.dot(b))
        if not (abs(s.K_coeff - kc) <= 1e-12 * kmax and abs(s.preln - kc * b.dot(b) / (4 * math.pi)) <= 1e-12 * kmax * bn * bn
                and s.K_coeff > 0):
            ctx.violate('K:coeff', f'K_coeff {s.K_coeff}, preln {s.preln} are not b.K.b/b.b and b.K.b/4pi', rep0)
    # ---- K is the traction coefficient of the slip plane: sigma(X m) . n = K b / (2 pi X) ----------------------
    if not np.iscomplexobj(K):
        beff = b          # the isotropic solver refuses what its closed form cannot carry (repo fix 9765d33)
        for X in (1.0 * ls, 0.25 * ls, 7.0 * ls):
            tr = s.stress(X * s.m + 0.5 * ls * s.ξ).dot(s.n)
            want = K.dot(beff) / (2 * math.pi * X)
            ctx.stats.case('oracle:traction', (kind, X, str(spec['cij']), str(spec['m']), str(spec['n']), tuple(b)))
            if np.iscomplexobj(tr) or float(np.abs(tr - want).max()) > max(1e-7, 3 * spec['tol']) * float(np.abs(K).max()) * bn / X:
                ctx.violate(f'{kind}:K-traction', f'{kind}: traction on the slip plane at distance {X} ahead of the line is '
                            f'{np.asarray(tr).tolist()}, K.b/(2 pi X) = {want.tolist()}', dict(rep0, X=X))
                break
    # ---- field points ---------------------------------------------------------------------
    for it in range(3):
        r = rng.choice([1.0, 0.03125, 8.0, 50.0, 1.0]) * ls
        th = rng.uniform(-math.pi + 0.05, math.pi - 0.05)
        if it == 0:
            th = rng.choice([0.0, math.pi / 2, -math.pi / 2, 3.0, -3.0, math.pi / 4])
        z = rng.choice([0.0, 1.5, -20.0]) * ls
        X = _frame_point(s, r, th, z)
        rep = dict(rep0, point=X.tolist(), r=r, theta=th)
        X0 = X.copy()
        u, e, sg = s.displacement(X), s.strain(X), s.stress(X)
        if X.shape != (3,) or not np.array_equal(X.reshape(-1)[:3], X0):
            ctx.violate(f'{kind}:input-modified', f'{kind}: evaluating the fields at the single point {X0.tolist()} (a (3,) array) changed the '
                        f'caller\'s array: shape {X.shape}, contents {X.tolist()}', rep)
            X = X0.copy()
            return
        ctx.stats.case('oracle:point', (kind, tuple(X), tuple(b), str(spec['cij'])),
                       sample={'op': 'field clauses', 'solver': kind, 'pos': X.tolist(), 'r': r, 'theta': th})
        if np.iscomplexobj(u) or np.iscomplexobj(e) or np.iscomplexobj(sg) or u.shape != (3,) or e.shape != (3, 3):
            ctx.violate('field:real', f'{kind}: fields at an off-cut point are complex or mis-shaped', rep)
            continue
        es = max(float(np.abs(e).max()), bn / (2 * math.pi * r))
        ss = max(float(np.abs(sg).max()), cmax * es)
        # strain = symmetric gradient of the displacement (4th-order differences, h = r/1000; the stencil stays
        # off the cut because |theta| <= pi - 0.05)
        h = r * 1e-3
        D = _richardson(s.displacement, X, h)                       # D[j][i] = d u_i / d x_j
        G = np.array(D)
        sym = (G + G.T) / 2
        d = float(np.abs(sym - e).max())
        if d > 1e-7 * es:
            ctx.violate(f'{kind}:strain-symgrad', f'{kind}: strain at {X.tolist()} differs from the symmetric gradient of '
                        f'the displacement by {d:.3e} (strain scale {es:.3e}): strain {e.tolist()}, sym grad {sym.tolist()}', rep)
        if float(np.abs(e - e.T).max()) > 1e-13 * es:
            ctx.violate(f'{kind}:strain-symmetric', f'{kind}: strain is not symmetric at {X.tolist()}', rep)
        # stress = C : strain, exactly on the doubles
        sig, mag = _exact_C_strain(C4, e)
        bad = [(i, j) for i in range(3) for j in range(3)
               if abs(float(sg[i][j]) - float(sig[i][j])) > 1e-11 * float(mag[i][j]) + 2.5 * spec['tol'] * ss]
        if bad:
            ctx.violate(f'{kind}:hooke', f'{kind}: stress at {X.tolist()} is not C:strain in components {bad}: '
                        f'stress {sg.tolist()}, C:strain {[[float(v) for v in r_] for r_ in sig]}', rep)
        # divergence-free
        DS = _richardson(s.stress, X, h)                             # DS[j][i][k] = d sigma_ik / d x_j
        div = np.array([sum(DS[j][i][j] for j in range(3)) for i in range(3)])
        if float(np.abs(div).max()) > 1e-6 * ss / r:
            ctx.violate(f'{kind}:divergence', f'{kind}: div(stress) at {X.tolist()} is {div.tolist()} '
                        f'(stress scale/r = {ss / r:.3e})', rep)
        # 1/r
        for t in (2.0, 0.5, 10.0, 0.3):
            Xt = _frame_point(s, r * t, th, z)
            e2, s2 = s.strain(Xt), s.stress(Xt)
            if float(np.abs(e2 * t - e).max()) > 1e-10 * es or float(np.abs(s2 * t - sg).max()) > 1e-10 * ss:
                ctx.violate(f'{kind}:inverse-r', f'{kind}: strain/stress at {t} x distance is not 1/{t} of the value at {X.tolist()}', rep)
                break
        # independent of the coordinate along the line; arrays = single points
        Xz = X + 3.25 * ls * s.ξ
        arr = np.array([X, Xz, X])
        ua, ea, sa = s.displacement(arr), s.strain(arr), s.stress(arr)
        us = bn * (abs(math.log(r / ls)) + abs(math.log(ls)) + 4)
        ea_s, sa_s = es, ss
        if hasattr(s, 'A'):
            # how many points are evaluated together changes the order of the sums: round-off relative to the sum of the |terms|
            # (near-isotropic media: 1e3 .. 1e5 x the result)
            _e, su_, se_, ss_ = _field_scales(s, X0.reshape(1, 3))
            us, ea_s, sa_s = max(us, float(su_[0])), max(es, float(se_[0])), max(ss, float(ss_[0]))
        if ua.shape != (3, 3) or ea.shape != (3, 3, 3) or float(np.abs(ua[0] - u).max()) > 1e-12 * us \
                or float(np.abs(ea[2] - e).max()) > 1e-12 * ea_s or float(np.abs(sa[0] - sg).max()) > 1e-12 * sa_s:
            ctx.violate(f'{kind}:array', f'{kind}: fields of an array of points differ from the single-point values', rep)
        elif float(np.abs(ua[1] - u).max()) > 1e-10 * us or float(np.abs(ea[1] - e).max()) > 1e-10 * ea_s:
            ctx.violate(f'{kind}:line-invariance', f'{kind}: fields change along the dislocation line at {X.tolist()}', rep)
    # ---- Burgers vector: jump across the cut, continuity elsewhere -------------------------------
    for it in range(3):
        r = rng.choice([1.0, 0.25, 30.0]) * ls
        z = rng.choice([0.0, -2.0]) * ls
        dlt = 1e-8
        up, dn = _frame_point(s, r, math.pi - dlt, z), _frame_point(s, r, -math.pi + dlt, z)
        uu = s.displacement(np.array([up, dn]))
        rep = dict(rep0, r=r, above=up.tolist(), below=dn.tolist())
        ctx.stats.case('oracle:burgers-circuit', (kind, r, z, tuple(b), str(spec['cij'])),
                       sample={'op': 'jump across the cut', 'solver': kind, 'r': r, 'jump': np.real(uu[0] - uu[1]).tolist(),
                               'burgers': b.tolist()})
        if np.iscomplexobj(uu):
            ctx.violate(f'{kind}:jump-complex', f'{kind}: displacement next to the cut is complex', rep)
            continue
        jump = uu[0] - uu[1]
        beff = b
        if float(np.abs(jump - beff).max()) > max(1e-6, 3 * spec['tol']) * bn:
            ctx.violate(f'{kind}:burgers-jump', f'{kind}: displacement jump across the cut at distance {r} is {jump.tolist()}, '
                        f'Burgers vector {beff.tolist()}', rep)
        # closed circuit: sum of the increments around the circle, not crossing the cut, equals the same jump;
        # every single increment stays within the Lipschitz bound (continuity elsewhere)
        nseg = 48
        ths = [-math.pi + dlt + k * (2 * math.pi - 2 * dlt) / nseg for k in range(nseg + 1)]
        circ = s.displacement(np.array([_frame_point(s, r, t, z) for t in ths]))
        inc = np.abs(np.diff(np.real(circ), axis=0)).max()
        # exact zeros of the frame coordinates: the y = 0, x > 0 half-plane and the x = 0 plane are not special
        for th0 in (0.0, math.pi / 2, -math.pi / 2, rng.uniform(-3, 3)):
            c0 = math.cos(th0) if abs(th0) != math.pi / 2 else 0.0
            P0 = r * c0 * s.m + r * math.sin(th0) * s.n + z * s.ξ
            e1 = r * 1e-8 * (-math.sin(th0) * s.m + math.cos(th0) * s.n)
            tri = s.displacement(np.array([P0 - e1, P0, P0 + e1]))
            if np.iscomplexobj(tri) or float(np.abs(tri[0] - tri[1]).max()) > 1e-6 * bn or float(np.abs(tri[2] - tri[1]).max()) > 1e-6 * bn:
                ctx.violate(f'{kind}:continuity', f'{kind}: displacement is discontinuous off the cut, at angle {th0} distance {r}: '
                            f'{np.asarray(tri).tolist()}', dict(rep, theta=th0))
                break
        if inc > 2.0 * bn * (2 * math.pi / nseg) * 10:
            ctx.violate(f'{kind}:continuity', f'{kind}: displacement increment {inc:.3e} between neighbouring points of a circuit '
                        f'of radius {r} that does not cross the cut', rep)


# ------------------------------------------------------------------------------------------
# a hair off the half-planes y = 0 (round 7): field points at |y/x| = 2^-k, k = 10 .. 1074, and 10^-k, k = 3 .. 323 (down to
# subnormal y), above and below the cut (x < 0) and above and below the half-plane ahead of the line (x > 0, nothing special
# there).  "continuous elsewhere" evaluated directly: two points on the same side of the cut at the same x differ by no more
# than Lipschitz constant x distance (so a point 1e-17 |x| below the cut has the lower-side value, not the upper-side one),
# upper minus lower value at the same |y| is b (x < 0) / 0 (x > 0) up to the same bound; for the isotropic solver also the
# independent closed form (math.atan2) and the value of theta().
# What is NOT demanded (docs/C12.md, candidate C12-cand-theta-upper-band): the isotropic solver's theta() is arctan(y/x) + pi
# for x < 0, which rounds to pi (and is then wrapped to -pi) for 0 < y < 2^-52 |x|: points within one rounding of the angle
# ABOVE the cut carry the lower-side value on the unchanged tree.  The upper side is decided for |y/x| >= 2^-50 only.
# ------------------------------------------------------------------------------------------
CUT_QS = sorted({2.0 ** -k for k in range(10, 1075)} | {float(f'1e-{k}') for k in range(3, 324)}, reverse=True)
CUT_UPPER_Q = 2.0 ** -50
CUT_ROTATED_Q = 2.0 ** -40      # in a frame that is not axis-aligned pos.n is known to round-off of |pos| only


def _signed_axis_frame(rng):
    """m, n = two different coordinate axes with signs (24 frames), given by name where the API has a name for them"""
    i, j = rng.sample(range(3), 2)
    out = []
    for a in (i, j):
        sg = rng.choice([1.0, 1.0, -1.0])
        out.append('xyz'[a] if sg > 0 and rng.random() < 0.5 else [sg if c == a else 0.0 for c in range(3)])
    return out


def _cut_band_case(ctx, spec, kind, xs, z):
    np = _np()
    rep0 = {'op': 'cutband', 'solver': kind, 'spec': spec, 'xs': list(xs), 'z': z}
    st, s = _outcome_obj(spec, kind)
    if st != 'ok':
        if st != 'err:value':
            ctx.violate(f'{kind}:cutband-raises', f'{kind}: {st}: {s}', rep0)
        return
    if _near_degenerate(s):
        return
    m, n, xi, b = s.m, s.n, s.ξ, s.burgers
    bn = float(np.linalg.norm(b))
    aligned = all(sorted(np.abs(v).tolist()) == [0.0, 0.0, 1.0] for v in (m, n))
    iso = not hasattr(s, 'A')
    qs = [q for q in CUT_QS if aligned or q >= CUT_ROTATED_Q]
    pmin = 1.0 if iso else float(np.abs(np.imag(s.p)).min())
    if not aligned:
        z = 0.0                 # |pos| = |x|: the frame coordinates of the points are known to 2^-52 |x|
    for x in xs:
        ax = abs(x)
        ql = np.array([q for q in qs if ax * q > 0.0])
        ys = ax * ql
        nq = len(ql)
        base = x * m + z * xi
        up, dn = base + np.outer(ys, n), base - np.outer(ys, n)
        ref = ax * (0.6 * m + 0.8 * n) + z * xi
        P = np.concatenate([up, dn, ref.reshape(1, 3)])
        P0 = P.copy()
        rep = dict(rep0, x=x)
        stU, U = _call(s.displacement, P)
        stE, E = _call(s.strain, P[[0, nq]])
        if stU != 'ok' or stE != 'ok':
            ctx.violate(f'{kind}:cutband-raises', f'{kind}: fields at {2 * nq + 1} points next to the half-planes y = 0 (x = {x}): '
                        f'{stU if stU != "ok" else stE}', rep)
            continue
        if not np.array_equal(P, P0):
            ctx.violate(f'{kind}:input-modified', f'{kind}: displacement() changed the caller\'s array of points', rep)
            P = P0.copy()
        # which rows the property decides: see the header (isotropic upper band; products Im(p) y that underflow to zero:
        # candidate C12-cand-stroh-subnormal-y, there the sign of y is lost and the displacement may come out complex)
        ok_dn = ys * pmin >= 2.0 ** -1073
        ok_up = ok_dn & ((ql >= CUT_UPPER_Q) if (iso and x < 0) else np.ones(nq, dtype=bool))
        if not ok_up.any():
            continue
        dec = np.concatenate([ok_up, ok_dn, [True]])
        shape_ok = np.shape(U) == (2 * nq + 1, 3) and np.shape(E) == (2, 3, 3)
        if shape_ok and np.iscomplexobj(U) and not np.abs(np.imag(U[dec])).max() > 0:
            U = np.real(U)          # (an undecided row made the whole array complex; the decided rows are real)
        if not shape_ok or np.iscomplexobj(U) or np.iscomplexobj(E) or not np.isfinite(U[dec]).all():
            bad = [] if not shape_ok else [i for i in np.nonzero(dec)[0] if np.abs(np.imag(U[i])).max() > 0 or not np.isfinite(U[i]).all()]
            ctx.violate(f'{kind}:cut-band-complex', f'{kind}: displacement / strain at points off the line and off the cut is complex, '
                        f'non-finite or mis-shaped (shapes {np.shape(U)}, {np.shape(E)})' +
                        (f', e.g. u({P[bad[0]].tolist()}) = {U[bad[0]].tolist()}' if bad else ''), rep)
            continue
        Uu, Ud, Ur = U[:nq], U[nq:2 * nq], U[2 * nq]
        es = max(float(np.abs(E).max()), bn / (2 * math.pi * ax))
        lip = 20.0 * es * ax                       # bound of |du| per unit of y/|x| near these half-planes
        us = bn * (abs(math.log(ax)) + 4)
        if not iso:
            us = max(us, float(_field_scales(s, P[[0, nq]])[1].max()))
        noise = 1e-12 * us
        ctx.stats.case('oracle:cut-band', (kind, x, z, str(spec['m']), str(spec['n']), tuple(b), str(spec['cij'])),
                       sample={'op': 'points a hair off the half-planes y = 0', 'solver': kind, 'x': x, 'aligned frame': bool(aligned),
                               'ratios |y/x|': [float(ql[0]), float(ql[-1])], 'points': 2 * nq,
                               'decided below / above': [int(ok_dn.sum()), int(ok_up.sum())],
                               'jump at the smallest decided |y|': (Uu[ok_up][-1] - Ud[ok_up][-1]).tolist()})
        where = 'the cut' if x < 0 else 'the half-plane ahead of the line (y = 0, x > 0)'
        found = False
        # ---- same side, same x: continuity ------------------------------------------------------------------------
        for side, V, okv, pts in (('below', Ud, ok_dn, dn), ('above', Uu, ok_up, up)):
            idx = np.nonzero(okv)[0]
            if len(idx) < 2:
                continue
            d = np.abs(np.diff(V[idx], axis=0)).max(axis=1)
            bound = lip * (ql[idx][:-1] - ql[idx][1:]) + noise
            w = np.nonzero(d > bound)[0]
            if len(w):
                i0, i1 = int(idx[w[0]]), int(idx[w[0] + 1])
                ctx.violate(f'{kind}:cut-continuity', f'{kind}: displacement is discontinuous off the cut: two points {side} {where} at '
                            f'the same x = {x}: u({pts[i0].tolist()}) = {V[i0].tolist()} (|y/x| = {ql[i0]:.3e}), '
                            f'u({pts[i1].tolist()}) = {V[i1].tolist()} (|y/x| = {ql[i1]:.3e}); difference '
                            f'{(V[i1] - V[i0]).tolist()}, bound {bound[w[0]]:.3e}, Burgers vector {b.tolist()} '
                            f'(m = {m.tolist()}, n = {n.tolist()})', dict(rep, point=pts[i1].tolist(), neighbour=pts[i0].tolist()))
                found = True
                break
        # ---- across: upper - lower = b on the cut, 0 ahead of the line ---------------------------------------------
        both = np.nonzero(ok_dn & ok_up)[0]
        if len(both) and not found:
            want = b if x < 0 else np.zeros(3)
            d = np.abs(Uu[both] - Ud[both] - want).max(axis=1)
            bound = 2 * lip * ql[both] + noise + (3 * spec['tol'] * bn if x < 0 else 0.0)
            w = np.nonzero(d > bound)[0]
            if len(w):
                i0 = int(both[w[0]])
                ctx.violate(f'{kind}:cut-jump', f'{kind}: displacement above minus below {where} at x = {x}, |y/x| = {ql[i0]:.3e}: '
                            f'u({up[i0].tolist()}) - u({dn[i0].tolist()}) = {(Uu[i0] - Ud[i0]).tolist()}, expected {want.tolist()} '
                            f'(bound {bound[w[0]]:.3e}; m = {m.tolist()}, n = {n.tolist()})', dict(rep, point=up[i0].tolist()))
                found = True
        # ---- isotropic solver: the independent closed form (atan2), theta() ------------------------------------------
        if iso and not found:
            T = np.array([m, n, xi])
            be, bn_, bs = (float(v) for v in T.dot(b))
            mu_, nu_ = float(s.mu), float(s.nu)
            o_ref = iso_full_oracle(mu_, nu_, be, bn_, bs, 0.6 * ax, 0.8 * ax)[0]
            stT, TH = _call(s.theta, P)
            for side, V, okv, pts, sg in (('below', Ud, ok_dn, dn, -1.0), ('above', Uu, ok_up, up, 1.0)):
                idx = np.nonzero(okv)[0]
                # every 8th ratio, every ratio around the rounding of the angle, the last ones
                idx = [int(i) for i in idx if i % 8 == 0 or 2.0 ** -60 <= ql[i] <= 2.0 ** -44 or i >= nq - 4]
                for i in idx:
                    y = sg * float(ys[i])
                    o = T.T.dot(iso_full_oracle(mu_, nu_, be, bn_, bs, x, y)[0] - o_ref)
                    g = V[i] - Ur
                    if float(np.abs(g - o).max()) > 1e-11 * us + 3 * spec['tol'] * bn:
                        ctx.violate(f'{kind}:cut-closed-form', f'{kind}: displacement at {pts[i].tolist()} ({side} {where}, '
                                    f'|y/x| = {ql[i]:.3e}) minus displacement at {ref.tolist()} is {g.tolist()}, the closed form '
                                    f'(Hirth & Lothe, atan2) gives {o.tolist()}: off by {(g - o).tolist()}, Burgers vector '
                                    f'{b.tolist()} (m = {m.tolist()}, n = {n.tolist()})', dict(rep, point=pts[i].tolist()))
                        found = True
                        break
                    if stT == 'ok' and np.shape(TH) == (2 * nq + 1,):
                        th = float(TH[i if sg > 0 else nq + i])
                        if abs(th - math.atan2(y, x)) > (1e-15 if aligned else 1e-14):
                            ctx.violate(f'{kind}:cut-theta', f'{kind}: theta({pts[i].tolist()}) = {th!r}, the angle of the point about the '
                                        f'line from m towards n is {math.atan2(y, x)!r} ({side} {where}, |y/x| = {ql[i]:.3e})',
                                        dict(rep, point=pts[i].tolist()))
                            found = True
                            break
                if found:
                    break
            if stT != 'ok' or np.shape(TH) != (2 * nq + 1,):
                ctx.violate(f'{kind}:cut-theta', f'{kind}: theta() of {2 * nq + 1} points: {stT}, shape {np.shape(TH)}', rep)
        # ---- single points (array, list) = rows of the array ----------------------------------------------------------
        pick = [int(np.nonzero(ok_up)[0][-1]), nq + int(np.nonzero(ok_dn)[0][-1]), nq + int(np.argmin(np.abs(ql - 2.0 ** -53))),
                nq + int(np.argmin(np.abs(ql - 1e-17))), 0]
        for i in pick:
            if not dec[i]:
                continue
            for form in (P[i].copy(), [float(v) for v in P[i]]):
                st1, u1 = _call(s.displacement, form)
                if st1 != 'ok' or np.shape(u1) != (3,) or np.iscomplexobj(u1) or float(np.abs(u1 - U[i]).max()) > noise:
                    ctx.violate(f'{kind}:cut-single', f'{kind}: displacement at the single point {P[i].tolist()} (a {type(form).__name__}) is '
                                f'{st1 if st1 != "ok" else np.asarray(u1).tolist()}, as a row of an array of {len(P)} points '
                                f'{U[i].tolist()}', dict(rep, point=P[i].tolist()))
                    found = True
                    break
            if found:
                break


def _cut_band(ctx, spec, rng, kind):
    """the problem as drawn (its frame may be rotated: ratios down to 2^-40) and in two signed-axis frames (all ratios)"""
    ls = spec.get('lscale', 1.0)
    for j in range(3):
        sp = dict(spec)
        if j:
            sp['m'], sp['n'] = _signed_axis_frame(rng)
            if sp.get('cart_axes'):
                sp['cart_axes'] = False
        r = rng.choice([1.0, 3.5, 40.0, 1e-3, 2.0 ** -20, 2.0 ** rng.randint(-30, 30), rng.uniform(0.1, 10.0)]) * ls
        z = rng.choice([0.0, 0.0, 1.5, -20.0]) * ls
        _cut_band_case(ctx, sp, kind, [-r, r], z)


def _near_degenerate(s):
    """nearly defective sextic eigenproblem (e.g. a hexagonal medium with the line a few mrad off the six-fold axis): the
    eigenvector matrix is ill-conditioned, whether the eigen-solver's output passes the solver's self-checks is luck and
    round-off is amplified by the condition number — outside the property ("away from exact eigenvalue degeneracy")."""
    np = _np()
    if not hasattr(s, 'A'):
        return False
    return float(np.linalg.cond(np.hstack([s.A, s.L / float(np.abs(s.C.Cijkl).max())]).T)) > 1e4


def _sensitivity(s):
    """how much a rounding-level (1e-16) change of the rotated stiffness may change K and the fields: the eigenvectors of close
    eigenvalue pairs move by 1e-16 x cond(V)^2 (observed: 2e-11 at cond 250); 1e-11 for the closed-form isotropic solver."""
    np = _np()
    if not hasattr(s, 'A'):
        return 1e-11
    c = float(np.linalg.cond(np.hstack([s.A, s.L / float(np.abs(s.C.Cijkl).max())]).T))
    return min(1e-6, max(1e-11, 1e-14 * c * c))


def _rot_float(R):
    np = _np()
    return np.array([[float(v) for v in r] for r in R])


def _covariance(ctx, spec, rng, kind):
    """rotate the whole problem (solver frame: m, n, the orientation transform) by an exact rational rotation."""
    np = _np()
    R = _rot_float(quat_rot(rng.choice(QUATS[1:])))
    specB = dict(spec)
    m, n = mn_vectors(spec)
    specB['m'], specB['n'] = [float(v) for v in R.dot(m)], [float(v) for v in R.dot(n)]
    if isinstance(spec['burgers'], str):
        specB['burgers'] = resolve_burgers(spec)        # the same crystal-frame Burgers vector
    if spec['route'] in ('default', 'transform', 'axes'):
        T0 = np.eye(3) if spec['transform'] is None else np.array(spec['transform'], dtype=float)
        T0 = (T0.T / np.linalg.norm(T0, axis=1)).T
        specB['route'] = 'transform'
        specB['transform'] = R.dot(T0).tolist()
    rep = {'op': 'covariance', 'solver': kind, 'spec': spec, 'rotated': specB, 'R': R.tolist()}
    try:
        A, B = build(spec, kind), build(specB, kind)
    except Exception as e:  # noqa
        ctx.violate(f'{kind}:covariance-raises', f'{kind}: the rotated problem is refused: {type(e).__name__}: {e}', rep)
        return
    tol = max(5e-7, 4 * spec['tol'])        # clean-up of near-zero entries happens in one frame, not in the other
    ctx.stats.case('oracle:covariance', (kind, str(spec['cij']), str(specB['m']), str(specB['n']), str(specB['transform'])),
                   sample={'op': 'covariance', 'solver': kind, 'R': R.tolist(), **_spec_sample(spec)})
    bn = float(np.linalg.norm(A.burgers))
    kmax = float(np.abs(A.K_tensor).max())
    bad = []
    if float(np.abs(B.transform - R.dot(A.transform)).max()) > 1e-12:
        bad.append('transform')
    if float(np.abs(B.burgers - R.dot(A.burgers)).max()) > tol * bn:
        bad.append('burgers')
    CA = np.einsum('ig,jh,km,ln,ghmn->ijkl', R, R, R, R, A.C.Cijkl)
    if float(np.abs(B.C.Cijkl - CA).max()) > tol * float(np.abs(CA).max()):
        bad.append('C')
    if float(np.abs(B.K_tensor - R.dot(A.K_tensor).dot(R.T)).max()) > tol * kmax:
        bad.append('K_tensor')
    if abs(B.K_coeff - A.K_coeff) > tol * kmax or abs(B.preln - A.preln) > tol * kmax * bn * bn:
        bad.append('K_coeff/preln')
    # compared through sine and cosine: near 0 / 180 degrees the angle itself moves like the square root of a component
    # that the round-off clean-up (relative size <= tol) removes in one frame only
    ca, cb = math.radians(A.characterangle()), math.radians(B.characterangle())
    if max(abs(math.cos(ca) - math.cos(cb)), abs(math.sin(ca) - math.sin(cb))) > max(2e-8, 4 * spec['tol']):
        bad.append('characterangle')
    for it in range(3):
        r = rng.choice([1.0, 0.125, 12.0]) * spec.get('lscale', 1.0)
        th = rng.uniform(-3.0, 3.0)
        X = _frame_point(A, r, th, rng.choice([0.0, 2.0]) * spec.get('lscale', 1.0))
        Y = R.dot(X)
        es = bn / r
        ss = es * float(np.abs(A.C.Cijkl).max())
        if float(np.abs(B.displacement(Y) - R.dot(A.displacement(X))).max()) > tol * bn * (abs(math.log(r)) + 4):
            bad.append(f'displacement at {X.tolist()}')
        if float(np.abs(B.strain(Y) - R.dot(A.strain(X)).dot(R.T)).max()) > tol * es * 10:
            bad.append(f'strain at {X.tolist()}')
        if float(np.abs(B.stress(Y) - R.dot(A.stress(X)).dot(R.T)).max()) > tol * ss * 10:
            bad.append(f'stress at {X.tolist()}')
    if bad:
        ctx.violate(f'{kind}:covariance', f'{kind}: rotating the whole problem by R={R.tolist()} does not rotate: {bad[:4]} '
                    f'({spec["cls"]}, route {spec["route"]}, m={spec["m"]}, n={spec["n"]})', rep)


def _refusal_oracle(ctx, spec):
    """exact decision (rational arithmetic) of what __mn_check has to do with array-valued axes, clear cases only."""
    tol = F(spec['tol'])
    m, n = mn_vectors(spec)
    mq, nq = [F(float(v)) for v in m], [F(float(v)) for v in n]
    verdicts = []
    for v in (mq, nq):
        n2 = sum(c * c for c in v)
        if not ((1 - tol / 2) ** 2 <= n2 <= (1 + tol / 2) ** 2):
            verdicts.append('refuse' if not ((1 - 2 * tol) ** 2 <= n2 <= (1 + 2 * tol) ** 2) else 'unclear')
        else:
            verdicts.append('accept')
    d = abs(sum(a * b for a, b in zip(mq, nq)))
    verdicts.append('accept' if d <= tol / 2 else ('refuse' if d >= 2 * tol else 'unclear'))
    if spec['cart_axes']:
        for v in (mq, nq):
            k = sum(1 for c in v if abs(c - 1) <= tol)
            verdicts.append('accept' if k == 1 else 'refuse')
    if 'unclear' in verdicts:
        return None
    return 'refuse' if 'refuse' in verdicts else 'accept'


def _search_refusals(ctx, rng, k):
    for spec in gen_refusals(rng, k):
        if spec['malformed'].startswith('axes'):
            # rows (1, e, 0), (0, 1, 0): the unit rows have dot product e / sqrt(1 + e^2), tolerance 1e-8
            want = 'accept' if spec.get('skew', 1.0) <= 2e-9 else 'refuse-value'
        else:
            want = _refusal_oracle(ctx, spec)
        if want is None:
            continue
        got = {w: _outcome(spec, w) for w in ('stroh', 'auto')}
        # the stand-alone utility has the same contract (its unit/perpendicular tests carry numpy's default rtol 1e-5,
        # so only deviations of 1e-3 and more are demanded to be refused)
        big = abs(spec.get('factor', 1.0) - 1.0) >= 1e-3 or abs(spec.get('angle', 0.0)) >= 1e-3
        if spec['malformed'] in ('m-norm', 'n-norm', 'angle') and (want == 'accept' or big):
            import atomman as am
            mm_, nn_ = mn_vectors(spec)
            try:
                am.defect.dislocation_system_transform([1, -1, 0], [1, 1, 1], m=mm_, n=nn_, tol=spec['tol'])
                got['dislocation_system_transform'] = 'ok'
            except AssertionError:
                got['dislocation_system_transform'] = 'err:assert'
            except Exception as e:  # noqa
                got['dislocation_system_transform'] = f'raised {type(e).__name__}: {e}'
        ctx.stats.case('oracle:refusal', (spec['malformed'], str(spec['m']), str(spec['n']), str(spec['transform'])),
                       sample={'op': 'malformed orientation (exact oracle)', 'kind': spec['malformed'], 'expected': want, 'got': got})
        rep = {'op': 'refusal', 'spec': spec, 'expected': want}
        for w, g in got.items():
            if want == 'accept' and g != 'ok':
                ctx.violate('refusal:valid-refused', f'{w}: valid axes m={spec["m"]}, n={spec["n"]} (cart_axes={spec["cart_axes"]}) '
                            f'are refused: {g}', rep)
            elif want == 'refuse' and g != 'err:assert':
                ctx.violate('refusal:' + spec['malformed'], f'{w}: axes m={spec["m"]}, n={spec["n"]} (cart_axes={spec["cart_axes"]}; '
                            f'{spec["malformed"]}) must be refused with an AssertionError, got: {g}', rep)
            elif want == 'refuse-value' and g != 'err:value':
                ctx.violate('refusal:' + spec['malformed'], f'{w}: transform {spec["transform"]} ({spec["malformed"]}) must be '
                            f'refused with a ValueError, got: {g}', rep)


def _outcome_obj(spec, which):
    """('ok', solver) | ('err:value' | 'err:assert' | 'raised X', message)"""
    try:
        return 'ok', build(spec, which)
    except AssertionError as e:
        return 'err:assert', str(e)
    except ValueError as e:
        return 'err:value', str(e)
    except Exception as e:  # noqa
        return f'raised {type(e).__name__}', str(e)


def _jump(s, r, z=0.0, dlt=1e-8):
    np = _np()
    uu = s.displacement(np.array([_frame_point(s, r, math.pi - dlt, z), _frame_point(s, r, -math.pi + dlt, z)]))
    return uu[0] - uu[1]


SWEEP_PTS = [(1.0, 0.7, 0.0), (0.2, -2.0, 1.5), (9.0, 2.9, 0.0), (3.0, -0.4, -20.0)]
LIMIT_C, LIMIT_FLOOR = 3.0, 1e-7     # |solution(eps) - isotropic closed form| <= LIMIT_C eps + LIMIT_FLOOR (observed <= 0.3 eps)


def _dispatch_sweep(ctx, sw, rng, clauses=True):
    """solve_volterra_dislocation over the whole anisotropy range C(eps) = C_iso + eps mu D, eps = 0 .. 0.1, for one
    orientation and one Burgers vector with prescribed components along m, n, ξ:
      * what is accepted / refused (Stroh alone, the isotropic solver alone, the dispatcher) against the regime oracle:
        exactly isotropic + in-plane b -> isotropic solver; out-of-plane b is never given the closed form that cannot
        carry it; eps >= 1e-5 in a non-degenerate orientation -> Stroh; whatever one of the solvers solves the
        dispatcher solves, with that solver's fields;
      * whatever the dispatcher returns: displacement jump across the cut = its Burgers vector;
      * the returned solution is within LIMIT_C eps + LIMIT_FLOOR of the complete closed-form isotropic solution for the
        *whole* Burgers vector (independent oracle iso_full_oracle), and changes by no more than that between
        neighbouring eps: the anisotropic solution approaches the isotropic one as the anisotropy vanishes."""
    import atomman as am
    np = _np()
    tol = sw['tol']
    be, bn_, bs = sw['bframe']
    m, n = mn_vectors(sw)
    xi = np.cross(m, n)
    blab = be * m + bn_ * n + bs * xi
    bmax, bnorm = float(np.abs(blab).max()), float(np.linalg.norm(blab))
    inplane = 'yes' if abs(bn_) <= 0.5 * tol * bmax else ('no' if abs(bn_) >= 2 * tol * bmax else 'unclear')
    mu = sw['mu'] * sw['scale']
    nu = sw['lam'] / (2 * (sw['lam'] + sw['mu']))
    T = np.array([m, n, xi])
    ls = sw.get('lscale', 1.0)
    fpts = [(r * ls, t, z * ls) for r, t, z in SWEEP_PTS + [(rng.choice([0.05, 1.0, 40.0]), rng.uniform(-3.0, 3.0), rng.uniform(-3, 3))]]
    P = np.array([r * math.cos(t) * m + r * math.sin(t) * n + z * xi for r, t, z in fpts])
    rr = np.array([r for r, _, _ in fpts])
    orc = [iso_full_oracle(mu, nu, be, bn_, bs, r * math.cos(t), r * math.sin(t)) for r, t, _ in fpts]
    Uo = np.array([T.T.dot(o[0]) for o in orc])
    Eo = np.array([T.T.dot(o[1]).dot(T) for o in orc])
    So = np.array([T.T.dot(o[2]).dot(T) for o in orc])
    Ko = T.T.dot(np.diag([mu / (1 - nu), mu / (1 - nu), mu])).dot(T)
    degenerate = _outcome_obj(sweep_spec(sw, EPS_SWEEP[-1]), 'stroh')[0] != 'ok'
    label = (f'{sw["dcls"]}-shaped anisotropy, route {sw["route"]}, m={sw["m"]}, n={sw["n"]}, b along (m, n, ξ) = '
             f'{sw["bframe"]}')
    prev = None
    classes = {}
    eps_clause = rng.choice([1e-5, 3e-5, 1e-4])
    for eps in EPS_SWEEP:
        spec = sweep_spec(sw, eps)
        rep = {'op': 'dispatch', 'sweep': sw, 'eps': eps}
        (oS, S), (oI, I), (oA, A) = (_outcome_obj(spec, w) for w in ('stroh', 'iso', 'auto'))
        got = {'stroh': oS, 'iso': oI, 'auto': oA if oA != 'ok' else type(A).__name__}
        classes[str(eps)] = got['auto']
        ctx.stats.case('oracle:dispatch', (eps, str(sw['dir']), sw['lam'], sw['mu'], str(sw['bframe']), str(sw['m']), str(sw['n']),
                                           str(sw['transform']), str(sw['xi_uvw']), str(sw['slip_hkl'])),
                       nontrivial=not degenerate,
                       sample={'op': 'solve_volterra_dislocation', 'eps': eps, 'anisotropy': sw['dcls'], 'b_frame': sw['bframe'],
                               'route': sw['route'], 'outcomes': got})
        bad = [f'{w}: {o} {x}' for w, o, x in (('Stroh', oS, S), ('IsotropicVolterraDislocation', oI, I),
                                               ('solve_volterra_dislocation', oA, A)) if o not in ('ok', 'err:value')]
        if bad:
            ctx.violate('dispatch:raises', f'anisotropy {eps} ({label}): {bad}', rep)
            continue
        # ---- the dispatcher solves what one of the solvers solves, with that solver's fields ----------------------
        ref = None
        if oS == 'ok':
            ref = S
            if oA != 'ok':
                ctx.violate('dispatch:refused-solvable', f'solve_volterra_dislocation refuses a problem that Stroh solves '
                            f'(anisotropy {eps}; {label}): {A}', rep)
            elif type(A) is not am.defect.Stroh:
                ctx.violate('dispatch:not-stroh', f'solve_volterra_dislocation returns {type(A).__name__} for anisotropic '
                            f'constants (anisotropy {eps}) that Stroh solves ({label})', rep)
        elif oI == 'ok':
            ref = I
            if oA != 'ok' or type(A) is not am.defect.IsotropicVolterraDislocation:
                ctx.violate('dispatch:fallback', f'Stroh refuses, the isotropic solver accepts, solve_volterra_dislocation gives '
                            f'{got["auto"]} (anisotropy {eps}; {label})', rep)
        elif oA == 'ok':
            ctx.violate('dispatch:accepts-refused', f'both solvers refuse, solve_volterra_dislocation returns {got["auto"]} '
                        f'(anisotropy {eps}; {label})', rep)
        # ---- regime oracle ---------------------------------------------------------------------------------------
        if oI == 'ok' and inplane == 'no':
            ctx.violate('iso:out-of-plane-accepted', f'IsotropicVolterraDislocation accepts a Burgers vector with component '
                        f'{bn_} along n (b = {I.burgers.tolist()}, n = {I.n.tolist()}) that its closed form cannot carry '
                        f'(anisotropy {eps})', rep)
        if eps == 0.0 and inplane == 'yes' and (oI != 'ok' or oA != 'ok' or type(A) is not am.defect.IsotropicVolterraDislocation):
            ctx.violate('dispatch:isotropic', f'isotropic constants, Burgers vector in the slip plane ({label}): isotropic solver '
                        f'{oI} {I if oI != "ok" else ""}, dispatcher {got["auto"]}', rep)
        if oI == 'ok':
            # the isotropic solver works with normalised constants: they must be the given medium (its own acceptance
            # test is a relative 1e-4 per entry)
            cin = np.array(spec['cij'], dtype=float)
            dev = float(np.abs(I.C.Cij - cin).max()) / float(np.abs(cin).max())
            if dev > 2e-4:
                ctx.violate('iso:accepts-anisotropic', f'IsotropicVolterraDislocation accepts constants with anisotropy {eps} '
                            f'({sw["dcls"]}-shaped) and solves for a medium that differs from the given one by {dev:.2e} '
                            f'(relative): given {cin.tolist()}, used {I.C.Cij.tolist()}', rep)
        # (from which eps on Stroh succeeds depends on the orientation: the isotropic N is defective and in symmetric
        #  orientations the eigenvalue splitting grows slower than eps; near-degeneracy is outside the property, so
        #  nothing is demanded here — the outcomes are recorded in the evidence)
        if oA != 'ok':
            prev = None
            continue
        # ---- fields of what the dispatcher returned -----------------------------------------------------------------
        U, E, Sg, K = A.displacement(P), A.strain(P), A.stress(P), A.K_tensor
        if any(np.iscomplexobj(a) for a in (U, E, Sg, K)) or not all(np.isfinite(a).all() for a in (U, E, Sg, K)):
            ctx.violate('dispatch:complex', f'{got["auto"]} from solve_volterra_dislocation has complex or non-finite fields '
                        f'(anisotropy {eps}; {label})', rep)
            prev = None
            continue
        if ref is not None and type(ref) is type(A):
            d = max(float(np.abs(U - ref.displacement(P)).max()) / bnorm, float((np.abs(E - ref.strain(P)).reshape(len(P), -1).max(axis=1) * rr).max()) / bnorm,
                    float(np.abs(K - ref.K_tensor).max()) / mu, float(np.abs(A.burgers - ref.burgers).max()) / bnorm,
                    float(np.abs(A.transform - ref.transform).max()))
            if d > 1e-9:
                ctx.violate('dispatch:differs', f'solve_volterra_dislocation and {type(ref).__name__} called with the same '
                            f'arguments give different solutions (relative difference {d:.3e}; anisotropy {eps}; {label})', rep)
        if float(np.abs(T.dot(A.burgers) - np.array([be, bn_, bs])).max()) > 3 * tol * bmax + 1e-12 * bnorm:
            ctx.violate('dispatch:burgers', f'stored Burgers vector has components {T.dot(A.burgers).tolist()} along m, n, ξ, '
                        f'requested {sw["bframe"]}', rep)
        for r in (1.0 * ls, 0.25 * ls):
            jmp = _jump(A, r, z=rng.choice([0.0, -2.0]) * ls)
            ctx.stats.case('oracle:dispatch-jump', (eps, r, str(sw['dir']), str(sw['bframe']), str(sw['m']), str(sw['n']), str(sw['transform'])))
            if np.iscomplexobj(jmp) or float(np.abs(jmp - A.burgers).max()) > max(1e-6, 3 * tol) * bnorm:
                ctx.violate('dispatch:burgers-jump', f'{got["auto"]} returned by solve_volterra_dislocation at anisotropy {eps}: '
                            f'displacement jump across the cut at distance {r} is {np.asarray(jmp).tolist()}, Burgers vector '
                            f'{A.burgers.tolist()} ({label})', dict(rep, r=r))
                break
        dU = U - Uo
        du = float(np.abs(dU - dU[0]).max()) / bnorm             # the closed forms differ by a rigid translation
        de = float((np.abs(E - Eo).reshape(len(P), -1).max(axis=1) * rr).max()) / bnorm
        ds = float((np.abs(Sg - So).reshape(len(P), -1).max(axis=1) * rr).max()) / (bnorm * mu) / 4
        dk = float(np.abs(K - Ko).max()) / float(np.abs(Ko).max())
        cur = {'displacement': du, 'strain*r': de, 'stress*r/4mu': ds, 'K': dk}
        bound = LIMIT_C * eps + max(LIMIT_FLOOR, 5 * tol)      # components below tol max|b| are cleaned away / not carried
        ctx.stats.case('oracle:iso-limit', (eps, str(sw['dir']), sw['lam'], sw['mu'], str(sw['bframe']), str(sw['m']), str(sw['n']), str(sw['transform'])),
                       sample={'op': 'anisotropy -> 0', 'eps': eps, 'solver': got['auto'], 'b_frame': sw['bframe'],
                               'relative difference to the complete isotropic closed form': cur})
        if eps > 0:
            _track(ctx, 'iso-limit / eps', max(cur.values()) / bound)
        if max(cur.values()) > bound:
            ctx.violate('iso-limit', f'{got["auto"]} returned at anisotropy {eps} differs from the closed-form isotropic solution for '
                        f'the same Burgers vector by {cur} (relative; bound {bound:.1e}) ({label})', rep)
        elif prev is not None:
            pe, pU, pE, pK = prev
            dd = max(float(np.abs((U - pU) - (U - pU)[0]).max()) / bnorm,
                     float((np.abs(E - pE).reshape(len(P), -1).max(axis=1) * rr).max()) / bnorm, float(np.abs(K - pK).max()) / mu)
            if dd > 2 * bound:
                ctx.violate('iso-limit:continuity', f'the solution changes by {dd:.3e} (relative) between anisotropy {pe} and {eps} '
                            f'({label})', dict(rep, eps_prev=pe))
        prev = (eps, U, E, K)
        if clauses and (eps == eps_clause or eps == 0.0):
            _clauses(ctx, spec, A, rng, 'auto')
    ctx.extra.setdefault('dispatch_classes', []).append({'anisotropy': sw['dcls'], 'b_frame': sw['bframe'], 'returned': classes})
    if len(ctx.extra['dispatch_classes']) > 12:
        ctx.extra['dispatch_classes'].pop()


def _observables(s, P):
    np = _np()
    out = {'burgers': s.burgers, 'transform': s.transform, 'm': s.m, 'n': s.n, 'xi': s.ξ, 'Cij': s.C.Cij, 'K_tensor': s.K_tensor,
           'K_coeff': np.array(s.K_coeff), 'preln': np.array(s.preln), 'characterangle': np.array(s.characterangle()),
           'displacement': s.displacement(P), 'strain': s.strain(P), 'stress': s.stress(P)}
    for nm in ('p', 'A', 'L', 'k', 'mu', 'nu', 'tol'):
        if hasattr(s, nm):
            out[nm] = np.asarray(getattr(s, nm))
    return out


# ------------------------------------------------------------------------------------------
# cross-cutting classes: forms of the field points, length / stiffness scales, one position array edited in place
# between calls, aliasing of the constructor's arguments, forms of the constructor's arguments
# ------------------------------------------------------------------------------------------
FIELDS = ('displacement', 'strain', 'stress')


def _call(f, *a, **k):
    """an exception raised by the implementation is an observation: ('ok', value) | ('raised X: msg', None)"""
    try:
        return 'ok', f(*a, **k)
    except Exception as e:  # noqa
        return f'raised {type(e).__name__}: {e}', None


def _rel(a, b, floor=0.0):
    """max |a - b| / max(max |b|, floor); inf for shape mismatch or non-finite values."""
    np = _np()
    a, b = np.asarray(a), np.asarray(b)
    if a.shape != b.shape or not (np.isfinite(a).all() and np.isfinite(b).all()):
        return float('inf')
    if a.size == 0:
        return 0.0
    sc = max(float(np.abs(b).max()), floor)
    return float(np.abs(a - b).max()) / sc if sc > 0 else float(np.abs(a - b).max())


def _int_points(rng, s, k):
    """points with small integer lab coordinates (exact in every numeric type), off the line and off the cut."""
    np = _np()
    pts = []
    for _ in range(400):
        if len(pts) == k:
            break
        v = np.array([rng.randint(-9, 9) for _ in range(3)], dtype=float)
        x, y = float(v.dot(s.m)), float(v.dot(s.n))
        if x * x + y * y < 0.5 or abs(abs(math.atan2(y, x)) - math.pi) < 0.05:
            continue
        pts.append(v)
    return np.array(pts)


def _point_forms(P):
    """the same (n, 3) integer-valued points in every form a caller may hand over: [(name, value, order)]"""
    np = _np()
    n = len(P)
    Pi = P.astype(np.int64)
    big = np.full((2 * n, 6), 77.0)
    big[::2, 1:4] = P
    ro = P.copy()
    ro.setflags(write=False)
    sc = [int, float, np.float32, np.int64, np.int32, np.float64, np.int16]
    mixed = [[sc[(3 * i + j) % len(sc)](P[i, j]) for j in range(3)] for i in range(n)]
    fwd = list(range(n))
    forms = [('float64', P.copy(), fwd), ('int64', Pi, fwd), ('int32', Pi.astype(np.int32), fwd), ('int8', Pi.astype(np.int8), fwd),
             ('float32', P.astype(np.float32), fwd), ('float16', P.astype(np.float16), fwd),
             ('list of int lists', Pi.tolist(), fwd), ('tuple of int tuples', tuple(tuple(r) for r in Pi.tolist()), fwd),
             ('list of float lists', P.tolist(), fwd), ('tuple of float tuples', tuple(tuple(r) for r in P.tolist()), fwd),
             ('list of mixed python/numpy scalars', mixed, fwd), ('list of row arrays', [r.copy() for r in Pi], fwd),
             ('Fortran order', np.asfortranarray(P), fwd), ('strided view', big[::2, 1:4], fwd), ('read-only', ro, fwd),
             ('reversed view', P[::-1], fwd[::-1]), ('int Fortran', np.asfortranarray(Pi), fwd)]
    return forms


def _single_forms(p):
    np = _np()
    pi = [int(v) for v in p]
    return [('(3,) float array', np.array(p, dtype=float)), ('(3,) int array', np.array(pi)), ('int list', pi), ('int tuple', tuple(pi)),
            ('float list', [float(v) for v in p]), ('(3,) float32', np.array(p, dtype=np.float32)),
            ('(1,3) int nested list', [pi]), ('(1,3) int array', np.array([pi])), ('(1,3) float array', np.array([p], dtype=float))]


def _input_forms(ctx, spec, s, rng, kind):
    """field points given as int / float32 / float16 arrays, nested lists and tuples of python ints / floats / numpy
    scalars, Fortran-ordered, strided, read-only and reversed views, single points in every form, no points at all:
    every field of the solver must be the float64 field of the float64 points (and satisfy Hooke's law exactly)."""
    np = _np()
    P = _int_points(rng, s, rng.choice([2, 3, 5]))
    if len(P) < 2:
        return
    rep0 = {'op': 'forms', 'solver': kind, 'spec': spec, 'points': P.tolist()}
    C4 = s.C.Cijkl
    ref = {}
    for f in FIELDS:
        st, v = _call(getattr(s, f), P.copy())
        if st != 'ok' or np.iscomplexobj(v):
            ctx.violate(f'{kind}:forms-raises', f'{kind}.{f} at the float64 points {P.tolist()}: {st if st != "ok" else "complex result"}', rep0)
            return
        ref[f] = v
    extra = ('eta',) if kind == 'stroh' or hasattr(s, 'eta') else (('theta',) if hasattr(s, 'theta') else ())
    for f in extra:
        ref[f] = getattr(s, f)(P.copy())
    want_shape = {'displacement': (3,), 'strain': (3, 3), 'stress': (3, 3), 'eta': (6,), 'theta': ()}
    # round-off of a sum depends on how many points are evaluated together: relative to the magnitudes that are summed
    floor = {'displacement': float(np.linalg.norm(s.burgers)), 'strain': 0.0, 'eta': 0.0, 'theta': 1.0,
             'stress': float(np.abs(C4).max()) * float(np.abs(ref['strain']).max())}
    if hasattr(s, 'A'):
        _eta, su, se, ss = _field_scales(s, P.copy())       # sums of the |terms| the anisotropic formulas add up
        floor.update(displacement=max(floor['displacement'], float(su.max())), strain=float(se.max()), stress=float(ss.max()))
    for name, val, order in _point_forms(P):
        snap = np.array(val, dtype=float).tobytes() if not isinstance(val, (list, tuple)) else repr(val)
        got = {}
        rep = dict(rep0, form=name)
        for f in FIELDS + extra:
            ctx.stats.case('oracle:point-form', (kind, name, f, P.tobytes(), str(spec['cij']), str(spec['m']), str(spec['n'])),
                           sample={'op': 'form of the field points', 'solver': kind, 'form': name, 'field': f})
            st, v = _call(getattr(s, f), val)
            if st != 'ok':
                ctx.violate(f'{kind}:forms-raises', f'{kind}.{f}(points as {name}) {st}; points {P.tolist()}', rep)
                continue
            v = np.asarray(v)
            if v.shape != (len(P),) + want_shape[f]:
                ctx.violate(f'{kind}:forms-shape', f'{kind}.{f}(points as {name}) has shape {v.shape} for {len(P)} points', rep)
                continue
            got[f] = v
            if v.dtype != (np.complex128 if f == 'eta' else np.float64):
                ctx.violate(f'{kind}:forms-dtype', f'{kind}.{f}(points as {name}) has dtype {v.dtype}: the field of integer / single-'
                            f'precision points is still a double-precision field; points {P.tolist()}', rep)
                continue
            d = _rel(v[np.argsort(order)] if order != sorted(order) else v, ref[f], floor[f])
            if d > 1e-12:
                ctx.violate(f'{kind}:forms-value', f'{kind}.{f} of the points {P.tolist()} given as {name} differs from the field of the '
                            f'same points given as a float64 array by {d:.3e} (relative): {v.tolist()} vs {ref[f].tolist()}', rep)
            if not isinstance(val, (list, tuple)) and np.shares_memory(v, val):
                ctx.violate(f'{kind}:aliased-output', f'{kind}.{f}(points as {name}) returns an array that shares memory with the points', rep)
        now = np.array(val, dtype=float).tobytes() if not isinstance(val, (list, tuple)) else repr(val)
        if now != snap:
            ctx.violate(f'{kind}:input-modified', f'{kind}: evaluating the fields modified the points handed over as {name}', rep)
        # the property's clause itself on what came back for this form: stress = C : strain, exactly on the doubles
        if 'strain' in got and 'stress' in got and got['strain'].dtype.kind == 'f' and got['stress'].dtype.kind == 'f':
            for i in range(len(P)):
                e, sg = got['strain'][i], got['stress'][i]
                sig, mag = _exact_C_strain(C4, e)
                ss = max(float(np.abs(ref['stress'][order[i]]).max()), 1e-300)
                bad = [(a, b_) for a in range(3) for b_ in range(3)
                       if abs(float(sg[a][b_]) - float(sig[a][b_])) > 1e-11 * float(mag[a][b_]) + 2.5 * spec['tol'] * ss]
                if bad:
                    ctx.violate(f'{kind}:hooke', f'{kind}: points given as {name}: stress at {P[order[i]].tolist()} is not C:strain in '
                                f'components {bad}: stress {sg.tolist()}, strain {e.tolist()}', rep)
                    break
    for name, val in _single_forms(P[0]):
        rep = dict(rep0, form=name, single=True)
        for f in FIELDS:
            ctx.stats.case('oracle:point-form', (kind, name, f, P[0].tobytes(), str(spec['cij']), str(spec['m']), str(spec['n'])))
            snap = (val.shape, val.dtype, val.tobytes()) if isinstance(val, np.ndarray) else repr(val)
            st, v = _call(getattr(s, f), val)
            if snap != ((val.shape, val.dtype, val.tobytes()) if isinstance(val, np.ndarray) else repr(val)):
                ctx.violate(f'{kind}:input-modified', f'{kind}.{f} changed the single point handed over as {name} (shape / contents: '
                            f'{snap[0] if isinstance(snap, tuple) else snap} -> {val.shape if isinstance(val, np.ndarray) else val})', rep)
                break
            if st != 'ok':
                ctx.violate(f'{kind}:forms-raises', f'{kind}.{f}(single point as {name}) {st}; point {P[0].tolist()}', rep)
                continue
            v = np.asarray(v)
            if v.shape != want_shape[f] or v.dtype != np.float64:
                ctx.violate(f'{kind}:forms-shape', f'{kind}.{f}(single point {P[0].tolist()} as {name}) has shape {v.shape}, dtype {v.dtype}', rep)
            elif _rel(v, ref[f][0], floor[f]) > 1e-12:
                ctx.violate(f'{kind}:forms-value', f'{kind}.{f} of the single point {P[0].tolist()} given as {name} differs from the '
                            f'array evaluation: {v.tolist()} vs {ref[f][0].tolist()}', rep)
    for name, val in (('empty (0,3) float array', np.zeros((0, 3))), ('empty (0,3) int array', np.zeros((0, 3), dtype=int))):
        for f in FIELDS:
            st, v = _call(getattr(s, f), val)
            if st != 'ok' or np.asarray(v).shape != (0,) + want_shape[f]:
                ctx.violate(f'{kind}:forms-empty', f'{kind}.{f}({name}): {st}, shape {None if v is None else np.asarray(v).shape}',
                            dict(rep0, form=name))


UNIT_FACTORS = [(1e-10, 1.602176634e11), (0.1, 160.2176634), (1e-8, 1.602176634e12), (1.8897261246, 5.446e-3), (1e-10, 1.0), (1.0, 1e11)]


def _scale_sweep(ctx, spec0, rng, kind):
    """the same physical problem in other units: lengths (cell or Burgers vector, field points) times ls, stiffness
    times cs.  The solution is homogeneous: accepted / refused alike, u(ls x) - u(ls x0) = ls (u(x) - u(x0)), jump across
    the cut = ls b, strain unchanged, stress / K_tensor / K_coeff times cs, preln times cs ls^2.  Powers of two (exact in
    binary floating point) down to 2^-100 / up to 2^100 for lengths and 2^-+200 for the stiffness, and the factors of a few
    real unit systems (metre and pascal, nm and GPa, cm and dyn/cm^2, bohr and hartree/bohr^3)."""
    np = _np()
    st0, base = _outcome_obj(spec0, kind)
    if st0 != 'ok':
        return
    if _near_degenerate(base):
        return
    ls0 = spec0.get('lscale', 1.0)
    m, n, xi = base.m, base.n, base.ξ
    b0 = base.burgers
    bn0 = float(np.linalg.norm(b0))
    fr = [(1.0, 0.6), (0.3, -2.2), (7.0, 2.8), (25.0, -0.9), (1.0, math.pi - 1e-8), (1.0, -math.pi + 1e-8)]
    P0 = np.array([ls0 * r * (math.cos(t) * m + math.sin(t) * n) + ls0 * z * xi for (r, t), z in zip(fr, (0.0, 1.5, -3.0, 0.0, 0.0, 0.0))])
    U0, E0, S0, K0 = base.displacement(P0), base.strain(P0), base.stress(P0), base.K_tensor
    if any(np.iscomplexobj(a) for a in (U0, E0, S0, K0)):
        ctx.violate(f'{kind}:field:real', f'{kind}: fields at off-cut points are complex', {'op': 'scale', 'solver': kind, 'spec': spec0, 'ls': 1.0, 'cs': 1.0})
        return
    # always: a small and a large length unit, a small and a large stiffness unit (far beyond every absolute 1e-8 / 1e-5 that
    # may hide in a guard), one mixed pair, one real unit system
    combos = [(2.0 ** -rng.choice([27, 30, 34, 40, 60, 100]), 1.0), (2.0 ** rng.choice([27, 30, 34, 40, 60, 100]), 1.0),
              (1.0, 2.0 ** -rng.choice([27, 30, 40, 60, 100, 200])), (1.0, 2.0 ** rng.choice([27, 30, 37, 60, 100, 200])),
              (2.0 ** rng.choice(LEN_EXPS), 2.0 ** rng.choice(STIFF_EXPS)), rng.choice(UNIT_FACTORS)]
    for ls, cs in combos:
        pow2 = math.frexp(ls)[0] == 0.5 and math.frexp(cs)[0] == 0.5
        spec = apply_stiffness_scale(apply_length_scale(spec0, ls, via_box=rng.random() < 0.5), cs)
        rep = {'op': 'scale', 'solver': kind, 'spec': spec0, 'ls': ls, 'cs': cs, 'scaled': spec}
        ctx.stats.case('oracle:scale', (kind, ls, cs, str(spec0['cij']), str(spec0['m']), str(spec0['n']), str(spec0['transform']), str(spec0['burgers'])),
                       sample={'op': 'same problem in other units', 'solver': kind, 'length factor': ls, 'stiffness factor': cs})
        st, s = _outcome_obj(spec, kind)
        if st != 'ok':
            ctx.violate(f'{kind}:scale-refused', f'{kind}: a problem that is solved is refused ({st}: {s}) when lengths are multiplied by '
                        f'{ls!r} and the stiffness by {cs!r} ({spec0["cls"]}, route {spec0["route"]})', rep)
            continue
        if type(s) is not type(base):
            ctx.violate(f'{kind}:scale-class', f'solve_volterra_dislocation returns {type(s).__name__} instead of {type(base).__name__} '
                        f'when lengths are multiplied by {ls!r} and the stiffness by {cs!r}', rep)
            continue
        # (a factor that is not a power of two moves components sitting at the round-off clean-up threshold tol across it)
        rt = 1e-11 if pow2 else max(1e-9, 3 * spec0['tol'], 10 * _sensitivity(base))
        P = P0 * ls
        U, E, S, K = s.displacement(P), s.strain(P), s.stress(P), s.K_tensor
        if any(np.iscomplexobj(a) for a in (U, E, S, K)):
            ctx.violate(f'{kind}:field:real', f'{kind}: fields at off-cut points are complex when lengths are multiplied by {ls!r} and the '
                        f'stiffness by {cs!r}: dtypes {[a.dtype.name for a in (U, E, S, K)]}', rep)
            continue
        bad = []
        if _rel(s.transform, base.transform, 1.0) > 1e-14:
            bad.append('transform')
        if _rel(s.burgers / ls, b0) > rt:
            bad.append(f'burgers {s.burgers.tolist()} is not {ls!r} x {b0.tolist()}')
        # the property's clause: jump across the cut = Burgers vector
        jmp = U[4] - U[5]
        if float(np.abs(jmp - ls * b0).max()) > max(1e-6, 3 * spec0['tol']) * ls * bn0:
            bad.append(f'jump across the cut {jmp.tolist()} is not the Burgers vector {(ls * b0).tolist()}')
        lg = abs(math.log(ls)) + abs(math.log(ls0)) + 6
        if float(np.abs((U - U[0]) / ls - (U0 - U0[0])).max()) > rt * bn0 * lg * 10:
            bad.append(f'displacement differences / {ls!r}: {((U - U[0]) / ls).tolist()} vs {(U0 - U0[0]).tolist()}')
        if _rel(E, E0) > rt * 100:
            bad.append(f'strain changed: {E.tolist()} vs {E0.tolist()}')
        if _rel(S / cs, S0) > rt * 100:
            bad.append(f'stress / {cs!r}: {(S / cs).tolist()} vs {S0.tolist()}')
        if _rel(K / cs, K0) > rt * 100:
            bad.append(f'K_tensor / {cs!r}: {(K / cs).tolist()} vs {K0.tolist()}')
        if abs(s.K_coeff / cs - base.K_coeff) > rt * 100 * abs(base.K_coeff) \
                or abs(s.preln / (cs * ls * ls) - base.preln) > rt * 100 * abs(base.preln):
            bad.append(f'K_coeff {s.K_coeff!r}, preln {s.preln!r} vs {base.K_coeff!r}, {base.preln!r}')
        if bad:
            ctx.violate(f'{kind}:scale', f'{kind}: the same problem with lengths x {ls!r} and stiffness x {cs!r} is not the scaled '
                        f'solution ({spec0["cls"]}, route {spec0["route"]}, m={spec0["m"]}, n={spec0["n"]}): {bad[:3]}', rep)


def _inplace_sequence(ctx, spec, rng, kind):
    """hidden state keyed on the argument's identity: ONE position array is evaluated, edited in place (shifted, one
    column nudged, doubled, one row replaced, overwritten), evaluated again ...; every result must be the field at the
    array's CURRENT contents (= what a second solver object gives for a fresh copy), the 1/r law and the symmetric
    gradient hold along the way, the points are never modified, results are fresh arrays that are not shared."""
    np = _np()
    st, s = _outcome_obj(spec, kind)
    st2, fresh = _outcome_obj(spec, kind)
    if st != 'ok' or st2 != 'ok':
        return
    ls = spec.get('lscale', 1.0)
    rep = {'op': 'inplace', 'solver': kind, 'spec': spec}
    P = np.array(gen_points(rng, s, rng.choice([1, 3, 4]), special=False, ls=ls))
    extra = ['eta'] if hasattr(s, 'eta') else (['theta'] if hasattr(s, 'theta') and len(P) > 1 else [])
    bn = float(np.linalg.norm(s.burgers))
    hist = []
    prev = None
    edits = ['none', 'shift', 'column', 'double', 'halve', 'row', 'overwrite', 'temp', 'negate', 'double']
    nsteps = rng.choice([5, 7, 9])
    for step in range(nsteps):
        ed = 'none' if step == 0 else rng.choice(edits)
        arg = P
        if ed == 'shift':
            P += np.array([rng.uniform(-0.3, 0.3) * ls for _ in range(3)])
        elif ed == 'column':
            P[:, rng.randrange(3)] += rng.choice([1e-3, 0.05, -0.2]) * ls
        elif ed == 'double':
            P *= 2.0
        elif ed == 'halve':
            P /= 2.0
        elif ed == 'row':
            P[rng.randrange(len(P))] = gen_points(rng, s, 1, special=False, ls=ls)[0]
        elif ed == 'overwrite':
            np.copyto(P, np.array(gen_points(rng, s, len(P), special=False, ls=ls)))
        elif ed == 'negate':
            np.negative(P, out=P)
        elif ed == 'temp':
            arg = P * rng.choice([1.0, 3.0, 0.25]) + 0.0          # a temporary that nobody keeps (its address may be reused)
        hist.append(ed)
        cur = np.array(arg, copy=True)
        r1 = dict(rep, history=list(hist), points=cur.tolist())
        order = list(FIELDS) + extra
        rng.shuffle(order)
        vals = {}
        # the reference is a solver nobody has read from yet (every other step), read once per field: a getter that writes
        # (memo, in-place normalisation) makes the history of reads matter on the object under test only
        if step % 2 == 1:
            fresh = build(spec, kind)
        for f in order:
            ctx.stats.case('oracle:inplace', (kind, f, cur.tobytes(), str(spec['cij']), str(spec['m']), str(spec['n']), tuple(hist)),
                           sample={'op': 'one position array edited in place', 'solver': kind, 'edit': ed, 'field': f})
            stf, v = _call(getattr(s, f), arg)
            stw, w = _call(getattr(fresh, f), cur.copy())
            if stf != 'ok' or stw != 'ok':
                ctx.violate(f'{kind}:inplace-raises', f'{kind}.{f} after the edits {hist}: {stf} / fresh object: {stw}', r1)
                return
            if not np.array_equal(arg, cur):
                ctx.violate(f'{kind}:input-modified', f'{kind}.{f} modified the position array it was given (after the edits {hist})', r1)
                return
            if not np.array_equal(np.asarray(v), np.asarray(w), equal_nan=True):
                ctx.violate(f'{kind}:stale-positions', f'{kind}.{f} of a position array that was edited in place ({hist}) is not the field at '
                            f'its current contents {cur.tolist()}: {np.asarray(v).tolist()}, a fresh solver with a fresh copy gives '
                            f'{np.asarray(w).tolist()} (relative difference {_rel(v, w):.3e})', r1)
                return
            vals[f] = np.array(v, copy=True)
            if isinstance(v, np.ndarray) and v.ndim > 0:
                if np.shares_memory(v, arg):
                    ctx.violate(f'{kind}:aliased-output', f'{kind}.{f} returns an array that shares memory with the points', r1)
                    return
                if step < nsteps - 1:
                    continue
                # last step: scribble over the result: the next call must not see it
                v[...] = -12345.0
                st3, v3 = _call(getattr(s, f), arg)
                if st3 != 'ok' or not np.array_equal(np.asarray(v3), vals[f], equal_nan=True) or (isinstance(v3, np.ndarray) and np.shares_memory(v3, v)):
                    ctx.violate(f'{kind}:aliased-output', f'{kind}.{f}: writing into a returned array changes what the next call returns '
                                f'(or both calls return the same buffer)', r1)
                    return
        # the property's clauses along the way (no second object involved)
        if prev is not None and ed in ('double', 'halve') and not np.iscomplexobj(vals['strain']):
            t = 2.0 if ed == 'double' else 0.5
            if _rel(vals['strain'] * t, prev['strain']) > 1e-12 or _rel(vals['stress'] * t, prev['stress']) > 1e-12:
                ctx.violate(f'{kind}:inverse-r', f'{kind}: after `pos {"*=" if t == 2.0 else "/="} 2` on the same array strain / stress are not '
                            f'{1 / t} x the previous values: strain {vals["strain"].tolist()}, before {prev["strain"].tolist()}', r1)
                return
        prev = vals if ed != 'temp' else None
        if ed == 'temp':
            # two unnamed temporaries in a row (the second is likely to live at the address of the first)
            for f in order:
                for c in (rng.choice([2.0, 0.5]), rng.choice([3.0, -1.0])):
                    stf, v = _call(getattr(s, f), P * c + 0.0)
                    stw, w = _call(getattr(fresh, f), P * c + 0.0)
                    if stf != 'ok' or stw != 'ok' or not np.array_equal(np.asarray(v), np.asarray(w), equal_nan=True):
                        ctx.violate(f'{kind}:stale-positions', f'{kind}.{f}(pos * {c} + 0.0) — a temporary array — is not the field at '
                                    f'{(P * c).tolist()}: {stf} {None if v is None else np.asarray(v).tolist()}, a fresh solver gives '
                                    f'{None if w is None else np.asarray(w).tolist()}', dict(r1, factor=c))
                        return
    # finite-difference loop that nudges ONE array in place: symmetric gradient of the displacement vs strain
    Q = np.array(gen_points(rng, s, 2, special=False, ls=ls))
    rr = np.hypot(Q.dot(s.m), Q.dot(s.n))
    th = np.arctan2(Q.dot(s.n), Q.dot(s.m))
    if float(np.abs(np.abs(th) - math.pi).min()) > 0.05 and float(rr.min()) > 0:
        h = 1e-4 * float(rr.min())
        e0 = np.array(s.strain(Q), copy=True).reshape(len(Q), 3, 3)
        G = np.zeros((len(Q), 3, 3))
        ok = True
        for j in range(3):
            Q[:, j] += h
            up = np.array(s.displacement(Q), copy=True)
            Q[:, j] -= 2 * h
            dn = np.array(s.displacement(Q), copy=True)
            Q[:, j] += h
            if np.iscomplexobj(up) or np.iscomplexobj(dn):
                ok = False
                break
            G[:, :, j] = (up - dn) / (2 * h)
        if ok and not np.iscomplexobj(e0):
            sym = (G + np.transpose(G, (0, 2, 1))) / 2
            es = np.maximum(np.abs(e0).reshape(len(Q), -1).max(axis=1), bn / (2 * math.pi * rr))
            d = float((np.abs(sym - e0).reshape(len(Q), -1).max(axis=1) / es).max())
            ctx.stats.case('oracle:inplace-fd', (kind, Q.tobytes(), str(spec['cij']), str(spec['m']), str(spec['n'])))
            if d > 1e-5:
                ctx.violate(f'{kind}:strain-symgrad', f'{kind}: central differences of the displacement taken by nudging one coordinate array in '
                            f'place (pos[:, j] += h) differ from the strain by {d:.3e} (relative) at {Q.tolist()}: sym grad {sym.tolist()}, '
                            f'strain {e0.tolist()}', dict(rep, points=Q.tolist(), h=h))


def _mutable_args(spec):
    """the constructor's arguments as objects the caller keeps (numpy arrays, ElasticConstants, Box): (C, burgers, kwargs)."""
    import atomman as am
    np = _np()
    C = am.ElasticConstants(Cij=np.array(spec['cij'], dtype=float))
    b = np.array(resolve_burgers(spec), dtype=float)
    kw = solver_kwargs(spec)
    for key in ('m', 'n'):
        if not isinstance(kw[key], str):
            kw[key] = np.array(kw[key], dtype=float)
    for key in ('ξ_uvw', 'slip_hkl'):
        if key in kw:
            kw[key] = np.array(kw[key], dtype=float)
    return C, b, kw


def _arg_snapshot(C, b, kw):
    np = _np()
    out = {'C.Cij': C.Cij.tobytes(), 'burgers': b.tobytes()}
    for key, v in kw.items():
        if isinstance(v, np.ndarray):
            out[key] = v.tobytes()
        elif key == 'box':
            out['box'] = v.vects.tobytes() + v.origin.tobytes()
    return out


def _all_observables(s, P):
    np = _np()
    out = {}
    for nm in ('burgers', 'transform', 'm', 'n', 'ξ', 'K_tensor', 'K_coeff', 'preln', 'p', 'A', 'L', 'k', 'mu', 'nu', 'tol'):
        if hasattr(s, nm):
            out[nm] = np.array(getattr(s, nm), copy=True)
    out['C.Cij'] = s.C.Cij
    out['C.Cijkl'] = s.C.Cijkl
    out['characterangle'] = np.array(s.characterangle())
    for f in FIELDS:
        out[f] = np.array(getattr(s, f)(P.copy()), copy=True)
    return out


def _identity_variants(spec):
    """the same medium with the crystal axes ON the solver axes: no orientation argument at all, transform = the exact
    identity, axes = 2 x identity (normalised to it) — the branch in which 'nothing needs to be rotated'."""
    base = dict(spec, xi_uvw=None, slip_hkl=None, transform=None, route='default')
    eye = [[1.0, 0.0, 0.0], [0.0, 1.0, 0.0], [0.0, 0.0, 1.0]]
    return [base, dict(base, route='transform', transform=eye), dict(base, route='axes', transform=[[2.0 * v for v in r] for r in eye])]


def _arg_aliasing(ctx, spec, rng, kind, variants=True):
    """aliasing of the constructor's arguments: the caller keeps C (an ElasticConstants object), the Burgers vector, the
    orientation arrays, the axes m, n and the box, and edits / recycles each of them after the solution was computed:
    no observable of the solution may change (stress = C : strain for the medium that was solved); nothing handed over is
    modified by the solver; array-valued results are fresh (writing into them changes nothing); a second solution built
    from the recycled objects is the solution of the new problem."""
    import atomman as am
    np = _np()
    cls = {'stroh': am.defect.Stroh, 'iso': am.defect.IsotropicVolterraDislocation, 'auto': am.defect.solve_volterra_dislocation}[kind]
    if variants:
        # rarely taken branch, always exercised: the un-rotated crystal (two of the three ways of saying so per call)
        vs = _identity_variants(spec)
        for v in (vs[0], rng.choice(vs[1:])):
            if _outcome(v, kind) == 'ok' and not _near_degenerate(build(v, kind)):
                _arg_aliasing(ctx, v, rng, kind, variants=False)
    C, b, kw = _mutable_args(spec)
    rep = {'op': 'aliasing', 'solver': kind, 'spec': spec}
    snap = _arg_snapshot(C, b, kw)
    st, s = _call(cls, C, b, **kw)
    if st != 'ok':
        return
    ctx.stats.case('oracle:aliasing', (kind, str(spec['cij']), str(spec['m']), str(spec['n']), str(spec['transform']), str(spec['box'])),
                   sample={'op': 'arguments edited after solving', 'solver': kind, **_spec_sample(spec)})
    after = _arg_snapshot(C, b, kw)
    mod = [k_ for k_ in snap if snap[k_] != after[k_]]
    if mod:
        ctx.violate(f'{kind}:input-modified', f'{kind}: constructing the solution modified its arguments {mod}', rep)
        return
    ls = spec.get('lscale', 1.0)
    P = np.array(gen_points(rng, s, 3, special=False, ls=ls))
    obs0 = _all_observables(s, P)
    C4 = obs0['C.Cijkl']
    other = gen_iso_spec(rng) if kind == 'iso' else gen_spec(rng, cls=rng.choice(['cubic', 'orthorhombic', 'triclinic']),
                                                              scales=(spec.get('cscale', 1.0), 1.0))
    R2 = _rot_float(quat_rot(rng.choice(QUATS[1:8])))
    edits = [('C.Cij = <another medium>', lambda: setattr(C, 'Cij', np.array(other['cij'], dtype=float))),
             ('burgers *= -3', lambda: b.__imul__(-3.0)),
             ('burgers[:] = [7, 7, 7]', lambda: b.__setitem__(slice(None), 7.0 * ls))]
    for key in ('transform', 'axes'):
        if key in kw:
            edits.append((f'{key}[:] = <another rotation>', lambda key=key: kw[key].__setitem__(slice(None), R2)))
    for key in ('m', 'n'):
        if isinstance(kw[key], np.ndarray):
            edits.append((f'{key}[:] = <another axis>', lambda key=key: kw[key].__setitem__(slice(None), R2[0] if key == 'm' else R2[1])))
            edits.append((f'{key} *= 2', lambda key=key: kw[key].__imul__(2.0)))
    for key in ('ξ_uvw', 'slip_hkl'):
        if key in kw:
            edits.append((f'{key}[:] = [1, 0, 0]', lambda key=key: kw[key].__setitem__(slice(None), [1.0, 0.0, 0.0] + [0.0] * (len(kw[key]) - 3))))
    if 'box' in kw:
        edits.append(('box.set(vects=<another cell>)', lambda: kw['box'].set(vects=np.array(BOXES[2], dtype=float) * 1.5)))
    rng.shuffle(edits)
    done = []
    for name, act in edits:
        act()
        done.append(name)
        r1 = dict(rep, edits=list(done))
        st1, obs = _call(_all_observables, s, P)
        if st1 != 'ok':
            ctx.violate(f'{kind}:aliased-argument', f'{kind}: after the caller\'s `{name}` reading the solution {st1}', r1)
            return
        diff = [k_ for k_ in obs0 if not np.array_equal(obs0[k_], obs[k_], equal_nan=True)]
        if diff:
            # the property's clause on what is returned now: stress = C : strain for the medium that was solved
            sig, mag = _exact_C_strain(C4, obs['strain'][0])
            hooke = max(abs(float(obs['stress'][0][i][j]) - float(sig[i][j])) for i in range(3) for j in range(3)) \
                / max(float(np.abs(obs0['stress'][0]).max()), 1e-300)
            ctx.violate(f'{kind}:aliased-argument', f'{kind}: the solution shares state with its arguments: after the caller\'s `{name}` '
                        f'(all edits so far: {done}) {diff} of the solved dislocation changed; stress - C:strain (medium that was '
                        f'solved) is now {hooke:.3e} of the stress at {P[0].tolist()} ({spec["cls"]}, route {spec["route"]}, m={spec["m"]}, n={spec["n"]})', r1)
            return
    # a second solution from the recycled objects = the solution of the new problem from fresh objects
    C2, b2, kw2 = _mutable_args(other)
    stA, sA = _call(cls, C2, b2, **kw2)
    if stA == 'ok':
        C.Cij = np.array(other['cij'], dtype=float)
        if b.shape == b2.shape:
            b[:] = b2
        else:
            b = b2.copy()
        kwB = dict(kw2)
        stB, sB = _call(cls, C, b, **kwB)
        if stB != 'ok':
            ctx.violate(f'{kind}:aliased-argument', f'{kind}: a problem that fresh objects solve is refused when the caller recycles its '
                        f'ElasticConstants / Burgers-vector objects: {stB}', dict(rep, other=other))
        else:
            PA = np.array(gen_points(rng, sA, 2, special=False, ls=other.get('lscale', 1.0)))
            oa, ob = _all_observables(sA, PA), _all_observables(sB, PA)
            diff = [k_ for k_ in oa if not np.array_equal(oa[k_], ob[k_], equal_nan=True)]
            if diff:
                ctx.violate(f'{kind}:aliased-argument', f'{kind}: a solution built from recycled argument objects differs from the one built '
                            f'from fresh objects in {diff}', dict(rep, other=other))
            # and the first solution still stands
            obs = _all_observables(s, P)
            diff = [k_ for k_ in obs0 if not np.array_equal(obs0[k_], obs[k_], equal_nan=True)]
            if diff:
                ctx.violate(f'{kind}:aliased-argument', f'{kind}: constructing a second solution changed {diff} of the first', dict(rep, other=other))
    # results are fresh: writing into a returned array changes nothing
    for nm in ('burgers', 'transform', 'm', 'n', 'ξ', 'K_tensor', 'p', 'A', 'L', 'k'):
        if not hasattr(s, nm):
            continue
        a = getattr(s, nm)
        if not isinstance(a, np.ndarray) or a.ndim == 0:
            continue
        try:
            a[...] = 4321.0
        except ValueError:
            continue                       # a read-only view is as good as a copy
        now = _all_observables(s, P)
        diff = [k_ for k_ in obs0 if not np.array_equal(obs0[k_], now[k_], equal_nan=True)]
        if diff:
            ctx.violate(f'{kind}:aliased-output', f'{kind}: writing into the array returned by `.{nm}` changes {diff} of the solution '
                        f'(the object hands out its internal state)', dict(rep, getter=nm))
            return
    for nm, get in (('C.Cij', lambda: s.C.Cij), ('C.Cijkl', lambda: s.C.Cijkl)):
        a = get()
        a[...] = 4321.0
        if not np.array_equal(get(), obs0[nm]):
            ctx.violate(f'{kind}:aliased-output', f'{kind}: writing into the array returned by `.{nm}` changes the stored medium', dict(rep, getter=nm))


def _arg_forms(ctx, spec, rng, kind):
    """the constructor's arguments in other forms: lists / tuples / integer and single-precision arrays / Fortran-ordered,
    strided and read-only arrays where the values are exactly representable, numpy bools and ints for the flags, all
    arguments positional, axes= for transform=: the solution is the same."""
    import atomman as am
    np = _np()
    cls = {'stroh': am.defect.Stroh, 'iso': am.defect.IsotropicVolterraDislocation, 'auto': am.defect.solve_volterra_dislocation}[kind]
    C, b, kw = _mutable_args(spec)
    st, s0 = _call(cls, C, b, **kw)
    if st != 'ok':
        return
    ls = spec.get('lscale', 1.0)
    P = np.array(gen_points(rng, s0, 2, special=False, ls=ls))
    obs0 = _all_observables(s0, P)
    rep = {'op': 'argforms', 'solver': kind, 'spec': spec}
    sens = _sensitivity(s0)

    def exact(a, dt):
        return np.array_equal(np.asarray(a, dtype=dt).astype(float), np.asarray(a, dtype=float))

    def variants(a, unit_rows=False):
        a = np.asarray(a, dtype=float)
        out = [('list', a.tolist()), ('tuple', tuple(tuple(r) for r in a.tolist()) if a.ndim == 2 else tuple(a.tolist())), ('Fortran order', np.asfortranarray(a))]
        ro = a.copy()
        ro.setflags(write=False)
        out.append(('read-only', ro))
        big = np.full(tuple(2 * d for d in a.shape), 55.0)
        big[tuple(slice(None, None, 2) for _ in a.shape)] = a
        out.append(('strided view', big[tuple(slice(None, None, 2) for _ in a.shape)]))
        if exact(a, np.int64):
            out += [('int64 array', a.astype(np.int64)), ('int list', a.astype(np.int64).tolist())]
        if exact(a, np.int32):
            out.append(('int32 array', a.astype(np.int32)))
        # (single-precision orientation matrices are normalised and stored in single precision: not demanded)
        if exact(a, np.float32) and not unit_rows:
            out.append(('float32 array', a.astype(np.float32)))
        return out
    trials = []
    for nm, v in variants(b):
        trials.append((f'burgers as {nm}', (C, v), dict(kw)))
    for key in ('transform', 'axes', 'ξ_uvw', 'slip_hkl', 'm', 'n'):
        if key in kw and isinstance(kw[key], np.ndarray):
            for nm, v in variants(kw[key], unit_rows=key in ('transform', 'axes')):
                trials.append((f'{key} as {nm}', (C, b), dict(kw, **{key: v})))
    if 'transform' in kw:
        k2 = dict(kw)
        k2['axes'] = k2.pop('transform')
        trials.append(('axes= instead of transform=', (C, b), k2))
    trials.append(('cart_axes as numpy bool, tol as numpy float', (C, b), dict(kw, cart_axes=np.bool_(kw['cart_axes']), tol=np.float64(kw['tol']))))
    trials.append(('cart_axes as int', (C, b), dict(kw, cart_axes=int(kw['cart_axes']))))
    full = dict(ξ_uvw=None, slip_hkl=None, transform=None, axes=None, box=None, m='x', n='y', cart_axes=False, tol=1e-8)
    full.update(kw)
    rng.shuffle(trials)
    trials = trials[:8]
    # positional calls are always tried, through the class and through the entry point (same documented order)
    pos_args = (C, b) + tuple(full[k_] for k_ in ('ξ_uvw', 'slip_hkl', 'transform', 'axes', 'box', 'm', 'n', 'cart_axes', 'tol'))
    trials.append(('all arguments positional', pos_args, {}))
    entry = am.defect.solve_volterra_dislocation
    if cls is not entry and type(_call(entry, C, b, **kw)[1]) is type(s0):
        trials.append(('all arguments positional, through solve_volterra_dislocation', pos_args, {'__entry__': True}))
    for name, args, kws in trials:
        ctx.stats.case('oracle:arg-form', (kind, name, str(spec['cij']), str(spec['m']), str(spec['n']), str(spec['transform']), str(spec['burgers'])),
                       sample={'op': 'form of the constructor arguments', 'solver': kind, 'form': name})
        if kws.pop('__entry__', False):
            st, s = _call(entry, *args)
        else:
            st, s = _call(cls, *args, **kws)
        if st != 'ok':
            ctx.violate(f'{kind}:argform-raises', f'{kind}: the problem is solved with arrays but with {name}: {st}', dict(rep, form=name))
            continue
        st, obs = _call(_all_observables, s, P)
        if st != 'ok':
            ctx.violate(f'{kind}:argform-raises', f'{kind} built with {name}: reading the solution {st}', dict(rep, form=name))
            continue
        # (the eigenvectors' normalisation and phase are the eigen-solver's choice: compared through the fields and K)
        diff = [k_ for k_ in obs0 if k_ not in ('A', 'L', 'k') and (_rel(obs[k_], obs0[k_]) > (max(1e-8, 1e3 * sens) if k_ == 'p' else sens)
                                                                     or np.asarray(obs[k_]).dtype != np.asarray(obs0[k_]).dtype)]
        if diff:
            ctx.violate(f'{kind}:argform', f'{kind}: with {name} the solution differs in {diff} from the one built with float64 arrays '
                        f'({spec["cls"]}, route {spec["route"]})', dict(rep, form=name))
    # options that exclude each other are refused (AssertionError), whatever else is given
    Tm = np.eye(3)
    for name, extra in (('transform and axes', dict(transform=Tm, axes=Tm)), ('ξ_uvw without slip_hkl', dict(ξ_uvw=[1, 0, 0])),
                        ('slip_hkl without ξ_uvw', dict(slip_hkl=[0, 1, 0])), ('ξ_uvw, slip_hkl and transform', dict(ξ_uvw=[0, 0, 1], slip_hkl=[0, 1, 0], transform=Tm)),
                        ('ξ_uvw, slip_hkl and axes', dict(ξ_uvw=[0, 0, 1], slip_hkl=[0, 1, 0], axes=Tm))):
        k2 = {k_: v for k_, v in kw.items() if k_ not in ('transform', 'axes', 'ξ_uvw', 'slip_hkl')}
        k2.update(extra)
        st, _s = _call(cls, C, b, **k2)
        ctx.stats.case('oracle:arg-exclusive', (kind, name))
        if not st.startswith('raised AssertionError'):
            ctx.violate(f'{kind}:options-exclusive', f'{kind}: {name} given together must be refused with an AssertionError, got: {st}', dict(rep, form=name))


def _resolve_sequence(ctx, rng):
    """object-level state: one solver object is solved, read, solved again for a different problem and read again;
    every observable must equal that of a freshly constructed object (nothing may survive from the first problem), and
    reading twice gives the same values."""
    np = _np()
    kind = rng.choice(['stroh', 'stroh', 'iso'])
    specs = []
    for _ in range(3):
        for _try in range(20):
            sp = gen_iso_spec(rng) if kind == 'iso' else gen_spec(rng, cls=rng.choice(['cubic', 'orthorhombic', 'monoclinic', 'triclinic']))
            if _outcome(sp, kind) == 'ok':
                specs.append(sp)
                break
    if len(specs) < 2:
        return
    import atomman as am
    s = build(specs[0], kind)
    P0 = np.array(gen_points(rng, s, 3, special=False, ls=specs[0]['lscale']))
    first = _observables(s, P0)
    again = _observables(s, P0)
    ctx.stats.case('oracle:re-solve', (kind, str(specs)), sample={'op': 'solve -> read -> solve -> read', 'solver': kind})
    rep = {'op': 'resolve', 'solver': kind, 'specs': specs}
    for k_ in first:
        if not np.array_equal(first[k_], again[k_], equal_nan=True):
            ctx.violate(f'{kind}:state', f'{kind}: reading {k_} twice from one object gives different values', rep)
            return
    for sp in specs[1:] + [specs[0]]:
        fresh = build(sp, kind)
        P = np.array(gen_points(rng, fresh, 3, special=False, ls=sp['lscale']))
        C = am.ElasticConstants(Cij=np.array(sp['cij'], dtype=float))
        try:
            s.solve(C, resolve_burgers(sp), **solver_kwargs(sp))
        except Exception as e:  # noqa
            ctx.violate(f'{kind}:state', f'{kind}: solve() on an existing object raises {type(e).__name__}: {e}', rep)
            return
        a, b = _observables(s, P), _observables(fresh, P)
        diff = [k_ for k_ in b if k_ not in a or not np.array_equal(a[k_], b[k_], equal_nan=True)]
        if diff:
            ctx.violate(f'{kind}:state', f'{kind}: after solve() on an existing object {diff} differ from a freshly constructed '
                        f'solution of the same problem ({sp["cls"]}, route {sp["route"]})', rep)
            return


def _orientation_oracle(ctx, spec, s):
    """the stored transform is a proper rotation taking the slip-plane normal (reciprocal-lattice vector h a* + k b* +
    l c*, computed here exactly) to n and the line direction u a + v b + w c to m x n; C and b are rotated by it."""
    np = _np()
    rep = {'op': 'orientation', 'spec': spec}
    T = s.transform
    ctx.stats.case('oracle:orientation', (str(spec['transform']), str(spec['xi_uvw']), str(spec['slip_hkl']), str(spec['box']),
                                          str(spec['m']), str(spec['n'])))
    if not _transform_oracle(ctx, spec, T, rep):
        return
    m, n = mn_vectors(spec)
    import atomman as am
    if spec['route'] == 'miller':
        box = _mkbox(spec)
        T2 = am.defect.dislocation_system_transform(spec['xi_uvw'], spec['slip_hkl'], m=m, n=n, box=box)
        if float(np.abs(np.asarray(T2) - T).max()) > 1e-13:
            ctx.violate('orientation:utility', 'dislocation_system_transform gives a different matrix than the solver stores: '
                        f'{np.asarray(T2).tolist()} vs {T.tolist()}', rep)
    _orientation_rest(ctx, spec, s, rep)


def _transform_oracle(ctx, spec, T, rep):
    """T is a proper rotation; by Miller indices: it takes the reciprocal-lattice vector h a* + k b* + l c* (computed here
    exactly from the cell) to a POSITIVE multiple of n and the lattice vector u a + v b + w c to a positive multiple of m x n;
    by axes: its rows are the normalised axes.  False when T is not even a rotation."""
    np = _np()
    T = np.asarray(T, dtype=float)
    Tq = [[F(float(v)) for v in r] for r in T]
    gram = [[sum(Tq[i][k] * Tq[j][k] for k in range(3)) for j in range(3)] for i in range(3)]
    det = (Tq[0][0] * (Tq[1][1] * Tq[2][2] - Tq[1][2] * Tq[2][1]) - Tq[0][1] * (Tq[1][0] * Tq[2][2] - Tq[1][2] * Tq[2][0])
           + Tq[0][2] * (Tq[1][0] * Tq[2][1] - Tq[1][1] * Tq[2][0]))
    if any(abs(gram[i][j] - (1 if i == j else 0)) > F(1, 10 ** 12) for i in range(3) for j in range(3)) or abs(det - 1) > F(1, 10 ** 12):
        ctx.violate('orientation:rotation', f'stored transform is not a proper rotation (det {float(det)}): {T.tolist()}', rep)
        return False
    m, n = mn_vectors(spec)
    if spec['route'] == 'miller':
        V = [[F(float(v)) for v in r] for r in (spec['box'] or [[1, 0, 0], [0, 1, 0], [0, 0, 1]])]
        u, hkl = v3(spec['xi_uvw']), p3(spec['slip_hkl'])
        line = [sum(u[i] * V[i][c] for i in range(3)) for c in range(3)]

        def cr(a, b):
            return [a[1] * b[2] - a[2] * b[1], a[2] * b[0] - a[0] * b[2], a[0] * b[1] - a[1] * b[0]]
        rec = [cr(V[1], V[2]), cr(V[2], V[0]), cr(V[0], V[1])]          # reciprocal vectors times the cell volume
        vol = sum(V[0][c] * rec[0][c] for c in range(3))
        normal = [sum(hkl[i] * rec[i][c] for i in range(3)) / vol for c in range(3)]
        for nm, src, dst in (('slip-plane normal', normal, n), ('line direction', line, np.cross(m, n))):
            img = [sum(Tq[i][j] * src[j] for j in range(3)) for i in range(3)]
            ln_ = math.sqrt(float(sum(v * v for v in img)))
            if any(abs(float(img[i]) / ln_ - float(dst[i])) > 1e-9 for i in range(3)):
                ctx.violate('orientation:miller', f'the transform takes the {nm} of ξ_uvw={spec["xi_uvw"]}, slip_hkl={spec["slip_hkl"]} to '
                            f'{[float(v) / ln_ for v in img]}, not to {list(map(float, dst))}', rep)
    elif spec['transform'] is not None:
        ax = np.array(spec['transform'], dtype=float)
        for i in range(3):
            row = [F(float(v)) for v in ax[i]]
            nr = math.sqrt(float(sum(v * v for v in row)))
            if any(abs(float(row[c]) / nr - T[i][c]) > 1e-12 for c in range(3)):
                ctx.violate('orientation:axes', f'row {i} of the stored transform is not the normalised axis {ax[i].tolist()}', rep)
    return True


def _orientation_rest(ctx, spec, s, rep):
    np = _np()
    import atomman as am
    T = s.transform
    m, n = mn_vectors(spec)
    # character angle: cos(angle) |b| = b . ξ
    ang = s.characterangle()
    bq = s.burgers
    bnorm = float(np.linalg.norm(bq))
    if abs(math.cos(math.radians(ang)) * bnorm - float(bq.dot(s.ξ))) > 1e-9 * bnorm or not (0.0 <= ang <= 180.0) \
            or abs(s.characterangle(unit='radian') - math.radians(ang)) > 1e-12:
        ctx.violate('characterangle', f'characterangle {ang} is not the angle between b = {bq.tolist()} and ξ = {s.ξ.tolist()}', rep)
    # C and b in the solver frame
    C0 = np.array(spec['cij'], dtype=float)
    C4 = am.ElasticConstants(Cij=C0).Cijkl
    want = np.einsum('ig,jh,km,ln,ghmn->ijkl', T, T, T, T, C4)
    # (ElasticConstants.transform is called without tol: its own default 1e-8 is the clean-up threshold of the stiffness)
    if float(np.abs(s.C.Cijkl - want).max()) > 3 * TOL_C * float(np.abs(want).max()):
        ctx.violate('orientation:C', f'stiffness in the solver frame is not the rotated crystal stiffness ({spec["cls"]}, route {spec["route"]})', rep)
    b0 = np.array(v3(resolve_burgers(spec)), dtype=float)
    if spec['box'] is not None:
        b0 = b0.dot(np.array(spec['box'], dtype=float))
    wb = T.dot(b0)
    if float(np.abs(s.burgers - wb).max()) > 3 * spec['tol'] * float(np.abs(wb).max()):
        ctx.violate('orientation:burgers', f'Burgers vector in the solver frame {s.burgers.tolist()} is not transform . b = {wb.tolist()}', rep)
    if not (np.array_equal(s.m, m) and np.array_equal(s.n, n) and float(np.abs(s.ξ - np.cross(m, n)).max()) < 1e-15):
        ctx.violate('orientation:frame', 'stored m, n, ξ are not the requested axes', rep)


def _miller_sweep(ctx, rng, reps):
    """orientation by Miller indices for EVERY zero pattern x sign pattern of the plane indices and of the line indices (26
    each), in cubic / orthorhombic / sheared / rotated / axis-permuted cells, 3- and 4-index forms, all choices of m, n:
    the stand-alone utility and the solver must both return the rotation that takes the exact reciprocal-lattice normal to
    +n and the lattice line to +m x n (sign included); the Burgers vector, given as a crystal vector, is rotated by it."""
    np = _np()
    import atomman as am
    for rep_ in range(reps):
        cases = [('plane', pat) for pat in SIGN_PATTERNS] + [('line', pat) for pat in SIGN_PATTERNS] \
            + [('plane4', pat) for pat in SIGN_PATTERNS]
        for n_, (what, pat) in enumerate(cases):
            spec = gen_spec(rng, cls=rng.choice(['triclinic', 'monoclinic', 'orthorhombic']), route='miller',
                            four_index=what == 'plane4', scales=(1.0, 1.0), tiny=False)
            if what == 'plane4':
                spec['xi_uvw'], spec['slip_hkl'] = gen_miller4(rng, pat)
                spec['burgers'] = list(rng.choice(BURGERS4))
            else:
                spec['xi_uvw'], spec['slip_hkl'] = gen_miller(rng, plane_pat=pat) if what == 'plane' else gen_miller(rng, line_pat=pat)
                if spec['box'] is BOXES[4] or spec['box'] == BOXES[4]:
                    pass                    # three indices in the hexagonal cell are fine too
                spec['burgers'] = rng.choice([[0.5, -0.5, 0.0], [0.5, 0.0, -0.5], [1.0, 0.0, 0.0], [0.5, 0.5, 0.5], [0.0, 0.0, 1.0],
                                              [0.0, 0.5, 0.5], [-1.0, 2.0, 0.5]])
            spec['bkind'] = 'crystal'
            rep = {'op': 'orientation', 'solver': 'stroh', 'spec': spec}
            ctx.stats.case('oracle:miller-pattern', (what, pat, str(spec['xi_uvw']), str(spec['slip_hkl']), str(spec['box']), str(spec['m']), str(spec['n'])),
                           sample={'op': 'orientation by Miller indices', 'pattern': [what, list(pat)], 'xi_uvw': spec['xi_uvw'],
                                   'slip_hkl': spec['slip_hkl'], 'box': spec['box']})
            m, n = mn_vectors(spec)
            try:
                T2 = am.defect.dislocation_system_transform(spec['xi_uvw'], spec['slip_hkl'], m=m, n=n, box=_mkbox(spec))
            except Exception as e:  # noqa
                ctx.violate('orientation:utility-raises', f'dislocation_system_transform(ξ_uvw={spec["xi_uvw"]}, slip_hkl={spec["slip_hkl"]}) '
                            f'raised {type(e).__name__}: {e}', rep)
                continue
            _transform_oracle(ctx, spec, T2, rep)
            try:
                s = build(spec, 'stroh')
            except ValueError:
                continue        # (an eigenvalue degeneracy of this medium in this orientation: outside the quantifier)
            _orientation_oracle(ctx, spec, s)


# ---- counts: arrays of N points -------------------------------------------------------------------------------
# An implementation may treat long arrays in blocks.  Which block length nobody can guess; what can be covered:
#   * N = 2^k - 1, 2^k, 2^k + 1 for every k up to 17 (and the smallest sizes 1, 2, 3),
#   * N = j s (j = 1, 2, 3) for block lengths s = B // r that a memory budget B (64 KiB, 1 MiB) divided by the
#     bytes / numbers one point needs would give (r: 3, 6, 9 ... 288 = vectors, 3x3 tensors, six eigen-terms, real or complex,
#     4 / 8 / 16 bytes each),
#   * a few random large N.
# EVERY row is compared: the N points are drawn (with repetition, in random order) from a small base set, so the value of each
# row is known from ONE evaluation of the base set (<= 1009 points); stress = C : strain on every row; first / last / middle
# row against single-point calls.
ROW_DIVISORS = [3, 6, 9, 12, 18, 24, 27, 36, 48, 72, 81, 96, 144, 162, 192, 288]
BLOCK_BUDGETS = [2 ** 16, 2 ** 20]


def block_lengths():
    return sorted({B // r for B in BLOCK_BUDGETS for r in ROW_DIVISORS})


def array_sizes(rng, cap, nrandom=3):
    out = {1, 2, 3}
    k = 1
    while 2 ** k - 1 <= cap:
        out |= {x for x in (2 ** k - 1, 2 ** k, 2 ** k + 1) if x <= cap}
        k += 1
    for s_ in block_lengths():
        for j in (1, 2, 3):
            if j * s_ <= cap:
                out.add(j * s_)
        if s_ + 1 <= cap:
            out.add(s_ + 1)
    for _ in range(nrandom):
        out.add(rng.randint(10000, cap))
    return sorted(out)


def _sized_points(rng_np, s, N, ls, nbase=1009):
    """(base points, index array, P = base[idx]): generic points off the line and off the cut, in the solver frame"""
    np = _np()
    q = min(N, nbase)
    r = rng_np.uniform(0.5, 30.0, q) * ls
    th = rng_np.uniform(-np.pi + 0.05, np.pi - 0.05, q)
    z = rng_np.uniform(-5, 5, q) * ls
    base = (r * np.cos(th))[:, None] * s.m + (r * np.sin(th))[:, None] * s.n + z[:, None] * s.ξ
    idx = rng_np.integers(0, q, N)
    idx[:q] = rng_np.permutation(q)          # every base point occurs
    idx[-1] = rng_np.integers(0, q)
    return base, idx, base[idx], r


def _array_size_case(ctx, spec, kind, N, pseed):
    np = _np()
    rep = {'op': 'sizes', 'solver': kind, 'spec': spec, 'N': int(N), 'pseed': int(pseed)}
    s = build(spec, kind)
    ls = spec.get('lscale', 1.0)
    g = np.random.default_rng(pseed)
    base, idx, P, rb = _sized_points(g, s, N, ls)
    P0 = P.copy()
    ctx.stats.case('oracle:array-size', (kind, int(N), int(pseed), str(spec['cij'])), sample={'op': 'N points', 'solver': kind, 'N': int(N)})
    bn = float(np.linalg.norm(s.burgers))
    cmax = float(np.abs(s.C.Cijkl).max())
    fields = {}
    for f in FIELDS:
        e, a = _call(lambda: getattr(s, f)(P))
        e2, b_ = _call(lambda: getattr(s, f)(base))
        if e != 'ok' or e2 != 'ok':
            ctx.violate(f'{kind}:sizes-raises', f'{kind}: {f} of {N} points: {e if e != "ok" else e2}', rep)
            return
        shape = (N, 3) if f == 'displacement' else (N, 3, 3)
        if N == 1 and a.shape == shape[1:]:
            a = a.reshape(shape)            # (a (1, 3) array is answered like a single point)
        if a.shape != shape:
            ctx.violate(f'{kind}:sizes-shape', f'{kind}: {f} of an ({N}, 3) array has shape {a.shape}', rep)
            return
        if np.iscomplexobj(a) or not np.isfinite(a).all():
            rows = np.flatnonzero((~np.isfinite(a) | (np.imag(a) != 0)).reshape(N, -1).any(axis=1))
            ctx.violate(f'{kind}:sizes-complex', f'{kind}: {f} of {N} points off the cut is {a.dtype} / not finite: {len(rows)} rows with an '
                        f'imaginary part or nan (first {int(rows[0]) if len(rows) else "-"}, last {int(rows[-1]) if len(rows) else "-"})', rep)
            return
        fields[f] = (a, b_.reshape((len(base),) + shape[1:]))
    if not np.array_equal(P, P0):
        ctx.violate(f'{kind}:input-modified', f'{kind}: evaluating the fields on {N} points changed the caller\'s array', rep)
    # scales of one row: sum of the |terms| for Stroh, the closed-form magnitudes otherwise
    es0 = bn / (2 * np.pi * rb)
    us = bn * (np.abs(np.log(rb / ls)) + abs(math.log(ls)) + 4)
    scale = {'displacement': us, 'strain': es0, 'stress': cmax * es0}
    if hasattr(s, 'A'):
        _e, su_, se_, ss_ = _field_scales(s, base)
        scale = {'displacement': np.maximum(us, su_), 'strain': np.maximum(es0, se_), 'stress': np.maximum(cmax * es0, ss_)}
    for f in FIELDS:
        a, b_ = fields[f]
        ref = b_[idx]
        d = np.abs(a - ref).reshape(N, -1).max(axis=1)
        bad = np.flatnonzero(~(d <= 1e-12 * scale[f][idx]))
        if len(bad):
            ctx.violate(f'{kind}:array-rows', f'{kind}: {f} of an array of {N} points: {len(bad)} rows (first {int(bad[0])}, last {int(bad[-1])}) '
                        f'differ from the values of the same points evaluated in an array of {len(base)} (max difference '
                        f'{float(np.nanmax(d[bad])) if np.isfinite(d[bad]).any() else float("nan"):.3e}, field scale {float(scale[f][idx][bad[0]]):.3e})', rep)
            return
    # stress = C : strain on every row
    E, S = fields['strain'][0], fields['stress'][0]
    C4 = s.C.Cijkl
    hooke = np.einsum('ijkl,nkl->nij', C4, E)
    mag = np.einsum('ijkl,nkl->nij', np.abs(C4), np.abs(E))
    ss = np.maximum(np.abs(S).reshape(N, -1).max(axis=1), cmax * np.abs(E).reshape(N, -1).max(axis=1))
    badm = ~(np.abs(S - hooke) <= 1e-11 * mag + 2.5 * spec['tol'] * ss[:, None, None])
    bad = np.flatnonzero(badm.reshape(N, -1).any(axis=1))
    if len(bad):
        ctx.violate(f'{kind}:hooke', f'{kind}: stress != C:strain in {len(bad)} of {N} rows of one array (first {int(bad[0])}, last {int(bad[-1])})', rep)
        return
    # single-point calls: first, last, middle
    for i in sorted({0, N - 1, N // 2}):
        for f in FIELDS:
            e, v = _call(lambda: getattr(s, f)(P[i].copy()))
            if e != 'ok' or float(np.abs(np.asarray(v) - fields[f][0][i]).max()) > 1e-12 * float(scale[f][idx[i]]):
                ctx.violate(f'{kind}:array', f'{kind}: {f} at row {i} of an array of {N} points differs from the single-point value ({e})', rep)
                return


def _array_sizes(ctx, rng):
    """see the comment above: sizes around powers of two, multiples of plausible block lengths, random large N."""
    np = _np()
    cap = 2 ** 19 + 1 if ctx.thorough else 2 ** 17 + 1
    sizes = array_sizes(rng, cap)
    if not ctx.thorough:
        # the quick tier affords all sizes up to 2^16 + 1 and the three around 2^17; thorough goes on to 2^19
        sizes = [x for x in sizes if x <= 2 ** 16 + 1 or x in (2 ** 17 - 1, 2 ** 17, 2 ** 17 + 1)]
    t0 = time.time()
    rows = 0
    spec = {}
    for n_, N in enumerate(sizes):
        kinds = ['stroh', 'iso'] if ctx.thorough or N <= 4097 else [['stroh', 'iso'][(n_ + ctx.seed) % 2]]
        for kind in kinds:
            if n_ % 8 == 0 or kind not in spec:
                for _try in range(30):
                    sp = gen_iso_spec(rng) if kind == 'iso' else gen_spec(rng, cls=rng.choice(['cubic', 'orthorhombic', 'monoclinic', 'triclinic']))
                    if sp.get('lscale', 1.0) != 1.0 or sp.get('cscale', 1.0) != 1.0:
                        continue            # (other units have their own sweep)
                    if _outcome(sp, kind) == 'ok' and (kind == 'iso' or not _near_degenerate(build(sp, kind))):
                        spec[kind] = sp
                        break
            if kind not in spec:
                continue
            _guarded(ctx, 'sizes', kind, spec[kind], lambda: _array_size_case(ctx, spec[kind], kind, N, rng.randrange(2 ** 31)))
            rows += N
    ctx.extra['array_sizes'] = {'sizes': len(sizes), 'largest': int(sizes[-1]), 'rows': int(rows), 't_s': round(time.time() - t0, 2)}


# oblique solver axes from small integers: m = (a, b, 0)/|.|, n = (-b, a, c)/|.| (m . n = 0 exactly before the
# normalisation; after it neither is a Cartesian axis and ξ = m x n carries the rounding of six square roots)
OBLIQUE_ABC = [(1, 5, 7), (1, 6, 7), (1, 7, 7), (2, 3, 7), (1, 2, 3), (3, 4, 5), (2, 5, 1), (1, 3, 0), (5, 12, 2), (7, 24, 3),
               (1, 1, 1), (2, 7, 4)]
# Burgers vectors by their components along (m, n, ξ), in the slip plane: both senses of the pure screw (b exactly
# parallel / ANTIPARALLEL to ξ: character 0 and 180 degrees, the two ends of arccos), both senses of the edge, the four
# mixed ones
CHARACTER_B = [(0, 0, 1), (0, 0, -1), (0, 0, -1), (1, 0, 0), (-1, 0, 0), (0.5, 0, 0.75), (-0.5, 0, -0.75), (0.5, 0, -0.75),
               (-0.5, 0, 0.75), (1e-7, 0, -1), (0, 0, -1)]
CHARACTER_SIZES = [1.0, 0.75, 2.5, 1 / 3, 1e-3, 2.0 ** -30, 3.0]


def gen_oblique_mn(rng, abc=None):
    a, b, c = abc or rng.choice(OBLIQUE_ABC)
    m, n = [float(a), float(b), 0.0], [float(-b), float(a), float(c)]
    k = rng.randrange(3)
    m, n = m[k:] + m[:k], n[k:] + n[:k]           # the zero component anywhere (cyclic: handedness kept)
    if rng.random() < 0.3:
        m, n = n, [-v for v in m]                 # (n, -m) is as good a pair as (m, n)
    nm, nn = math.sqrt(sum(v * v for v in m)), math.sqrt(sum(v * v for v in n))
    return [v / nm for v in m], [v / nn for v in n]


def _character_sweep(ctx, rng, reps=1):
    """the dislocation character over its whole range INCLUDING both ends, in oblique solver frames: every entry of
    CHARACTER_B x a size, through both solvers, un-rotated / rotated crystal, with / without a cell; the `characterangle`
    clause of the orientation oracle (a number in [0, 180], the angle between b and ξ in degrees and radians) and the
    orientation clauses are evaluated on each.  Replay: op `orientation`."""
    frames = [(abc, None) for abc in OBLIQUE_ABC] + [(None, 'rot')] * 4
    it = 0
    for _ in range(reps):
        for abc, mnk in frames:
            mn = gen_oblique_mn(rng, abc) if mnk is None else gen_mn(rng, 'rot')
            for j in range(len(CHARACTER_B)):
                it += 1
                if reps == 1 and (it + j) % 2 and j > 2:
                    continue                                # quick: both screws always, half of the others
                kind = 'iso' if it % 3 == 0 else 'stroh'
                route = ['default', 'default', 'transform', 'default', 'axes'][it % 5]
                spec = gen_spec(rng, cls='isotropic' if kind == 'iso' else ['cubic', 'orthorhombic', 'triclinic'][it % 3],
                                route=route, mn='rot', scales=(1.0, 1.0), tiny=False)
                spec['m'], spec['n'] = [list(v) for v in mn]
                if it % 4 == 1:
                    spec['box'] = None
                f = CHARACTER_SIZES[it % len(CHARACTER_SIZES)]
                spec.update(burgers='frame', bkind='frame:character', bframe=[f * c for c in CHARACTER_B[j]])
                spec.pop('bsize', None)
                try:
                    s = _build_checked(ctx, spec, kind)
                except Exception as e:  # noqa
                    if not (isinstance(e, ValueError) and kind == 'stroh' and spec['cls'] == 'isotropic'):
                        ctx.violate(f'{kind}:raises', f'{kind} solver raised {type(e).__name__}: {e} for a Burgers vector with '
                                    f'components {spec["bframe"]} along (m, n, ξ), m={spec["m"]}, n={spec["n"]}',
                                    {'op': 'orientation', 'solver': kind, 'spec': spec})
                    continue
                _guarded(ctx, 'orientation', kind, spec, lambda: _orientation_oracle(ctx, spec, s))


def _options_sweep(ctx, rng, reps=1):
    """every combination of the four orientation options through the base class, Stroh and the entry point: refused
    (AssertionError) exactly for halves of a Miller pair, Miller indices with transform / axes, transform with axes; axes= is
    transform=; nothing given is the identity; array rows are normalised."""
    import atomman as am
    np = _np()
    for _ in range(reps):
        spec0 = gen_spec(rng, cls=rng.choice(['cubic', 'orthorhombic', 'triclinic']), route='default', mn=rng.choice([None, 'rot']))
        spec0['burgers'] = [1.0, 0.5, -0.25]
        spec0['box'] = None
        spec0.pop('origin', None)
        xi, hkl = rng.choice(MILLER)
        ax = np.array(rng.choice(INT_AXES[1:]), dtype=float) * rng.choice([1.0, 2.0, 0.5])
        ax2 = np.array(quat_rot(rng.choice(QUATS[1:])), dtype=float)
        C = am.ElasticConstants(Cij=np.array(spec0['cij'], dtype=float))
        m, n = mn_vectors(spec0)
        res = {}
        for bits in range(16):
            kw = {'m': spec0['m'], 'n': spec0['n'], 'tol': spec0['tol']}
            gx, gh, gt, ga = bits & 1, bits & 2, bits & 4, bits & 8
            if gx:
                kw['ξ_uvw'] = list(xi)
            if gh:
                kw['slip_hkl'] = list(hkl)
            if gt:
                kw['transform'] = ax.copy()
            if ga:
                kw['axes'] = (ax2 if gt else ax).copy()
            want = 'err:assert' if (bool(gx) != bool(gh)) or ((gx or gh) and (gt or ga)) or (gt and ga) else 'ok'
            for which, cls in (('base', am.defect.VolterraDislocation), ('stroh', am.defect.Stroh),
                               ('auto', am.defect.solve_volterra_dislocation)):
                try:
                    o = cls(C, list(spec0['burgers']), **kw)
                    got = 'ok'
                except AssertionError:
                    o, got = None, 'err:assert'
                except ValueError:
                    o, got = None, 'err:value'
                except Exception as e:  # noqa
                    o, got = None, f'raised {type(e).__name__}: {e}'
                rep = {'op': 'options', 'spec': spec0, 'bits': bits}
                ctx.stats.case('options', (which, bits, str(spec0['m']), str(spec0['n']), tuple(xi), tuple(hkl)),
                               sample={'op': 'orientation options', 'given': sorted(k for k in kw if k not in ('m', 'n', 'tol')),
                                       'class': which, 'outcome': got})
                if which != 'base' and want == 'ok' and got == 'err:value':
                    continue        # an orientation the eigen-solver cannot do (degenerate): not an option matter
                if got != want:
                    ctx.violate(f'{which}:options', f'{which}: orientation options {sorted(k for k in kw if k not in ("m", "n", "tol"))} '
                                f'(ξ_uvw={xi}, slip_hkl={hkl}, transform / axes rows {ax.tolist()}): {got}, expected {want} '
                                f'(m={spec0["m"]}, n={spec0["n"]})', rep)
                    continue
                if o is not None:
                    res[(which, bits)] = o
                    T = np.asarray(o.transform)
                    if bits == 0 and not np.array_equal(T, np.eye(3)):
                        ctx.violate(f'{which}:options', f'{which}: no orientation option given, stored transform {T.tolist()} is not the identity', rep)
                    if bits in (4, 8):
                        u = (ax.T / np.linalg.norm(ax, axis=1)).T
                        if float(np.abs(T - u).max()) > 1e-14:
                            ctx.violate(f'{which}:options', f'{which}: {"transform" if bits == 4 else "axes"}={ax.tolist()} stored as '
                                        f'{T.tolist()}, expected the normalised rows {u.tolist()}', rep)
                        bexp = u.dot(np.array(spec0['burgers']))
                        if float(np.abs(o.burgers - bexp).max()) > 1e-12 * float(np.abs(bexp).max()) + 3 * spec0['tol'] * float(np.abs(bexp).max()):
                            ctx.violate(f'{which}:options', f'{which}: {"transform" if bits == 4 else "axes"}={ax.tolist()}: stored Burgers '
                                        f'vector {o.burgers.tolist()}, expected {bexp.tolist()}', rep)
        for which in ('base', 'stroh', 'auto'):
            a, b = res.get((which, 4)), res.get((which, 8))
            if a is not None and b is not None:
                for nm in ('transform', 'burgers'):
                    if not np.array_equal(getattr(a, nm), getattr(b, nm)):
                        ctx.violate(f'{which}:options', f'{which}: axes= and transform= give different {nm}: {getattr(b, nm).tolist()} vs '
                                    f'{getattr(a, nm).tolist()} for rows {ax.tolist()}', {'op': 'options', 'spec': spec0, 'bits': 8})
                if not np.array_equal(a.C.Cij, b.C.Cij):
                    ctx.violate(f'{which}:options', f'{which}: axes= and transform= give different stiffness for rows {ax.tolist()}',
                                {'op': 'options', 'spec': spec0, 'bits': 8})


def _build_checked(ctx, spec, kind):
    """build() with every argument as an object the caller keeps: the constructor must not modify any of them."""
    import atomman as am
    cls = {'stroh': am.defect.Stroh, 'iso': am.defect.IsotropicVolterraDislocation, 'auto': am.defect.solve_volterra_dislocation}[kind]
    C, b, kw = _mutable_args(spec)
    snap = _arg_snapshot(C, b, kw)
    s = cls(C, b, **kw)
    after = _arg_snapshot(C, b, kw)
    mod = [k_ for k_ in snap if snap[k_] != after[k_]]
    if mod:
        ctx.violate(f'{kind}:input-modified', f'{kind}: constructing the solution modified its arguments {mod} ({spec["cls"]}, route '
                    f'{spec["route"]}, ξ_uvw={spec["xi_uvw"]}, slip_hkl={spec["slip_hkl"]})', {'op': 'aliasing', 'solver': kind, 'spec': spec})
    return s


def _guarded(ctx, name, kind, spec, op):
    """an exception that escapes one of the cross-cutting operations is reported with the problem, never a crash."""
    try:
        op()
    except Exception as e:  # noqa
        import traceback
        tb = traceback.extract_tb(e.__traceback__)[-1]
        ctx.violate(f'{kind}:{name}-raises', f'{kind}: {name}: {type(e).__name__}: {e} ({tb.filename.rsplit("/", 1)[-1]}:{tb.lineno} {tb.name})',
                    {'op': name, 'solver': kind, 'spec': spec})


def search(ctx, broken):
    rng = random.Random(ctx.seed * 7919 + 12)
    mult = 3 if broken else 1
    t0 = time.time()
    n = ctx.n(21, 280) * mult
    for it in range(n):
        iso = it % 4 == 3
        # (second pass through the classes: media with tiny symmetry-allowed constants crossed with every value of tol)
        second = (it // len(CLASSES)) % 2 == 1
        spec = gen_iso_spec(rng) if iso else gen_spec(rng, cls=CLASSES[it % len(CLASSES)], near_identity=it % 5 == 2,
                                                      four_index=it % 10 == 6, tiny=True if second else None,
                                                      tol=[1e-8, 1e-5, 1e-6][(it // len(CLASSES) + it) % 3] if second else None)
        kind = 'iso' if iso else 'stroh'
        try:
            s = _build_checked(ctx, spec, kind)
        except ValueError:
            if iso or spec['cls'] not in ('hexagonal', 'tetragonal', 'rhombohedral'):
                ctx.violate(f'{kind}:refused', f'{kind} solver refused a generic {spec["cls"]} problem (ValueError)',
                            {'op': 'clauses', 'solver': kind, 'spec': spec})
            continue
        except Exception as e:  # noqa
            ctx.violate(f'{kind}:raises', f'{kind} solver raised {type(e).__name__}: {e}', {'op': 'clauses', 'solver': kind, 'spec': spec})
            continue
        _guarded(ctx, 'orientation', kind, spec, lambda: _orientation_oracle(ctx, spec, s))
        if _near_degenerate(s):
            ctx.stats.case('near-degenerate', str(spec), nontrivial=False)
            continue
        _guarded(ctx, 'clauses', kind, spec, lambda: _clauses(ctx, spec, s, rng, kind))
        # points a hair above / below the half-planes y = 0 (own random stream), every problem; through the entry point too
        _guarded(ctx, 'cutband', kind, spec, lambda: _cut_band(ctx, spec, random.Random(ctx.seed * 4057 + it), kind))
        if it % 3 == 1:
            _guarded(ctx, 'cutband', 'auto', spec, lambda: _cut_band(ctx, spec, random.Random(ctx.seed * 4057 + 500 + it), 'auto'))
        if it % 2 == 0:
            _guarded(ctx, 'covariance', kind, spec, lambda: _covariance(ctx, spec, rng, kind))
        # cross-cutting classes, each on every third problem (and through the entry point on some)
        k2 = 'auto' if it % 7 == 5 else kind
        if k2 == 'auto':
            stA, sA = _outcome_obj(spec, 'auto')
            if stA != 'ok':
                ctx.violate('dispatch:refused-solvable', f'solve_volterra_dislocation refuses a problem that {kind} solves: {stA}: {sA} '
                            f'({spec["cls"]}, route {spec["route"]}, m={spec["m"]}, n={spec["n"]})', {'op': 'clauses', 'solver': kind, 'spec': spec})
                continue
        for j, (name, op) in enumerate((('forms', lambda: _input_forms(ctx, spec, build(spec, k2), rng, k2)),
                                        ('inplace', lambda: _inplace_sequence(ctx, spec, rng, k2)),
                                        ('aliasing', lambda: _arg_aliasing(ctx, spec, rng, k2)),
                                        ('argforms', lambda: _arg_forms(ctx, spec, rng, k2)),
                                        ('scale', lambda: _scale_sweep(ctx, spec, rng, k2)))):
            if (it + j) % 3 == 0 or broken or (kind == 'iso' and name in ('forms', 'inplace', 'scale')):
                _guarded(ctx, name, k2, spec, op)
    _search_refusals(ctx, rng, ctx.n(81, 324) * mult)
    t1 = time.time()
    nsw = ctx.n(21, 140) * mult
    for it in range(nsw):
        bk = SWEEP_BKINDS[it % len(SWEEP_BKINDS)]
        sw = gen_sweep(rng, cls=CLASSES[it % len(CLASSES)], bkind=bk, tol=[1e-5, 1e-6, 1e-8][(it // 8) % 3] if bk.endswith('-n') else None)
        try:
            _dispatch_sweep(ctx, sw, rng, clauses=it < ctx.n(7, 42) * mult)
        except Exception as e:  # noqa
            ctx.violate('dispatch:sweep-raises', f'dispatcher sweep: {type(e).__name__}: {e}', {'op': 'dispatch', 'sweep': sw, 'eps': 0.0})
    ctx.extra['t_dispatch_sweep_s'] = round(time.time() - t1, 2)
    for it in range(ctx.n(4, 40) * mult):
        try:
            _resolve_sequence(ctx, rng)
        except Exception as e:  # noqa
            ctx.violate('state:raises', f're-solve sequence: {type(e).__name__}: {e}', {'op': 'resolve'})
    try:
        _miller_sweep(ctx, rng, ctx.n(2, 12) * mult)
    except Exception as e:  # noqa
        ctx.violate('orientation:sweep-raises', f'Miller-index sweep: {type(e).__name__}: {e}', {'op': 'miller-sweep'})
    try:
        # own random stream (the draws of the other operations stay what they were)
        _character_sweep(ctx, random.Random(ctx.seed * 6007 + 3), reps=ctx.n(1, 6) * mult)
    except Exception as e:  # noqa
        ctx.violate('orientation:character-raises', f'character sweep: {type(e).__name__}: {e}', {'op': 'search'})
    try:
        _options_sweep(ctx, random.Random(ctx.seed * 7919 + 11), reps=ctx.n(2, 12) * mult)
    except Exception as e:  # noqa
        ctx.violate('options:raises', f'orientation-option sweep: {type(e).__name__}: {e}', {'op': 'options'})
    try:
        _array_sizes(ctx, rng)
    except Exception as e:  # noqa
        ctx.violate('sizes:raises', f'array-size sweep: {type(e).__name__}: {e}', {'op': 'sizes-sweep'})
    ctx.extra['t_search_s'] = round(time.time() - t0, 2)


def replay(ctx, payload):
    """re-run the stored case against the current tree."""
    r = payload.get('replay', {}) or {}
    op = r.get('op')
    rng = random.Random(0)
    if op in ('clauses', 'covariance', 'orientation') and 'spec' in r:
        kind = r.get('solver', 'stroh')
        try:
            s = build(r['spec'], kind)
        except Exception as e:  # noqa
            ctx.violate(f'{kind}:raises', f'replayed problem raised {type(e).__name__}: {e}', r)
            return
        _orientation_oracle(ctx, r['spec'], s)
        _clauses(ctx, r['spec'], s, rng, kind)
        for _ in range(4):
            _covariance(ctx, r['spec'], rng, kind)
        print('replay', op, kind, 'violations now:', len(ctx.violations))
    elif op in ('forms', 'inplace', 'aliasing', 'argforms', 'scale') and 'spec' in r:
        kind = r.get('solver', 'stroh')
        spec = r['spec']
        for i in range(12):
            rr = random.Random(i)
            if op == 'forms':
                _guarded(ctx, op, kind, spec, lambda: _input_forms(ctx, spec, build(spec, kind), rr, kind))
            else:
                fn = {'inplace': _inplace_sequence, 'aliasing': _arg_aliasing, 'argforms': _arg_forms, 'scale': _scale_sweep}[op]
                _guarded(ctx, op, kind, spec, lambda: fn(ctx, spec, rr, kind))
        print('replay', op, kind, 'violations now:', len(ctx.violations))
    elif op == 'cutband' and 'spec' in r:
        kind = r.get('solver', 'iso')
        _guarded(ctx, 'cutband', kind, r['spec'], lambda: _cut_band_case(ctx, r['spec'], kind, r.get('xs', [-1.0, 1.0]), r.get('z', 0.0)))
        print('replay points a hair off the cut:', kind, 'violations now:', len(ctx.violations))
    elif op == 'seq' and 'spec' in r and ctx.driver is not None:
        for i in range(20):
            ctx.rng = random.Random(i)
            _cguard(ctx, 'seq', r['spec'], lambda: _seq_case(ctx, r['spec'], ctx.rng))
        print('replay object-level histories: disagreements now:', len(getattr(ctx, 'disagreements', [])))
    elif op == 'dispatch' and 'sweep' in r:
        _dispatch_sweep(ctx, r['sweep'], rng)
        if ctx.driver is not None:
            for eps in EPS_SWEEP:
                _dispatch_case(ctx, r['sweep'], eps)
        print('replay dispatch sweep: violations now:', len(ctx.violations))
    elif op == 'sizes' and 'spec' in r:
        _guarded(ctx, 'sizes', r.get('solver', 'stroh'), r['spec'], lambda: _array_size_case(ctx, r['spec'], r.get('solver', 'stroh'), r['N'], r['pseed']))
        print('replay array of', r['N'], 'points: violations now:', len(ctx.violations))
    elif op == 'options':
        for i in range(6):
            _options_sweep(ctx, random.Random(i), reps=2)
        print('replay orientation options: violations now:', len(ctx.violations))
    elif op == 'base' and 'spec' in r and ctx.driver is not None:
        _cguard(ctx, 'base', r['spec'], lambda: _base_case(ctx, r['spec']))
        for i in range(6):
            _options_sweep(ctx, random.Random(i), reps=2)
        print('replay base-class call: disagreements now:', len(getattr(ctx, 'disagreements', [])))
    elif op == 'resolve':
        for _ in range(40):
            _resolve_sequence(ctx, rng)
        print('replay re-solve sequences: violations now:', len(ctx.violations))
    elif op == 'refusal' and 'spec' in r:
        spec = r['spec']
        print('replay refusal:', {w: _outcome(spec, w) for w in ('stroh', 'auto')}, 'expected', r.get('expected'))
        want = r.get('expected')
        for w in ('stroh', 'auto'):
            g = _outcome(spec, w)
            if (want == 'accept' and g != 'ok') or (want == 'refuse' and g != 'err:assert') or (want == 'refuse-value' and g != 'err:value'):
                ctx.violate('refusal:' + spec.get('malformed', '?'), f'replayed malformed-orientation case: {w} gives {g}, expected {want}', r)
    else:
        if ctx.driver is not None:
            correspond(ctx)
        search(ctx, True)


# ------------------------------------------------------------------------------------------
# declarations read by ./check
# ------------------------------------------------------------------------------------------
THEOREMS = [
    # Stroh sextic eigenproblem
    'C12.stroh_L', 'C12.stroh_sextic',
    # field formulas: strain = sym grad u, stress = C : strain, div stress = 0, 1/r
    'C12.eta_dir_deriv', 'C12.strain_is_symgrad', 'C12.stress_is_C_strain', 'C12.stress_is_C_strain_at',
    'C12.stress_div_free', 'C12.stress_div_free_of_eigen', 'C12.eta_homog', 'C12.falls_as_inv_r',
    # ... the same as analytic statements (Mathlib's complex logarithm): derivatives, continuity, one-sided limits
    'C12.strain_is_symgrad_deriv', 'C12.stress_div_free_deriv',
    # Burgers vector
    'C12.burgers_closure', 'C12.disp_continuous_off_cut', 'C12.disp_continuous_off_cut_analytic',
    'C12.burgers_jump_limit',
    # energy-coefficient tensor
    'C12.K_symm', 'C12.kOf_conj', 'C12.K_real_partial', 'C12.traction_coef', 'C12.K_is_traction', 'C12.iso_K_is_traction',
    # covariance under rotating the whole problem, independence of the eigen-solver's normalisation
    'C12.eigen_covariant', 'C12.inverse_covariant', 'C12.fields_covariant', 'C12.K_covariant', 'C12.scale_invariant',
    'C12.pair_order_invariant',
    # isotropic closed form (generated definitions)
    'C12.iso_stress_is_hooke', 'C12.iso_symmetric', 'C12.iso_falls_as_inv_r', 'C12.iso_burgers_jump',
    'C12.iso_jump_general', 'C12.iso_K_symm', 'C12.iso_K_posdef',
    'C12.thetaOf_halfplanes', 'C12.gen_theta_pinned', 'C12.iso_strain_is_symgrad_deriv', 'C12.iso_stress_div_free_deriv',
    # units: the same problem in another length / stiffness unit (repo fixes 540bb56, fc87dd0)
    'C12.length_unit_covariant', 'C12.length_unit_displacement', 'C12.stiffness_unit_eigen', 'C12.stiffness_unit_covariant',
    'C12.stroh_checks_unit_invariant', 'C12.iso_unit_covariant', 'C12.iso_length_unit_displacement',
    # object level: no hidden state, no aliasing (repo fixes 0c58045, 14f01a1)
    'C12.history_read', 'C12.arg_edits_invisible', 'C12.scale_edit_read',
    # entry point solve_volterra_dislocation; what the isotropic solver accepts (repo fix 9765d33)
    'C12.isoInPlaneOk_bound', 'C12.iso_accept_jump', 'C12.dispatch_iso_jump', 'C12.dispatch_stroh_first',
    'C12.dispatch_iso_iff', 'C12.dispatch_none_iff',
    # orientation by Miller indices: reciprocal-lattice normal, zone law, the SIGN of the frame (Proofs/C12_Miller.lean)
    'C12.miller_normal_dot_line', 'C12.miller_zone', 'C12.miller_normal_dot_edges', 'C12.miller_normal_neg',
    'C12.miller_normal_side', 'C12.find_transform_normal', 'C12.find_transform_line', 'C12.find_transform_inplane',
    'C12.find_transform_miller_sign',
    # round 5 — source tie: every definition of Generated/StrohSource.lean (regenerated from Stroh.py, VolterraDislocation.py,
    # solve_volterra_dislocation.py, dislocation_system_transform.py, IsotropicVolterraDislocation.solve,
    # ElasticConstants.transform on every run) equals the hand model (Proofs/C12_Source.lean)
    'C12.gen_contractions_eq_model', 'C12.gen_quadrants_eq_model', 'C12.gen_eigRes_eq_model', 'C12.gen_kNorm_eq_model',
    'C12.gen_updn_eq_model', 'C12.gen_checks_eq_model', 'C12.gen_checkTargets_pinned', 'C12.gen_eta_eq_model',
    'C12.gen_kTensor_eq_model', 'C12.gen_displacement_eq_model', 'C12.gen_strain_eq_model', 'C12.gen_stress_eq_model',
    'C12.gen_Kcoeff_preln_eq_model', 'C12.gen_rotC_eq_model', 'C12.gen_findTransform_eq_model', 'C12.gen_axisOfStr_eq_model',
    'C12.gen_signatures_eq_model', 'C12.gen_forwarding_eq_model', 'C12.gen_route_eq_model', 'C12.gen_dispatch_eq_model',
    'C12.gen_dispatch_catches', 'C12.gen_getters_pinned', 'C12.gen_sigTransform_pinned', 'C12.gen_pins_pinned',
    'C12.gen_orientB_eq_model', 'C12.gen_isoInPlaneOk_eq_model', 'C12.gen_unitOk_eq_model', 'C12.gen_cartOk_eq_model',
    'C12.gen_perpOk_eq_model', 'C12.gen_checks_stored',
    # round 5 — API level: option handling, refusals, clean-up bound, end-to-end clauses for every accepted input and for the
    # field methods as coded
    'C12.routeOf_refuses_iff', 'C12.routeOf_error_class', 'C12.routeOf_axes_alias', 'C12.routeOf_never_raw',
    'C12.gen_route_refuses_iff', 'C12.cijkl_minor', 'C12.chop_close', 'C12.orientB_within_tol', 'C12.gen_orientB_within_tol',
    'C12.baseSolve_ok_iff', 'C12.baseSolve_assert_first', 'C12.baseSolve_axes_alias', 'C12.entry_stress_is_C_strain',
    'C12.entry_stress_div_free', 'C12.entry_burgers_jump', 'C12.gen_stress_is_C_strain', 'C12.gen_displacement_jump',
    'C12.gen_falls_as_inv_r', 'C12.gen_K_symm',
    # round 5 — the exact-closure hypothesis replaced by what the solver has checked; Miller route end to end; generated K real
    'C12.dispJump_eq_chkAL', 'C12.dispJump_defect', 'C12.accepted_closure_defect', 'C12.accepted_jump_defect',
    'C12.baseSolve_miller_frame', 'C12.gen_K_real',
]
PARTIAL = {
    'object level': 'history_read / arg_edits_invisible / scale_edit_read are statements about the model World (the solved object '
        'holds copies; a read is a function of the object and of the current contents of the array); that the real classes behave '
        'like it is tied by the correspondence op seq (Stroh) and, for the isotropic solver and the entry point, explored by the '
        'search (in-place sequences, argument aliasing) only. The model\'s solve keeps the rotated medium / Burgers vector without '
        'the round-off clean-ups (those are in orientC / orientB, compared separately).',
    'units': 'stroh_checks_unit_invariant covers the four self-checks; the fifth acceptance test (K_tensor real, an absolute '
        'tolerance on Im K) is unit-free only because Im K = 0 exactly for conjugate pairs (K_real_partial, ConjPairs verified by '
        'the driver); length_unit_displacement takes ln(t eta) = ln t + ln eta as a hypothesis (true for the principal logarithm and '
        't > 0 real). Powers of two only are compared exactly by the search; other factors within max(1e-9, 3 tol).',
    'displacement jump (Stroh), round 5': 'the exact-closure hypothesis is no longer needed for the algebraic statement: '
        'dispJump_defect gives jump - b = (sum_a k_a A_a (x) L_a - 1) b for ANY eigen-solver output, and accepted_jump_defect '
        'bounds every entry of that defect matrix by tol + rtol delta_ij (squared modulus) for every problem Stroh.solve '
        'accepts (its first self-check); the analytic one-sided-limit theorem burgers_jump_limit still takes exact closure and '
        'the sign pattern of Im p_a.',
    'displacement jump (Stroh)': 'burgers_closure / burgers_jump_limit (one-sided limits of the coded displacement with the '
        'principal complex logarithm, lim(y->0+) - lim(y->0-) = b) assume the completeness relation sum_a k_a A_a (x) L_a = 1 '
        'exactly (it is the solver\'s own first self-check, which holds to round-off; the driver recomputes the residual for '
        'every solved problem) and that Im p_a > 0 for the first and < 0 for the second member of each pair (LAPACK\'s '
        'ordering; verified exactly by the driver through the ConjPairs flag and by the sign of the jump in the search).',
    'K_tensor real': 'K_real_partial assumes that numpy.linalg.eig lists the six modes as adjacent complex-conjugate pairs '
        '(ConjPairs); LAPACK does so for a real matrix, the driver verifies it exactly on every solved problem.',
    'K_tensor positive-definite (Stroh)': 'not proved: positive-definiteness of the Barnett-Lothe tensor needs the strong '
        'ellipticity of C and the integral formalism; proved only for the isotropic closed form (iso_K_posdef). Checked on '
        'the real code with exact Sylvester minors.',
    'isotropic limit': 'that the Stroh solution tends to the isotropic closed form as the anisotropy vanishes is a statement '
        'about the eigen-solver near a triple degenerate eigenvalue (the isotropic N is defective): explored on the real code '
        'only, through the entry point solve_volterra_dislocation, for C_iso + eps mu D with D shaped like each crystal class '
        'and eps = 0, 1e-12 .. 1e-1: whatever is returned is within 3 eps + 1e-7 (relative; observed <= 0.3 eps) of an '
        'independent complete closed-form isotropic solution for the whole Burgers vector (incl. the component along n) and '
        'changes by no more than that between neighbouring eps. From which eps on Stroh succeeds depends on the orientation '
        '(1e-7 .. 1e-2); in between the dispatcher refuses (ValueError) unless the constants pass the isotropic solver\'s '
        'own test, which is outside the property (near-degeneracy).',
    'dispatcher': 'dispatch_stroh_first / dispatch_iso_iff / dispatch_none_iff / dispatch_iso_jump are about the model of the '
        'try/except in solve_volterra_dislocation, which since round 5 is proved equal to the structure regenerated from the '
        'source (gen_dispatch_eq_model, gen_dispatch_catches, gen_forwarding_eq_model); its inputs (does Stroh.solve raise, '
        'C.is_normal) are outcomes of the real code in the correspondence. That Stroh.solve raises exactly when strohAccept '
        'fails is tied in the accepting direction by the correspondence and structurally by gen_checks_stored / the pinned '
        'real-K test (a refused eigen-solver output is not observable from outside).',
    'source tie': 'Generated/StrohSource.lean is assembled from the source with ast and every definition in it is proved equal '
        'to the hand model (30 gen_ obligations); statements that are calls into numpy / other properties / stores are held by '
        'normalised text pins (gen_pins_pinned, gen_getters_pinned): a harmless rewrite of such a statement breaks the pin and '
        'is then decided by the failing-input search. Not generated: theta() and the frame plumbing of the isotropic solver '
        '(text pins of the first translator), tools.axes_check (model + ops axes / base), tools.vect_angle (search oracle only), '
        'how many points are evaluated together (per-point semantics; array sizes are the search\'s business).',
    'API level': 'baseSolve models VolterraDislocation.solve for array-valued and named axes with numpy.linalg.norm of the rows '
        'and the Miller -> Cartesian conversions (property C16) as parameters; axis strings other than x, y, z, non-3-vectors '
        'and non-(3,3) orientation arrays (TypeError / AssertionError from numpy shapes) are outside the model.',
    'isotropic solution on the plane x = 0': 'iso_strain_is_symgrad_deriv is stated on the open half-planes x != 0, where '
        'theta() is arctan(y/x) plus a constant (thetaOf_halfplanes); that the special-cased values +-pi/2 on x = 0 make '
        'the displacement continuous (and differentiable) across that plane is not stated in Lean; the continuity oracle '
        'checks it on the real code with exact zeros of pos.m.',
    'covariance': 'eigen_covariant / fields_covariant / K_covariant show that the rotated eigen-pairs solve the rotated problem '
        'and give the rotated fields; the freedom numpy.linalg.eig has in returning them is covered by scale_invariant (any '
        'scaling of each eigenvector) and pair_order_invariant (any order of the three pairs); that it lists each pair with '
        'Im p > 0 first is LAPACK\'s convention (hypothesis of burgers_jump_limit, verified by the driver and by the sign of '
        'the jump and of K in the search).',
    'stress_div_free over the reals': 'the derivative theorems for the Stroh fields are stated for complex field points and '
        'complex directions (F = C, the type np.log works in), which contains the real points the API takes; the coded '
        'np.real_if_close step (dropping an imaginary part below tol) is modelled only in the correspondence.',
}
RULE = ('correspondence: positive-definite stiffness of the 7 crystal classes (isotropic base + class-shaped perturbation, scale '
        '1 / 160.25 / 2^-7), Burgers vectors edge / screw / mixed / with climb component / crystal vectors, orientation by '
        'rational rotation, un-normalised integer axes, or Miller line+plane in 6 boxes (cubic, tetragonal, orthorhombic, '
        'hexagonal, triclinic), m and n as strings or as rows of exact rational rotations; field points generic, dyadic, on the '
        'frame axes, within 1e-9 r of the cut, on the cut (axis-aligned frames), distances 0.01-100, with offset along the '
        'line; malformed orientation stream: non-unit m / n by factors from 1 +- 0.5e-8 (accepted) to 2, non-perpendicular by '
        'angles 0.5e-8 .. 0.1, cart_axes with rotated / negative / aligned axes, skewed and left-handed axes. Model values are '
        'compared within a round-off bound derived from the magnitudes the implementation sums (1e-11 x sum |terms|); entries '
        'within tol x max of the clean-up threshold are compared with atol 2.5 tol max. distinct = distinct canonical input; '
        'non-trivial = solver accepted (exactly degenerate orientations such as a line along the six-fold axis are counted '
        'but trivial) and, for theta, the point is not within 1e-12 r of the branch in a rotated frame. '
        'Burgers vectors with one or two components (along m, n, xi) of 1e-3 .. 1e-7 of the largest; every 5th / 9th problem '
        'has crystal axes within 0.002 .. 0.025 rad of the solver axes; box= also without any orientation argument. '
        'dispatcher sweeps: isotropic base (lam, mu, scale 1 / 160.25 / 2^-7) + eps mu D, D of max norm 1 shaped like each of '
        'the 7 classes, eps in {0, 1e-12, 1e-10, 1e-9, 1e-8, 3e-8, 1e-7, 3e-7, 1e-6, 1e-5, 3e-5, 1e-4, 3e-4, 1e-3, 1e-2, 1e-1}, '
        'all orientation routes, Burgers vector by components along m, n, xi: general (all three 0.3 .. 1.5), small '
        'components, in-plane, climb only, |b.n| = 0.25 / 0.5 tol max|b| (accepted by the isotropic solver), 2 / 4 tol .. '
        '1e-3 (refused); Stroh, IsotropicVolterraDislocation and solve_volterra_dislocation are all run at every eps; a sweep '
        'whose orientation is degenerate even at eps = 0.1 counts as trivial. re-solve sequences: 3 problems on one object. '
        'search: same generators, clauses evaluated on the real code only. '
        'round 2: every problem has a stiffness unit (1, 160.25, 2^-7 or 2^j, |j| <= 200) and a length unit (1 or 2^k, |k| <= 100; '
        'the cell or the Burgers vector is scaled, all distances are multiples of it); cells also strongly sheared / flat / '
        'rotated / axis-permuted / left-handed (vector conversion only) and with non-zero origins; media with symmetry-allowed '
        'constants of 1e-4 .. 3e-7 of the largest, crossed with tol 1e-5 / 1e-6; eigenproblems with cond(V) > 1e4 count as '
        'trivial (nearly defective). field points as int / float32 / float16 arrays, nested lists / tuples, mixed scalars, '
        'Fortran / strided / reversed / read-only views, single points in 9 forms, empty arrays; constructor arguments as lists / '
        'tuples / int / float32 / Fortran / strided / read-only arrays, numpy flags, positional through class and entry point; '
        'the same problem in 6 other units per sweep (small and large length, small and large stiffness, mixed, a real unit '
        'system); histories of 5-9 in-place edits of ONE coordinate array (shift, column, double, halve, row, overwrite, negate, '
        'temporaries) with reads in shuffled order; every constructor argument edited in place after solving, recycled for a '
        'second problem, every array-valued result scribbled over; the un-rotated crystal (no orientation / transform = 1 / '
        'axes = 2*1) always among the aliasing and object-level (seq) cases. '
        'round 3: Miller orientations are drawn half from the fixed list, half generated: the plane (or the line) follows one of '
        'the 26 zero x sign patterns of three indices (magnitudes 1 .. 3, not necessarily coprime), its partner is the index '
        'cross product with a random integer vector; the same with four indices in the hexagonal cell; a sweep runs every '
        'pattern of the plane, of the line and of (hkil) through dislocation_system_transform and the solver on every run '
        '(exact reciprocal-lattice normal, sign included). arrays of N points: N = 1, 2, 3, 2^k - 1, 2^k, 2^k + 1 (k <= 17 quick, '
        '19 thorough), N = j s and s + 1 for j = 1, 2, 3 and s = 2^16 // r, 2^20 // r with r in {3, 6, 9, 12, 18, 24, 27, 36, 48, '
        '72, 81, 96, 144, 162, 192, 288} (quick: up to 2^16 + 1), three random N; the points are drawn with repetition from <= 1009 '
        'base points, so EVERY row is compared with a small-array evaluation, stress = C:strain on every row, first / middle / '
        'last row against single-point calls; solvers alternate (thorough: both). Block lengths outside this list are not covered. '
        'round 7: every search problem (Stroh, isotropic, every third through the entry point) in its own frame and in two of the 24 '
        'signed-axis frames: points x m +- y n + z xi, x = -+r (r in {1, 3.5, 40, 1e-3, 2^-20, 2^j |j| <= 30, random} x length unit), '
        'y = |x| 2^-k for every k = 10 .. 1074 and |x| 10^-k for every k = 3 .. 323 (rotated frames: down to 2^-40), one array per '
        'x; same-side continuity chain with a Lipschitz bound, upper - lower = b (x < 0) / 0 (x > 0), isotropic: atan2 closed form and '
        'theta(); single points = array rows; not decided: isotropic upper side below 2^-50, Stroh rows with |y| min|Im p| < 2^-1073')
ASSUMPTIONS = [
    'numpy.linalg.eig returns (p_a, (A_a, L_a)) with N v = p v up to the residual recomputed by the driver on every solved '
    'problem (bound 1e-13 x cond(V) x row scale); exact eigenvalue degeneracy is outside the property',
    'numpy.linalg.inv(nn): the driver uses the exact adjugate inverse, the theorems take nn . nnInv = 1 as hypothesis',
    'np.log of a complex number is the principal branch (Mathlib Complex.log; cut on the negative real axis), np.log / '
    'np.arctan of a real number are Real.log / Real.arctan, np.pi is pi: used by the analytic theorems (…_deriv, '
    'burgers_jump_limit); in the correspondence the values are passed to the model, never computed in Lean; k**.5 and '
    'vector norms likewise (sqrt residuals are recomputed)',
    'numpy einsum / dot compute the mathematical contraction up to round-off bounded by 1e-11 x the sum of |terms|',
    'Box.vector_crystal_to_cartesian / plane_crystal_to_cartesian (property C16) give the line direction and plane normal; '
    'the search oracle recomputes the plane normal exactly from the reciprocal lattice, and since round 3 the model does too '
    '(millerLine, millerNormal; driver op miller): in right-handed cells the implementation\'s unit vectors must be positive '
    'multiples of the model\'s; to which side the normal points in a left-handed cell is left to C16',
    'ElasticConstants(Cij=...), .Cij, .Cijkl, bulk(), shear(), is_normal, normalized_as (property C11) are used as given; '
    'Cijkl and transform are modelled (cijkl, toVoigt, rotC) and compared; the value of C.is_normal(\'isotropic\', atol=0, '
    'rtol=1e-4) is an input of the model\'s dispatch / isoAccept (the search checks independently that an accepted isotropic '
    'solution uses a medium within 2e-4 of the given one)',
]
TRUSTED = ['numpy.linalg.eig / inv / norm, np.log, np.arctan (values handed to the model, residuals recomputed exactly)',
           'the second AST translator (einsum / dot / outer / cross / broadcasting -> explicit index sums; option handling -> do '
           'block; signatures and call arguments -> string tables) for Stroh.py, VolterraDislocation.py, '
           'solve_volterra_dislocation.py, dislocation_system_transform.py, ElasticConstants.transform: per-point semantics of '
           'numpy broadcasting and of einsum with an ellipsis are what it encodes',
           'numpy array semantics (views, in-place operators, np.shares_memory) in the in-place / aliasing oracles',
           'the AST translator for IsotropicVolterraDislocation.py (this module + harness/translate.py)',
           'finite-difference oracles (4th-order Richardson, h = r/1000) in the search']

MANIFEST = {
    'text': 'Volterra dislocation fields. Lean model of the Stroh sextic formalism over any field (run at Q(i)) with the '
            'eigen-solver, 3x3 inverse, log, arctan, pi as parameters; the isotropic closed-form displacement / strain / '
            'stress / K are regenerated from IsotropicVolterraDislocation.py on every run. Proved for all inputs: N v = p v '
            'implies L = -(nm + p nn) A and the sextic equation; the coded strain coefficients are the symmetrised formal '
            'gradient of the displacement coefficients; stress = C : strain; div stress = 0 mode by mode from the sextic '
            'equation; strain and stress homogeneous of degree -1; displacement jump = b from the completeness relation; '
            'K symmetric, real given conjugate-pair ordering; covariance of the eigen residuals, fields and K under any R '
            'with R^T R = 1; independence of the eigenvector normalisation; isotropic: stress = Hooke(strain), symmetry, 1/r, '
            'jump = b for every Burgers vector the solver accepts (|b.n| <= tol max|b|, repo fix 9765d33; exact for b.n = 0), '
            'K symmetric positive-definite; solve_volterra_dislocation returns the Stroh solution whenever Stroh solves the '
            'problem and the isotropic closed form only for isotropic constants with an in-plane Burgers vector. Analytic versions with Mathlib\'s complex logarithm / arctan / log: '
            'strain = symmetric gradient and div stress = 0 as HasDerivAt statements (Stroh over C, isotropic over R), '
            'continuity off the cut, one-sided limits at the cut differ by b. Partial: positive-definite Stroh K, isotropic '
            'limit, ordering of the eigen-solver output (explored / verified on the real code). Round 2: the same problem in '
            'another length / stiffness unit (displacement jump and coefficients times t, strain unchanged, stress and K times c, the '
            'rescaled eigenvectors solve the rescaled eigenproblem, the solver\'s self-checks give the same verdict in every stiffness '
            'unit); object model (caller\'s argument objects, one coordinate array, solved object holding copies): after any history '
            'of in-place edits every read is the field of the problem as solved at the array\'s current contents; correspondence op '
            'seq runs such histories on the real Stroh object and on the model. Round 3: orientation by Miller indices inside '
            'the model (line u a + v b + w c, plane normal h b x c + k c x a + l a x b): zone law with the volume factor, the '
            'normal has the sign of each index along its cell edge in a right-handed cell, __find_transform takes the unit '
            'normal to n, the unit line to m x n, their cross product to m, hence the frame is fixed by the SIGNS of the indices; '
            'every zero x sign pattern of plane and line indices runs on every check; arrays of N points for N around every '
            'power of two up to 2^17 (2^19 thorough) and at multiples of plausible block lengths, every row compared. '
            'Round 5: second translator: Generated/StrohSource.lean is assembled with ast from Stroh.py (contractions, quadrants and '
            'layout of N, eigenvector split, k, self-checks, eta, K_tensor, displacement / strain / stress with their einsum index '
            'strings and updn literals), VolterraDislocation.py (signature, option handling as a do block, axis-name table and '
            'axis tests, Burgers-vector clean-up, __find_transform, K_coeff, preln, getters), solve_volterra_dislocation.py (try / '
            'except, forwarding), dislocation_system_transform.py, the in-plane test of the isotropic solver and the einsums of '
            'ElasticConstants.transform; 30 obligations gen_..._eq_model / _pinned prove every generated definition equal to the '
            'hand model. API-level model baseSolve (refusal classes in source order) with driver op base; theorems: which option '
            'combinations are refused (iff), axes = transform, stored Burgers vector within tol max|b| of the rotated request, '
            'stress = C : strain and div-free coefficients for every accepted call without symmetry hypotheses (the stored medium '
            'is cijkl of a 6x6 array), jump - b = (sum k A (x) L - 1) b with every entry of the defect bounded by what the '
            'solver\'s own first self-check accepts, the same clauses for the generated field methods.',
    'note': 'Trusted: Lean kernel + propext/Classical.choice/Quot.sound; numpy.linalg.eig/inv, np.log, np.arctan (their values '
            'are inputs of the model and the residuals of what the theorems assume about them are recomputed exactly by the '
            'driver for every solved problem); the AST translator; float round-off bounded by 1e-11 x sum |terms| in the '
            'correspondence. The search evaluates every clause on the real code (finite differences, exact C:strain, exact '
            'Sylvester minors, Burgers circuit, rational rotations, malformed axes, the dispatcher over the anisotropy range '
            '0 .. 0.1 against an independent complete isotropic closed form, re-solve sequences).',
    'technique': 'Lean 4 theorems over a hand-written model proved equal to definitions regenerated from the source with ast '
                 '(Generated/StrohSource.lean: Stroh assembly, base-class option handling, dispatcher; gen_..._eq_model + statement pins) '
                 '+ translator-generated isotropic closed form (Generated/IsoVolterra.lean) + differential correspondence + exact oracle',
}
